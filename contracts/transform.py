"""Contracts for FlowCal.transform (C06 to_mef, C03 to_rfi, C07 range clauses)."""
import z3

from pyvc.verify import Contract, LoopSpec
from pyvc.values import SV, Seq, SymSeq, NDArr, NT, PyExc, OptVal, RangeV
from pyvc.interp import stamp, SymFn
from pyvc import interp as M
from .common import (sym_array, sym_fcs, sym_dims, struct_eq, zb, FCS_ATTRS, PER_CHANNEL, data_witness, mval, cell3,
                     fresh_range)
from . import io_specs
from .gate import sym_int_list, sym_str_list, size_hints

R, Z = z3.RealSort(), z3.IntSort()


def curve_list(I, name, n):
    """list of n standard curves: curve k is the uninterpreted real function S(k, .) applied elementwise
    (A-LIB: standard curves are pure and elementwise)"""
    S = I.ctx.fresh_fn(name, Z, R, R)

    def mk(I_, k):
        def apply(I2, args, kwargs, k=k):
            x = I2.force(args[0])
            if isinstance(x, NDArr):
                f = x.fn
                dt = x.dtype
                return I2.np.finish(x.shape, 'float', lambda *idx, f=f: S(k, I2.np.cast(f(*idx), dt, 'float')), [x])
            return SV(S(k, I2.z(x, 'real')), 'real', True)
        return SymFn('sc[%s]' % k, apply)
    s = stamp(SymSeq('list', n, mk))
    s.S = S
    return s


def seq_term(I, seq, k):
    """element k of a list of ints as a term (bound-variable safe)"""
    if isinstance(seq, RangeV):
        return I.z(seq.start, 'int') + k
    return I.z(I.pure_elem_nofork(seq, k), 'int')


def member(I, seq, v, bound='mb_m'):
    """v in seq (literal comparison, as the code does)"""
    m = z3.Int(bound)
    n = I.z(I.seq_len(seq), 'int')
    return z3.Exists([m], z3.And(0 <= m, m < n, seq_term(I, seq, m) == v))


class ToMef(Contract):
    target = 'FlowCal.transform.to_mef'
    property_ids = ('C06', 'C07')
    config = {'call_contracts': io_specs.summaries()}
    assumptions = ('to_mef: positions in channels / sc_channels are given as 0 <= c < D (negative positions are compared '
                   'literally by the coverage test: such requests are refused, never mis-converted)',
                   'to_mef: sc_channels denote pairwise distinct columns',
                   'A-LIB: standard curves are pure elementwise functions')
    max_paths = 800

    def cases(self):
        out = []
        for cont in ('ndarray', 'FCSData'):
            chforms = ['none', 'int', 'intlist'] + (['str', 'strlist'] if cont == 'FCSData' else [])
            scforms = ['none', 'intlist'] + (['strlist'] if cont == 'FCSData' else [])
            for ch in chforms:
                for sc in scforms:
                    out.append({'label': '%s-ch=%s-sc=%s' % (cont, ch, sc), 'container': cont, 'ch': ch, 'sc': sc})
        return out

    # ---------------------------------------------------------------- inputs
    def setup(self, I, case):
        c = I.ctx
        N, D = sym_dims(I, 'N', 'D')
        fcs = case['container'] == 'FCSData'
        data = sym_fcs(I, 'data', N, D, range_never_none=False) if fcs else sym_array(I, 'data', [N, D], 'float')
        aux = {'N': N, 'D': D, 'data': data, 'fcs': fcs}
        nl = c.fresh_int('n_curves')
        c.assume(nl >= 0)
        aux['nl'] = nl
        sc_list = curve_list(I, 'S', nl)
        aux['S'] = sc_list.S
        k, k2 = z3.Ints('pre_k pre_k2')
        if case['sc'] == 'none':
            scch = None
            aux['nsc'] = D
        else:
            nsc = c.fresh_int('n_sc')
            c.assume(nsc >= 0)
            aux['nsc'] = nsc
            if case['sc'] == 'intlist':
                scch = sym_int_list(I, 'scch', nsc)
                f = scch.ufn
                c.assume(z3.ForAll([k], z3.Implies(z3.And(0 <= k, k < nsc), z3.And(0 <= f(k), f(k) < D)), patterns=[f(k)]))
            else:
                scch = sym_str_list(I, 'scnames', nsc)
                f = scch.ufn
            c.assume(z3.ForAll([k, k2], z3.Implies(z3.And(0 <= k, k < k2, k2 < nsc), f(k) != f(k2)),
                               patterns=[z3.MultiPattern(f(k), f(k2))]))
            aux['scf'] = f
        ch = None
        if case['ch'] == 'int':
            aux['c'] = c.fresh_int('ch')
            c.assume(z3.And(0 <= aux['c'], aux['c'] < D))
            ch = SV(aux['c'], 'int')
        elif case['ch'] == 'str':
            aux['s'] = c.fresh_str('chname')
            ch = SV(aux['s'], 'str')
        elif case['ch'] in ('intlist', 'strlist'):
            nch = c.fresh_int('n_ch')
            c.assume(nch >= 0)
            aux['nch'] = nch
            if case['ch'] == 'intlist':
                ch = sym_int_list(I, 'chs', nch)
                g = ch.ufn
                c.assume(z3.ForAll([k], z3.Implies(z3.And(0 <= k, k < nch), z3.And(0 <= g(k), g(k) < D)), patterns=[g(k)]))
            else:
                ch = sym_str_list(I, 'chnames', nch)
            aux['chf'] = ch.ufn
        aux['ch'] = ch
        return [data, ch, sc_list], {'sc_channels': scch}, aux

    # ---------------------------------------------------------------- spec vocabulary (from the property)
    def vocab(self, I, case, aux):
        D = aux['D']
        m = aux['data'].meta if aux['fcs'] else None
        kk, cc = z3.Ints('vc_k vc_c')

        def cov(c_, j):
            """curve j was supplied for column c"""
            if case['sc'] == 'none':
                return j == c_
            if case['sc'] == 'intlist':
                return aux['scf'](j) == c_
            return m.chan(c_) == aux['scf'](j)

        def covered(c_):
            return z3.Exists([kk], z3.And(0 <= kk, kk < aux['nsc'], cov(c_, kk)))

        def req(c_):
            """column c is requested"""
            f = case['ch']
            if f == 'none':
                return covered(c_)
            if f == 'int':
                return c_ == aux['c']
            if f == 'str':
                return m.chan(c_) == aux['s']
            if f == 'intlist':
                return z3.Exists([kk], z3.And(0 <= kk, kk < aux['nch'], aux['chf'](kk) == c_))
            return z3.Exists([kk], z3.And(0 <= kk, kk < aux['nch'], m.chan(c_) == aux['chf'](kk)))

        def known(s):
            return z3.Exists([cc], z3.And(0 <= cc, cc < D, m.chan(cc) == s))
        unknown = []
        if case['sc'] == 'strlist':
            unknown.append(z3.Exists([kk], z3.And(0 <= kk, kk < aux['nsc'], z3.Not(known(aux['scf'](kk))))))
        if case['ch'] == 'str':
            unknown.append(z3.Not(known(aux['s'])))
        if case['ch'] == 'strlist':
            unknown.append(z3.Exists([kk], z3.And(0 <= kk, kk < aux['nch'], z3.Not(known(aux['chf'](kk))))))
        return cov, covered, req, (z3.Or(*unknown) if unknown else z3.BoolVal(False))

    # ---------------------------------------------------------------- loop invariants
    def loop_specs(self):
        contract = self

        def inv_check(I, env, k, st0):
            # loop 0 (coverage test): every requested channel seen so far has a curve
            chind, scch = env['channels_ind'], env['sc_channels']
            m = z3.Int('l0_m')
            yield ('earlier-requests-covered',
                   z3.ForAll([m], z3.Implies(z3.And(0 <= m, m < k), member(I, scch, seq_term(I, chind, m), 'l0_j'))))

        def snap(I, env):
            dt = env['data_t']
            return {'x': dt.fn, 'range': I.snapshot(I.np.ensure_attrs(dt)['_range']) if dt.cls == 'FCSData' else None}

        def havoc(I, env, st0):
            dt = env['data_t']
            f = I.ctx.fresh_fn('DT', Z, Z, R)
            dt._fn = lambda i, j, f=f: f(i, j)
            if dt.cls == 'FCSData':
                I.np.ensure_attrs(dt)['_range'] = fresh_range(I, 'RT', I.np.dim_val(dt.shape[1]))

        def inv_conv(I, env, k, st0):
            dt, scch, chind = env['data_t'], env['sc_channels'], env['channels_ind']
            S = I.ctx.aux['S']
            x = st0['x']
            N, D = I.np.dim_z(dt.shape[0]), I.np.dim_z(dt.shape[1])
            i, c, j = z3.Ints('l1_i l1_c l1_j')
            cur = dt.fn
            col = lambda j_: seq_term(I, scch, j_)
            reqj = lambda j_: member(I, chind, col(j_), 'l1_m')
            rows = z3.And(0 <= i, i < N)
            yield ('converted-columns', z3.ForAll([i, j], z3.Implies(z3.And(rows, 0 <= j, j < k, reqj(j)),
                                                                     cur(i, col(j)) == S(j, x(i, col(j))))))
            untouched = lambda c_: z3.ForAll([j], z3.Implies(z3.And(0 <= j, j < k), z3.Not(z3.And(reqj(j), col(j) == c_))))
            yield ('other-columns-unchanged', z3.ForAll([i, c], z3.Implies(z3.And(rows, 0 <= c, c < D, untouched(c)),
                                                                           cur(i, c) == x(i, c))))
            if dt.cls == 'FCSData':
                rng = I.np.ensure_attrs(dt)['_range']
                yield ('range-list-length', I.z(I.seq_len(rng), 'int') == D)
                n1, l1, h1 = cell3(I, rng, c)
                n0, l0, h0 = cell3(I, st0['range'], c)
                yield ('other-ranges-unchanged', z3.ForAll([c], z3.Implies(z3.And(0 <= c, c < D, untouched(c)),
                                                                           z3.And(n1 == n0, z3.Implies(z3.Not(n0), z3.And(l1 == l0, h1 == h0))))))
                nj1, lj1, hj1 = cell3(I, rng, col(j))
                nj0, lj0, hj0 = cell3(I, st0['range'], col(j))
                yield ('converted-ranges', z3.ForAll([j], z3.Implies(z3.And(0 <= j, j < k, reqj(j)),
                                                                     z3.And(nj1 == nj0, z3.Implies(z3.Not(nj0), z3.And(lj1 == S(j, lj0), hj1 == S(j, hj0)))))))
        q = 'FlowCal.transform.to_mef'
        return {(q, 0): LoopSpec(inv_check), (q, 1): LoopSpec(inv_conv, havoc, snap, keeps=())}

    def expected_outcomes(self, case):
        return ['return', 'raise:ValueError']

    def small_hints(self, case, aux):
        ex = [aux[k] for k in ('c', 'nl', 'nsc', 'nch') if k in aux and not isinstance(aux[k], int)]
        return size_hints(aux, ex)

    def witness(self, model, case, aux):
        w = data_witness(model, aux['data'], case['container'])
        names = None
        if w.get('meta'):
            names = [mval(model, aux['data'].meta.chan(z3.IntVal(i))) for i in range(len(w['meta']['channels']))]

        def nm(v):
            if names is not None and v in names:
                return w['meta']['channels'][names.index(v)]
            return '__unknown__' + str(abs(hash(v)) % 1000)

        def lst(n, f, conv=lambda x: x):
            n = mval(model, n)
            return [conv(mval(model, f(z3.IntVal(k)))) for k in range(n)] if isinstance(n, int) and n <= 12 else None
        if case['ch'] == 'none':
            ch = None
        elif case['ch'] == 'int':
            ch = mval(model, aux['c'])
        elif case['ch'] == 'str':
            ch = nm(mval(model, aux['s']))
        else:
            ch = lst(aux['nch'], aux['chf'], nm if case['ch'] == 'strlist' else (lambda x: x))
        if case['sc'] == 'none':
            sc = None
        else:
            sc = lst(aux['nsc'], aux['scf'], nm if case['sc'] == 'strlist' else (lambda x: x))
        nl = mval(model, aux['nl'])
        w.update({'channels': ch, 'sc_channels': sc, 'n_curves': nl if isinstance(nl, int) and nl <= 12 else None})
        return w

    # ---------------------------------------------------------------- ensures (from the property)
    def check(self, I, case, aux, out):
        P = I.ctx.prove
        N, D, data, S = aux['N'], aux['D'], aux['data'], aux['S']
        cov, covered, req, unknown = self.vocab(I, case, aux)
        c, j, i = z3.Ints('en_c en_j en_i')
        uncovered = z3.Exists([c], z3.And(0 <= c, c < D, req(c), z3.Not(covered(c))))
        if case['ch'] in ('intlist', 'strlist', 'str', 'int') and case['sc'] == 'none':
            pass
        lens_differ = aux['nsc'] != aux['nl']
        if out.kind == 'raise':
            P('refusal-is-a-ValueError', out.raised('ValueError'))
            lk = getattr(I.ctx, 'loop_k', None)
            if lk is not None and lk[0].endswith('loop0') and case['ch'] in ('intlist', 'strlist'):
                # the refusal came from the coverage test at iteration k: name the uncovered column (a witness
                # for the existential, which the solvers do not find by themselves)
                kk = lk[1]
                if case['ch'] == 'intlist':
                    cw = aux['chf'](kk)
                else:
                    cw = I.ctx.fresh_int('col_w')
                    I.ctx.assume(z3.Implies(z3.Not(unknown), z3.And(0 <= cw, cw < D, aux['data'].meta.chan(cw) == aux['chf'](kk))))
                P('refused-only-for-length-mismatch-uncovered-channel-or-unknown-name',
                  z3.Or(lens_differ, unknown, z3.And(0 <= cw, cw < D, req(cw), z3.Not(covered(cw)))))
            else:
                P('refused-only-for-length-mismatch-uncovered-channel-or-unknown-name', z3.Or(lens_differ, uncovered, unknown))
            return
        P('returns-only-when-lengths-match', z3.Not(lens_differ))
        P('returns-only-when-every-requested-channel-has-a-curve', z3.Not(uncovered))
        res = out.value
        ok = isinstance(res, NDArr) and res.ndim == 2 and res.cls == data.cls and res is not data
        P('result-is-a-new-array-of-the-same-kind', ok)
        if not ok:
            return
        P('same-shape', z3.And(I.np.dim_z(res.shape[0]) == N, I.np.dim_z(res.shape[1]) == D))
        P('float-result', res.dtype == 'float')
        x = data.ufn
        r = res.fn
        i0, c0, j0 = I.ctx.fresh_int('ev'), I.ctx.fresh_int('colx'), I.ctx.fresh_int('curve')
        inr = z3.And(0 <= i0, i0 < N, 0 <= c0, c0 < D)
        P('requested-channel-converted-with-its-own-curve',
          z3.Implies(z3.And(inr, req(c0), 0 <= j0, j0 < aux['nsc'], cov(c0, j0)), r(i0, c0) == S(j0, x(i0, c0))), assume_after=False)
        P('other-channels-identical', z3.Implies(z3.And(inr, z3.Not(req(c0))), r(i0, c0) == x(i0, c0)), assume_after=False)
        # the input is not modified
        P('input-events-unmodified', z3.Implies(inr, data.fn(i0, c0) == x(i0, c0)), assume_after=False)
        if aux['fcs']:
            ra = I.np.ensure_attrs(res)
            m = data.meta
            n1, l1, h1 = cell3(I, ra['_range'], c0)
            none0 = m.rng_none(c0)
            cin = z3.And(0 <= c0, c0 < D)
            P('range-list-length', I.z(I.seq_len(ra['_range']), 'int') == D)
            P('converted-range-follows-the-curve',
              z3.Implies(z3.And(cin, req(c0), 0 <= j0, j0 < aux['nsc'], cov(c0, j0)),
                         z3.And(n1 == none0, z3.Implies(z3.Not(none0), z3.And(l1 == S(j0, m.lo(c0)), h1 == S(j0, m.hi(c0)))))),
              assume_after=False)
            P('other-ranges-identical', z3.Implies(z3.And(cin, z3.Not(req(c0))),
                                                   z3.And(n1 == none0, z3.Implies(z3.Not(none0), z3.And(l1 == m.lo(c0), h1 == m.hi(c0))))),
              assume_after=False)
            for a in FCS_ATTRS:
                if a == '_range':
                    continue
                if a not in ra:
                    P('metadata-preserved.' + a, False)
                else:
                    I.prove_forked('metadata-preserved.' + a, lambda a=a: struct_eq(I, ra[a], data.attrs[a]))
            d0, l0, h0 = cell3(I, data.attrs['_range'], c0)
            P('input-range-unmodified', z3.Implies(cin, z3.And(d0 == none0, l0 == m.lo(c0), h0 == m.hi(c0))), assume_after=False)


CONTRACTS = [ToMef()]


# ---------------------------------------------------------------------------------------------
class ToRfi(Contract):
    target = 'FlowCal.transform.to_rfi'
    property_ids = ('C03', 'C07')
    config = {'call_contracts': io_specs.summaries()}
    assumptions = ('to_rfi: the selected channels are pairwise distinct columns (a repeated channel is converted twice)',
                   'to_rfi: resolution > 0 and gain > 0 where given (property quantifier); every selected channel of a sample '
                   'has an amplification type on file unless overridden',
                   'A-REAL: a1*10**((a0/r)*x) is the real a1*10^(a0*x/r); no bit-level claim')
    max_paths = 1500

    def cases(self):
        out = []
        for cont in ('ndarray', 'FCSData'):
            chforms = ['none', 'int', 'intlist'] + (['str', 'strlist'] if cont == 'FCSData' else [])
            for ch in chforms:
                for ov in ('none', 'given', 'badlen', 'noniter'):
                    if ch in ('int', 'str') and ov in ('badlen', 'noniter'):
                        continue
                    out.append({'label': '%s-ch=%s-ov=%s' % (cont, ch, ov), 'container': cont, 'ch': ch, 'ov': ov})
        return out

    def setup(self, I, case):
        c = I.ctx
        N, D = sym_dims(I, 'N', 'D')
        fcs = case['container'] == 'FCSData'
        data = sym_fcs(I, 'data', N, D, range_never_none=False) if fcs else sym_array(I, 'data', [N, D], 'float')
        aux = {'N': N, 'D': D, 'data': data, 'fcs': fcs}
        k, k2 = z3.Ints('pre_k pre_k2')
        B = z3.BoolSort()
        ch = None
        scalar = case['ch'] in ('int', 'str')
        if case['ch'] == 'int':
            aux['c'] = c.fresh_int('ch')
            ch = SV(aux['c'], 'int')
            n = 1
        elif case['ch'] == 'str':
            aux['s'] = c.fresh_str('chname')
            ch = SV(aux['s'], 'str')
            n = 1
        elif case['ch'] == 'none':
            n = D
        else:
            n = c.fresh_int('n_ch')
            c.assume(n >= 0)
            ch = sym_int_list(I, 'chs', n) if case['ch'] == 'intlist' else sym_str_list(I, 'chnames', n)
            aux['chf'] = ch.ufn
            f = ch.ufn
            if case['ch'] == 'intlist':
                nrm = lambda e: z3.If(e < 0, e + D, e)
                c.assume(z3.ForAll([k, k2], z3.Implies(z3.And(0 <= k, k < k2, k2 < n), nrm(f(k)) != nrm(f(k2)))))
            else:
                c.assume(z3.ForAll([k, k2], z3.Implies(z3.And(0 <= k, k < k2, k2 < n), f(k) != f(k2)),
                                   patterns=[z3.MultiPattern(f(k), f(k2))]))
        aux['n'] = n
        aux['ch'] = ch
        # overrides: per entry optional values
        ov = {}
        for nm, sorts in (('oat_none', B), ('oat0', R), ('oat1', R), ('oag_none', B), ('oag', R), ('or_none', B), ('ores', Z)):
            ov[nm] = c.fresh_fn(nm, Z, sorts)
        aux['ov'] = ov
        c.assume(z3.ForAll([k], z3.And(ov['oag'](k) > 0, ov['ores'](k) > 0)))
        if fcs:
            m = data.meta
            c.assume(z3.ForAll([k], z3.And(z3.Not(m.at_none(k)), m.ag(k) > 0, m.res(k) > 0)))
            data.elem_facts = lambda i: z3.And(z3.Not(m.at_none(i)), m.ag(i) > 0, m.res(i) > 0)
        kw = {'channels': ch}
        form = case['ov']
        if form == 'none':
            pass
        else:
            def entry_at(I_, i):
                return OptVal(ov['oat_none'](i), stamp(Seq('tuple', [SV(ov['oat0'](i), 'real'), SV(ov['oat1'](i), 'real')])))

            def entry_ag(I_, i):
                if not I_.ctx.quant_mode:
                    I_.ctx.assume(ov['oag'](i) > 0)          # instance of the precondition at this entry
                return OptVal(ov['oag_none'](i), SV(ov['oag'](i), 'real'))

            def entry_r(I_, i):
                if not I_.ctx.quant_mode:
                    I_.ctx.assume(ov['ores'](i) > 0)
                return OptVal(ov['or_none'](i), SV(ov['ores'](i), 'int'))
            if scalar:
                kw['amplification_type'] = entry_at(I, z3.IntVal(0))
                kw['amplifier_gain'] = entry_ag(I, z3.IntVal(0))
                kw['resolution'] = entry_r(I, z3.IntVal(0))
            else:
                nl = n
                if form == 'badlen':
                    nl = c.fresh_int('n_other')
                    c.assume(z3.And(nl >= 0, nl != n))
                    aux['which_bad'] = c.choice(3, 'badlen-which')
                lens = [n, n, n]
                if form == 'badlen':
                    lens[aux['which_bad']] = nl
                kw['amplification_type'] = stamp(SymSeq('list', lens[0], entry_at))
                kw['amplifier_gain'] = stamp(SymSeq('list', lens[1], entry_ag))
                kw['resolution'] = stamp(SymSeq('list', lens[2], entry_r))
                if form == 'noniter':
                    w = c.choice(3, 'noniter-which')
                    kw[('amplification_type', 'amplifier_gain', 'resolution')[w]] = SV(c.fresh_real('scalar_override'), 'real')
        aux['kw'] = kw
        # spec functions (definitional extensions): COL(j) = column denoted by entry j, LAW(j, v) = its amplifier law
        I.real_axioms()
        COL = c.fresh_fn('COL', Z, Z)
        LAW = c.fresh_fn('LAW', Z, R, R)
        aux['COL'], aux['LAW'] = COL, LAW
        col, colname, params, apply = self.law(I, case, aux)
        jj = z3.Int('def_j')
        vv = z3.Real('def_v')
        nz = n if not isinstance(n, int) else z3.IntVal(n)
        if case['ch'] in ('str', 'strlist'):
            cc = z3.Int('def_c')
            known = lambda j_: z3.Exists([cc], z3.And(0 <= cc, cc < D, data.meta.chan(cc) == colname(j_)))
            c.assume(z3.ForAll([jj], z3.Implies(z3.And(0 <= jj, jj < nz, known(jj)),
                                                z3.And(0 <= COL(jj), COL(jj) < D, data.meta.chan(COL(jj)) == colname(jj))), patterns=[COL(jj)]))
        else:
            c.assume(z3.ForAll([jj], COL(jj) == col(jj), patterns=[COL(jj)]))
        c.assume(z3.ForAll([jj, vv], LAW(jj, vv) == apply(jj, COL(jj), vv), patterns=[LAW(jj, vv)]))
        return [data], kw, aux

    # the law of entry j applied to value v, and its column (from the property)
    def law(self, I, case, aux):
        D, ov, fcs = aux['D'], aux['ov'], aux['fcs']
        given = case['ov'] in ('given',)
        m = aux['data'].meta if fcs else None

        def col(j):
            f = case['ch']
            if f == 'none':
                return j
            if f == 'int':
                return z3.If(aux['c'] < 0, aux['c'] + D, aux['c'])
            if f == 'intlist':
                e = aux['chf'](j)
                return z3.If(e < 0, e + D, e)
            return None       # names: the column is characterised by its name (see colname)

        def colname(j):
            return aux['s'] if case['ch'] == 'str' else aux['chf'](j)

        def params(j, cj):
            """(a0, a1, gain, res, has_at, has_res) for entry j at column cj"""
            o_at = z3.And(z3.BoolVal(given), z3.Not(ov['oat_none'](j)))
            o_ag = z3.And(z3.BoolVal(given), z3.Not(ov['oag_none'](j)))
            o_r = z3.And(z3.BoolVal(given), z3.Not(ov['or_none'](j)))
            if fcs:
                a0 = z3.If(o_at, ov['oat0'](j), m.at0(cj))
                a1 = z3.If(o_at, ov['oat1'](j), m.at1(cj))
                g = z3.If(o_ag, ov['oag'](j), z3.If(m.ag_none(cj), z3.RealVal(1), m.ag(cj)))
                r = z3.If(o_r, z3.ToReal(ov['ores'](j)), z3.ToReal(m.res(cj)))
                return a0, a1, g, r, z3.BoolVal(True), z3.BoolVal(True)
            return ov['oat0'](j), ov['oat1'](j), z3.If(o_ag, ov['oag'](j), z3.RealVal(1)), z3.ToReal(ov['ores'](j)), o_at, o_r

        def apply(j, cj, v):
            a0, a1, g, r, has_at, has_r = params(j, cj)
            return z3.If(a0 == 0, v / g, a1 * M.exp10((a0 / r) * v))
        return col, colname, params, apply

    def loop_specs(self):
        contract = self

        def snap(I, env):
            dt = env['data_t']
            return {'x': dt.fn, 'range': I.snapshot(I.np.ensure_attrs(dt)['_range']) if dt.cls == 'FCSData' else None}

        def havoc(I, env, st0):
            dt = env['data_t']
            f = I.ctx.fresh_fn('DT', Z, Z, R)
            dt._fn = lambda i, j, f=f: f(i, j)
            if dt.cls == 'FCSData':
                I.np.ensure_attrs(dt)['_range'] = fresh_range(I, 'RT', I.np.dim_val(dt.shape[1]))

        def inv(I, env, k, st0):
            aux = I.ctx.aux
            case = I.ctx.case
            dt, chans = env['data_t'], env['channels']
            I.real_axioms()
            LAW, COL = aux['LAW'], aux['COL']
            apply = lambda j_, c_, v_: LAW(j_, v_)
            x = st0['x']
            N, D = I.np.dim_z(dt.shape[0]), I.np.dim_z(dt.shape[1])
            i, c, j = z3.Ints('l_i l_c l_j')
            cur = dt.fn
            raw = lambda j_: seq_term(I, chans, j_)
            col = lambda j_: z3.If(raw(j_) < 0, raw(j_) + D, raw(j_))
            rows = z3.And(0 <= i, i < N)
            yield ('entries-denote-their-columns', z3.ForAll([j], z3.Implies(z3.And(0 <= j, j < I.z(I.iter_len(chans), 'int')), col(j) == COL(j))))
            # iterations that completed normally indexed a valid column (needed by "returns only for valid requests")
            yield ('earlier-positions-valid', z3.ForAll([j], z3.Implies(z3.And(0 <= j, j < k), z3.And(-D <= raw(j), raw(j) < D))))
            yield ('converted-columns', z3.ForAll([i, j], z3.Implies(z3.And(rows, 0 <= j, j < k),
                                                                     cur(i, COL(j)) == apply(j, COL(j), x(i, COL(j))))))
            untouched = lambda c_: z3.ForAll([j], z3.Implies(z3.And(0 <= j, j < k), COL(j) != c_))
            yield ('other-columns-unchanged', z3.ForAll([i, c], z3.Implies(z3.And(rows, 0 <= c, c < D, untouched(c)),
                                                                           cur(i, c) == x(i, c))))
            col = COL
            if dt.cls == 'FCSData':
                rng = I.np.ensure_attrs(dt)['_range']
                yield ('range-list-length', I.z(I.seq_len(rng), 'int') == D)
                n1, l1, h1 = cell3(I, rng, c)
                n0, l0, h0 = cell3(I, st0['range'], c)
                yield ('other-ranges-unchanged', z3.ForAll([c], z3.Implies(z3.And(0 <= c, c < D, untouched(c)),
                                                                           z3.And(n1 == n0, z3.Implies(z3.Not(n0), z3.And(l1 == l0, h1 == h0))))))
                nj1, lj1, hj1 = cell3(I, rng, col(j))
                nj0, lj0, hj0 = cell3(I, st0['range'], col(j))
                yield ('converted-ranges', z3.ForAll([j], z3.Implies(z3.And(0 <= j, j < k),
                                                                     z3.And(nj1 == nj0, z3.Implies(z3.Not(nj0), z3.And(lj1 == apply(j, col(j), lj0),
                                                                                                                    hj1 == apply(j, col(j), hj0)))))))
        return {('FlowCal.transform.to_rfi', 0): LoopSpec(inv, havoc, snap)}

    def expected_outcomes(self, case):
        if case['ov'] in ('badlen', 'noniter'):
            return ['raise:ValueError']
        if case['container'] == 'ndarray' and case['ov'] == 'none':
            return []
        return ['return']

    def small_hints(self, case, aux):
        ex = [aux[k] for k in ('c', 'n') if k in aux and not isinstance(aux[k], int)]
        return size_hints(aux, ex)

    def witness(self, model, case, aux):
        w = data_witness(model, aux['data'], case['container'])
        names = None
        if w.get('meta'):
            names = [mval(model, aux['data'].meta.chan(z3.IntVal(i))) for i in range(len(w['meta']['channels']))]

        def nm(v):
            return w['meta']['channels'][names.index(v)] if names is not None and v in names else '__unknown__'
        n = mval(model, aux['n'])
        if not isinstance(n, int) or n > 12:
            return {'data': None}
        f = case['ch']
        ch = None if f == 'none' else mval(model, aux['c']) if f == 'int' else nm(mval(model, aux['s'])) if f == 'str' else \
            [(nm if f == 'strlist' else (lambda x: x))(mval(model, aux['chf'](z3.IntVal(k)))) for k in range(n)]
        ov = aux['ov']
        form = case['ov']

        def ent(k):
            kz = z3.IntVal(k)
            return {'at': None if mval(model, ov['oat_none'](kz)) else [mval(model, ov['oat0'](kz)), mval(model, ov['oat1'](kz))],
                    'ag': None if mval(model, ov['oag_none'](kz)) else mval(model, ov['oag'](kz)),
                    'r': None if mval(model, ov['or_none'](kz)) else mval(model, ov['ores'](kz))}
        w.update({'channels': ch, 'ov_form': form, 'entries': [ent(k) for k in range(n if f in ('intlist', 'strlist', 'none') else 1)] if form != 'none' else None,
                  'which': aux.get('which_bad')})
        return w

    def check(self, I, case, aux, out):
        P = I.ctx.prove
        I.real_axioms()
        N, D, data, fcs = aux['N'], aux['D'], aux['data'], aux['fcs']
        col, colname, params, apply = self.law(I, case, aux)
        m = data.meta if fcs else None
        n = aux['n']
        nz = n if not isinstance(n, int) else z3.IntVal(n)
        kk, cc = z3.Ints('en_k en_c')
        names_form = case['ch'] in ('str', 'strlist')
        if names_form:
            unknown = z3.Exists([kk], z3.And(0 <= kk, kk < nz, z3.Not(z3.Exists([cc], z3.And(0 <= cc, cc < D, m.chan(cc) == colname(kk))))))
            bad_pos = z3.BoolVal(False)
        else:
            unknown = z3.BoolVal(False)
            raw = (lambda j: j) if case['ch'] == 'none' else (lambda j: aux['c']) if case['ch'] == 'int' else (lambda j: aux['chf'](j))
            bad_pos = z3.Exists([kk], z3.And(0 <= kk, kk < nz, z3.Not(z3.And(-D <= raw(kk), raw(kk) < D))))
        # entries lacking an amplification type / resolution (plain arrays only)
        j0 = I.ctx.fresh_int('entry')
        if out.kind == 'raise':
            if case['ov'] in ('badlen', 'noniter'):
                P('inconsistent-argument-lengths-refused-with-ValueError', out.raised('ValueError'))
                return
            missing = z3.BoolVal(False)
            if not fcs:
                cj = I.ctx.fresh_int('colm')
                a0, a1, g, r, has_at, has_r = params(kk, cc)
                missing = z3.Exists([kk], z3.And(0 <= kk, kk < nz, z3.Or(z3.Not(params(kk, z3.IntVal(0))[4]),
                                                                         z3.And(params(kk, z3.IntVal(0))[0] != 0, z3.Not(params(kk, z3.IntVal(0))[5])))))
            P('refused-only-for-unknown-name-bad-position-or-missing-amplifier-information', z3.Or(unknown, bad_pos, missing))
            P('refusal-class', out.raised('ValueError') or out.raised('IndexError'))
            return
        P('consistent-arguments', case['ov'] not in ('badlen', 'noniter'))
        P('valid-request', z3.Not(z3.Or(unknown, bad_pos)))
        res = out.value
        ok = isinstance(res, NDArr) and res.ndim == 2 and res.cls == data.cls and res is not data
        P('result-is-a-new-array-of-the-same-kind', ok)
        if not ok:
            return
        P('same-shape', z3.And(I.np.dim_z(res.shape[0]) == N, I.np.dim_z(res.shape[1]) == D))
        P('float-result', res.dtype == 'float')
        x, r_ = data.ufn, res.fn
        i0, c0 = I.ctx.fresh_int('ev'), I.ctx.fresh_int('colx')
        inr = z3.And(0 <= i0, i0 < N, 0 <= c0, c0 < D)
        entry = z3.And(0 <= j0, j0 < nz)
        # (the spec functions COL/LAW are defined in setup from the property's vocabulary: the column carrying the
        #  requested name or position, and a1*10^(a0*x/r) resp. x/g with the override-or-file parameters)
        is_col = lambda j, c_: aux['COL'](j) == c_
        apply = lambda j_, c_, v_: aux['LAW'](j_, v_)
        selected = z3.Exists([kk], z3.And(0 <= kk, kk < nz, is_col(kk, c0)))
        P('selected-channel-follows-its-amplifier-law', z3.Implies(z3.And(inr, entry, is_col(j0, c0)), r_(i0, c0) == apply(j0, c0, x(i0, c0))),
          assume_after=False)
        P('other-channels-identical', z3.Implies(z3.And(inr, z3.Not(selected)), r_(i0, c0) == x(i0, c0)), assume_after=False)
        P('input-events-unmodified', z3.Implies(inr, data.fn(i0, c0) == x(i0, c0)), assume_after=False)
        if fcs:
            ra = I.np.ensure_attrs(res)
            n1, l1, h1 = cell3(I, ra['_range'], c0)
            none0 = m.rng_none(c0)
            cin = z3.And(0 <= c0, c0 < D)
            P('range-list-length', I.z(I.seq_len(ra['_range']), 'int') == D)
            P('converted-range-is-the-law-of-the-old-limits',
              z3.Implies(z3.And(cin, entry, is_col(j0, c0)),
                         z3.And(n1 == none0, z3.Implies(z3.Not(none0), z3.And(l1 == apply(j0, c0, m.lo(c0)), h1 == apply(j0, c0, m.hi(c0)))))),
              assume_after=False)
            P('other-ranges-identical', z3.Implies(z3.And(cin, z3.Not(selected)),
                                                   z3.And(n1 == none0, z3.Implies(z3.Not(none0), z3.And(l1 == m.lo(c0), h1 == m.hi(c0))))),
              assume_after=False)
            for a in FCS_ATTRS:
                if a == '_range':
                    continue
                if a not in ra:
                    P('metadata-preserved.' + a, False)
                else:
                    I.prove_forked('metadata-preserved.' + a, lambda a=a: struct_eq(I, ra[a], data.attrs[a]))
            d0, l0, h0 = cell3(I, data.attrs['_range'], c0)
            P('input-range-unmodified', z3.Implies(cin, z3.And(d0 == none0, l0 == m.lo(c0), h0 == m.hi(c0))), assume_after=False)


CONTRACTS.append(ToRfi())
