"""C01/C16: the generic (odd / mixed width) integer decoder of read_fcs_data_segment -- bounded in the number of parameters and
exhaustive over the width combinations, unbounded in the number of events, the file content, offsets and byte order."""
import itertools
import z3

from pyvc.values import SV, Seq, SymSeq, NDArr
from pyvc.interp import stamp
from pyvc import interp as M
from pyvc.iomodel import make_file
from .fcsio import DataSegment, Z, R
from .common import mval

WIDTHS = (8, 16, 24, 32, 40, 48, 56, 64)
FAST = (8, 16, 32, 64)


class DataSegmentMixed(DataSegment):
    """Every value decoded by the per-byte accumulation loops equals the w-bit unsigned integer stored at its place in the file
    (row stride = sum of the byte widths, column offset = sum of the byte widths before it, declared byte order), reduced to the low
    bits of the declared range; size guard as for the uniform path.  D is concrete per case (1, 2; a sample of 3), the width tuple
    ranges over all combinations of {8,...,64} that do not take the uniform fast path; N, offsets, bytes, byte order, ranges are
    symbolic.  BOUNDED in D (labelled so in the evidence)."""
    target = 'FlowCal.io.read_fcs_data_segment'
    property_ids = ('C01', 'C16')
    bounded_symbolic = True
    max_paths = 200
    assumptions = ('read_fcs_data_segment, generic integer decoder: number of parameters D in {1, 2, 3} (3: sampled width tuples); '
                   'A-IO: np.memmap semantics; A-INT: x << 8k == x * 256^k without wrap-around below the upcast width, '
                   'x & (2^k-1) == x mod 2^k; A-REAL: log2/ceil of numerals evaluated, of symbolic ranges uninterpreted',)

    def cases(self):
        out = []
        tuples = [(w,) for w in WIDTHS if w not in FAST]
        tuples += [t for t in itertools.product(WIDTHS, repeat=2) if not (t[0] == t[1] and t[0] in FAST)]
        tuples += [(24, 8, 40), (16, 32, 16), (64, 24, 8), (8, 8, 16), (48, 56, 32), (32, 32, 24)]
        for t in tuples:
            for rng in ('none', 'given'):
                if rng == 'given' and len(t) == 2 and (t[0] + t[1]) % 3:
                    continue        # ranges: every third pair (the mask loop is the same code for every tuple)
                out.append({'label': 'I-%s-ranges=%s' % ('x'.join(str(w) for w in t), rng), 'datatype': 'I', 'w': t, 'ranges': rng})
        return out

    def setup(self, I, case):
        c = I.ctx
        buf = make_file(I, 'f')
        fm = buf.payload
        t = case['w']
        D = len(t)
        begin, end, N = c.fresh_int('begin'), c.fresh_int('end'), c.fresh_int('N')
        c.assume(z3.And(begin >= 0, end >= 0, N >= 0, fm.size >= 58))
        big = c.fresh_bool('big_endian')
        aux = {'fm': fm, 'begin': begin, 'end': end, 'N': N, 'D': z3.IntVal(D), 'big': big}
        fm.facts(I)
        ranges = None
        if case['ranges'] == 'given':
            rf = c.fresh_fn('prange', Z, R)
            aux['rf'] = rf
            k = z3.Int('pre_k')
            c.assume(z3.ForAll([k], rf(k) >= 1, patterns=[rf(k)]))
            ranges = stamp(Seq('list', [SV(rf(z3.IntVal(j)), 'real') for j in range(D)]))
        kw = {'buf': buf, 'begin': SV(begin, 'int'), 'end': SV(end, 'int'), 'datatype': 'I', 'num_events': SV(N, 'int'),
              'param_bit_widths': stamp(Seq('list', list(t))), 'big_endian': SV(big, 'bool'), 'param_ranges': ranges}
        return [], kw, aux

    def loop_specs(self):
        return {}

    def expected_outcomes(self, case):
        return ['return', 'raise:ValueError']

    def small_hints(self, case, aux):
        return [z3.And(aux['N'] <= 2, aux['begin'] <= 64, aux['end'] <= 200)]

    def witness(self, model, case, aux):
        N, begin, end = [mval(model, aux[k]) for k in ('N', 'begin', 'end')]
        size = mval(model, aux['fm'].size)
        t = case['w']
        if not all(isinstance(v, int) for v in (N, begin, end, size)) or size > 4096:
            return {'data': None}
        return {'datatype': 'I', 'N': N, 'D': len(t), 'begin': begin, 'end': end, 'big': bool(mval(model, aux['big'])), 'widths': list(t),
                'ranges': None if 'rf' not in aux else [mval(model, aux['rf'](z3.IntVal(i))) for i in range(len(t))],
                'bytes': [mval(model, aux['fm'].byte(z3.IntVal(p))) % 256 for p in range(size)], 'case': case['label']}

    def check(self, I, case, aux, out):
        P = I.ctx.prove
        fm, begin, end, N, big = aux['fm'], aux['begin'], aux['end'], aux['N'], aux['big']
        t = case['w']
        D = len(t)
        Bs = [w // 8 for w in t]
        S = sum(Bs)
        ext = end + 1 - begin
        size_ok = z3.Or(N * S == ext, N * S == ext - 1)
        fits = begin + N * S <= fm.size
        if out.kind == 'raise':
            P('refusal-is-a-ValueError', out.raised('ValueError'))
            P('refused-only-when-sizes-do-not-match-or-bytes-are-missing', z3.Not(z3.And(size_ok, fits)))
            return
        P('returns-only-when-DATA-size-matches(last-byte-or-one-past)', size_ok)
        P('returns-only-when-the-bytes-exist', fits)
        res = out.value
        ok = isinstance(res, NDArr) and res.ndim == 2
        P('result-is-a-matrix', ok)
        if not ok:
            return
        P('one-row-per-event-one-column-per-parameter', z3.And(I.np.dim_z(res.shape[0]) == N, I.np.dim_z(res.shape[1]) == D))
        P('unsigned-integer-result-wide-enough-for-the-widest-parameter', res.dtype == 'uint' and res.bits is not None and res.bits >= max(t))
        i0 = I.ctx.fresh_int('ev')
        inr = z3.And(0 <= i0, i0 < N)
        byte = fm.byte
        off = 0
        if case['ranges'] == 'given':
            I.pow2_axioms()
            I.np.ceil_axioms()
        for j in range(D):
            B = Bs[j]

            def at(kk, off=off):
                return byte(begin + i0 * S + off + kk)
            be = z3.Sum([at(kk) * (256 ** (B - 1 - kk)) for kk in range(B)]) if B > 1 else at(0)
            le = z3.Sum([at(kk) * (256 ** kk) for kk in range(B)]) if B > 1 else at(0)
            decoded = z3.If(big, be, le)
            if case['ranges'] == 'given':
                decoded = decoded % M.pow2(M.fceil(M.flog2(aux['rf'](z3.IntVal(j)))))
            P('parameter-%d(%d bits):every-value-equals-the-value-encoded-in-the-file(row stride, column offset, byte order, low bits of the range)' % (j, t[j]),
              z3.Implies(inr, res.fn(i0, z3.IntVal(j)) == decoded), assume_after=False)
            off += B


CONTRACTS = [DataSegmentMixed()]
