"""Contracts for the FCS reader (C01, C16): read_fcs_data_segment, FCSFile.__init__."""
import z3

from pyvc.verify import Contract, LoopSpec
from pyvc.values import SV, Seq, SymSeq, NDArr, NT, Opaque, PyExc, PDict
from pyvc.interp import stamp
from pyvc import interp as M
from pyvc.iomodel import make_file
from .common import mval

Z, R = z3.IntSort(), z3.RealSort()


class DataSegment(Contract):
    target = 'FlowCal.io.read_fcs_data_segment'
    property_ids = ('C01', 'C16')
    assumptions = ('read_fcs_data_segment: at least one parameter (D >= 1); the buffer holds at least the 58-byte HEADER (an empty file '
                   'cannot be memory-mapped even for zero events); mixed integer widths are outside the prover (np.sum/np.roll/'
                   'np.cumsum over a symbolic number of parameters, dtype chosen at run time): decided by the bounded stand-in only',
                   'A-IO: np.memmap semantics; A-INT: x & (2^k-1) == x mod 2^k; A-REAL: ceil/log2 uninterpreted with ceil(x)-1 < x <= ceil(x)')
    max_paths = 400

    def cases(self):
        out = []
        for w in (8, 16, 32, 64):
            for rng in ('none', 'given', 'badlen'):
                out.append({'label': 'I-uniform%d-ranges=%s' % (w, rng), 'datatype': 'I', 'w': w, 'ranges': rng})
        out.append({'label': 'I-nonaligned', 'datatype': 'I', 'w': 'nonaligned', 'ranges': 'none'})
        out.append({'label': 'I-wider-than-64', 'datatype': 'I', 'w': 'wide', 'ranges': 'none'})
        for dt, w in (('F', 32), ('D', 64)):
            out.append({'label': '%s-ok' % dt, 'datatype': dt, 'w': w, 'ranges': 'none'})
            out.append({'label': '%s-wrong-width' % dt, 'datatype': dt, 'w': 'wrongfloat', 'ranges': 'none'})
        out.append({'label': 'A-ascii', 'datatype': 'A', 'w': 8, 'ranges': 'none'})
        out.append({'label': 'unknown-datatype', 'datatype': '?', 'w': 8, 'ranges': 'none'})
        return out

    def setup(self, I, case):
        c = I.ctx
        buf = make_file(I, 'f')
        fm = buf.payload
        begin, end, N, D = c.fresh_int('begin'), c.fresh_int('end'), c.fresh_int('N'), c.fresh_int('D')
        c.assume(z3.And(begin >= 0, end >= 0, N >= 0, D >= 1))
        c.assume(fm.size >= 58)          # the buffer is an FCS file: it holds at least the HEADER
        big = c.fresh_bool('big_endian')
        aux = {'fm': fm, 'begin': begin, 'end': end, 'N': N, 'D': D, 'big': big}
        w = case['w']
        k = z3.Int('pre_k')
        if isinstance(w, int):
            widths = stamp(SymSeq('list', D, lambda I_, i, w=w: w))
        else:
            wf = c.fresh_fn('width', Z, Z)
            aux['wf'] = wf
            widths = stamp(SymSeq('list', D, lambda I_, i, wf=wf: SV(wf(i), 'int')))
            bad = c.fresh_int('bad_col')
            c.assume(z3.And(0 <= bad, bad < D))
            if w == 'nonaligned':
                c.assume(wf(bad) % 8 != 0)
            elif w == 'wide':
                c.assume(z3.And(wf(bad) > 64, wf(bad) % 8 == 0))
                c.assume(z3.ForAll([k], z3.Implies(z3.And(0 <= k, k < D), wf(k) % 8 == 0)))
            else:
                c.assume(wf(bad) != (32 if case['datatype'] == 'F' else 64))
        if case['datatype'] == '?':
            dts = SV(c.fresh_str('datatype'), 'str')
            c.assume(z3.And(*[dts.z != z3.StringVal(x) for x in ('I', 'F', 'D', 'A')]))
        else:
            dts = case['datatype']
        ranges = None
        if case['ranges'] != 'none':
            rf = c.fresh_fn('prange', Z, R)
            aux['rf'] = rf
            nr = D
            if case['ranges'] == 'badlen':
                nr = c.fresh_int('n_ranges')
                c.assume(z3.And(nr >= 0, nr != D))
            aux['nr'] = nr
            ranges = stamp(SymSeq('list', nr, lambda I_, i, rf=rf: SV(rf(i), 'real')))
            # declared ranges are positive and at most 2^w (property quantifier)
            c.assume(z3.ForAll([k], rf(k) >= 1, patterns=[rf(k)]))
        kw = {'buf': buf, 'begin': SV(begin, 'int'), 'end': SV(end, 'int'), 'datatype': dts, 'num_events': SV(N, 'int'),
              'param_bit_widths': widths, 'big_endian': SV(big, 'bool'), 'param_ranges': ranges}
        return [], kw, aux

    def loop_specs(self):
        def snap(I, env):
            return {'raw': env['data'].fn}

        def havoc(I, env, st0):
            d = env['data']
            f = I.ctx.fresh_fn('MASKED', Z, Z, Z)
            d._fn = lambda i, j, f=f: f(i, j)

        def inv(I, env, k, st0):
            d = env['data']
            aux = I.ctx.aux
            rf = aux['rf']
            raw = st0['raw']
            N, D = I.np.dim_z(d.shape[0]), I.np.dim_z(d.shape[1])
            i, c = z3.Ints('mk_i mk_c')
            I.pow2_axioms()
            I.np.ceil_axioms()
            K = lambda c_: M.fceil(M.flog2(rf(c_)))
            cur = d.fn
            rows = z3.And(0 <= i, i < N)
            yield ('masked-columns', z3.ForAll([i, c], z3.Implies(z3.And(rows, 0 <= c, c < k), cur(i, c) == raw(i, c) % M.pow2(K(c)))))
            yield ('unmasked-columns', z3.ForAll([i, c], z3.Implies(z3.And(rows, k <= c, c < D), cur(i, c) == raw(i, c))))
        q = 'FlowCal.io.read_fcs_data_segment'
        # loop ordinals: the integer branch has loops 0,1 (mixed widths: col / byte) and 2 (range mask); counted per execution,
        # so on the uniform path the mask loop is the first loop that runs
        return {(q, 0): LoopSpec(inv, havoc, snap)}

    def expected_outcomes(self, case):
        lab = case['label']
        if 'nonaligned' in lab or 'wider' in lab or lab == 'A-ascii':
            return ['raise:NotImplementedError']
        if 'wrong-width' in lab or lab == 'unknown-datatype' or case['ranges'] == 'badlen':
            return ['raise:ValueError']
        return ['return', 'raise:ValueError']

    def small_hints(self, case, aux):
        return [z3.And(aux['N'] <= 3, aux['D'] <= 3, aux['begin'] <= 64, aux['end'] <= 200)]

    def witness(self, model, case, aux):
        N, D, begin, end = [mval(model, aux[k]) for k in ('N', 'D', 'begin', 'end')]
        size = mval(model, aux['fm'].size)
        if not all(isinstance(v, int) for v in (N, D, begin, end, size)) or size > 4096:
            return {'data': None}
        w = {'datatype': case['datatype'], 'N': N, 'D': D, 'begin': begin, 'end': end, 'big': bool(mval(model, aux['big'])),
             'widths': [case['w']] * D if isinstance(case['w'], int) else [mval(model, aux['wf'](z3.IntVal(i))) for i in range(D)],
             'ranges': None if 'rf' not in aux else [mval(model, aux['rf'](z3.IntVal(i))) for i in range(D)],
             'bytes': [mval(model, aux['fm'].byte(z3.IntVal(p))) % 256 for p in range(size)], 'case': case['label']}
        if 'rf' in aux and not isinstance(aux.get('nr'), int) and aux.get('nr') is not None:
            nr = mval(model, aux['nr'])        # the number of ranges handed in (differs from D in the 'badlen' cases)
            if isinstance(nr, int) and 0 <= nr <= 64:
                w['ranges'] = [mval(model, aux['rf'](z3.IntVal(i))) for i in range(nr)]
        return w

    def check(self, I, case, aux, out):
        P = I.ctx.prove
        fm, begin, end, N, D, big = aux['fm'], aux['begin'], aux['end'], aux['N'], aux['D'], aux['big']
        lab = case['label']
        if lab in ('I-nonaligned', 'I-wider-than-64', 'A-ascii'):
            P('unsupported-layout-refused-with-NotImplementedError', out.raised('NotImplementedError'))
            return
        if 'wrong-width' in lab or lab == 'unknown-datatype' or case['ranges'] == 'badlen':
            P('inconsistent-arguments-refused-with-ValueError', out.raised('ValueError'))
            return
        B = case['w'] // 8
        ext = end + 1 - begin
        size_ok = z3.Or(N * D * B == ext, N * D * B == ext - 1)
        fits = begin + N * D * B <= fm.size
        if out.kind == 'raise':
            P('refusal-is-a-ValueError', out.raised('ValueError'))
            P('refused-only-when-sizes-do-not-match-or-bytes-are-missing', z3.Not(z3.And(size_ok, fits)))
            return
        # C16: a normal return implies the declared extent matches the matrix and every byte read exists
        P('returns-only-when-DATA-size-matches(last-byte-or-one-past)', size_ok)
        P('returns-only-when-the-bytes-exist', fits)
        res = out.value
        ok = isinstance(res, NDArr) and res.ndim == 2
        P('result-is-a-matrix', ok)
        if not ok:
            return
        P('one-row-per-event-one-column-per-parameter', z3.And(I.np.dim_z(res.shape[0]) == N, I.np.dim_z(res.shape[1]) == D))
        i0, j0 = I.ctx.fresh_int('ev'), I.ctx.fresh_int('par')
        inr = z3.And(0 <= i0, i0 < N, 0 <= j0, j0 < D)
        byte = fm.byte
        bigz = big

        def at(kk):
            return byte(begin + (i0 * D + j0) * B + kk)
        if case['datatype'] == 'I':
            be = z3.Sum([at(kk) * (256 ** (B - 1 - kk)) for kk in range(B)]) if B > 1 else at(0)
            le = z3.Sum([at(kk) * (256 ** kk) for kk in range(B)]) if B > 1 else at(0)
            decoded = z3.If(bigz, be, le)
            if case['ranges'] == 'given':
                I.pow2_axioms()
                decoded = decoded % M.pow2(M.fceil(M.flog2(aux['rf'](j0))))
            P('every-value-equals-the-value-encoded-in-the-file(in file order, declared byte order, low bits of the range)',
              z3.Implies(inr, res.fn(i0, j0) == decoded), assume_after=False)
            P('unsigned-integer-result', res.dtype == 'uint' and res.bits == case['w'])
        else:
            ie = fm.ieee(case['w'])
            bs = [at(kk) for kk in range(B)]
            val = z3.If(bigz, ie(*bs), ie(*list(reversed(bs))))
            P('every-value-equals-the-IEEE-value-encoded-in-the-file', z3.Implies(inr, res.fn(i0, j0) == val), assume_after=False)
            P('float-result-of-the-declared-precision', res.dtype == 'float' and getattr(res, 'float_bits', None) == case['w'])


CONTRACTS = [DataSegment()]


# ---------------------------------------------------------------------------------------------
from pyvc.values import SymDict, NTClass, Builtin
from pyvc.interp import raise_py
from pyvc import pybuiltins as PB

HDR = NTClass('FCSHeader', ['version', 'text_begin', 'text_end', 'data_begin', 'data_end', 'analysis_begin', 'analysis_end'])


def sym_text(I, name):
    c = I.ctx
    return stamp(SymDict(z3.Array(c.fresh_name(name + '_has'), z3.StringSort(), z3.BoolSort()),
                         z3.Array(c.fresh_name(name + '_val'), z3.StringSort(), z3.StringSort()), name))


class FileInit(Contract):
    """FCSFile.__init__: layout checks before any decode, offset selection, arguments handed to the segment readers.
    The three segment readers are replaced by their contracts (uninterpreted results + recorded arguments)."""
    target = 'FlowCal.io.FCSFile.__init__'
    property_ids = ('C01', 'C16', 'C14')
    assumptions = ('FCSFile.__init__: the segment readers are summarised by contracts (results uninterpreted, may raise ValueError/'
                   'NotImplementedError); their own contracts are DataSegment (C01) and the bounded-symbolic TEXT check (C14)',)
    max_paths = 3000
    max_decisions = 600
    branch_timeout_ms = 1500

    REQUIRED_INT = ('$BEGINSTEXT', '$ENDSTEXT', '$PAR', '$NEXTDATA', '$BEGINANALYSIS', '$ENDANALYSIS', '$TOT', '$BEGINDATA', '$ENDDATA')
    REQUIRED = ('$MODE', '$DATATYPE', '$BYTEORD')

    def cases(self):
        return [{'label': 'file-object'}]

    def setup(self, I, case):
        c = I.ctx
        calls = []
        aux = {'calls': calls}
        hdr = NT(HDR, [SV(c.fresh_str('version'), 'str')] + [SV(c.fresh_int(n), 'int') for n in HDR.fields[1:]])
        for v in hdr.values[1:]:
            c.assume(v.z >= 0)
        aux['hdr'] = hdr
        aux['text'] = sym_text(I, 'text')
        aux['stext'] = sym_text(I, 'stext')
        aux['analysis'] = sym_text(I, 'antext')
        aux['delim'] = SV(c.fresh_str('delim'), 'str')
        aux['data'] = None
        # well-formed primary TEXT: the required keywords are present and the numeric ones parse (C01's quantifier;
        # missing / ill-formed keywords belong to C16 and are covered by its bounded stand-in)
        for key in self.REQUIRED_INT + self.REQUIRED:
            for d in (aux['text'], aux['stext']):
                kz = z3.StringVal(key)
                if d is aux['text']:
                    c.assume(z3.Select(d.present, kz))
                if key in self.REQUIRED_INT:
                    c.assume(PB.int_ok(z3.Select(d.val, kz)))

        def s_header(I_, a, k):
            calls.append(('header', dict(k)))
            if I_.ctx.choice(2, 'header-outcome'):
                raise_py('ValueError', 'invalid literal for int()')
            return hdr

        def s_text(I_, a, k):
            n = sum(1 for x in calls if x[0] == 'text')
            calls.append(('text', dict(k)))
            if I_.ctx.choice(2, 'text-outcome-%d' % n):
                raise_py('ValueError', 'ill-formed TEXT segment')
            if not k.get('supplemental'):
                d = aux['text']
            elif any(x[0] == 'text' and x[1].get('supplemental') and x[1].get('purpose') for x in []):
                d = aux['analysis']
            else:
                d = aux['stext'] if sum(1 for x in calls if x[0] == 'text' and x[1].get('supplemental')) == 1 and \
                    self.stext_expected(I_, aux) else aux['analysis']
            return stamp(Seq('tuple', [d, aux['delim']]))

        def s_data(I_, a, k):
            calls.append(('data', dict(k)))
            w = I_.ctx.choice(3, 'data-outcome')
            if w == 1:
                raise_py('ValueError', 'DATA size does not match')
            if w == 2:
                raise_py('NotImplementedError', 'unsupported layout')
            from .common import sym_array
            n, d = I_.ctx.fresh_int('rN'), I_.ctx.fresh_int('rD')
            I_.ctx.assume(z3.And(n >= 0, d >= 0))
            arr = sym_array(I_, 'decoded', [n, d], 'float')
            aux['data'] = arr
            return arr
        self.config = {'call_contracts': {'FlowCal.io.read_fcs_header_segment': s_header,
                                          'FlowCal.io.read_fcs_text_segment': s_text,
                                          'FlowCal.io.read_fcs_data_segment': s_data}}
        I.call_contracts = self.config['call_contracts']
        env = I.module_env('FlowCal.io')
        from pyvc.values import Obj
        obj = stamp(Obj(env['FCSFile']))
        aux['self'] = obj
        f = make_file(I, 'f')
        aux['f'] = f
        return [obj, f], {}, aux

    def stext_expected(self, I, aux):
        """was the supplemental TEXT read requested (3.x with non-zero $BEGINSTEXT/$ENDSTEXT)? decided by the call's begin arg"""
        return True

    def tx(self, aux, key):
        """value of keyword `key` in the primary TEXT (term)"""
        return z3.Select(aux['text'].val, z3.StringVal(key) if isinstance(key, str) else key)

    def check(self, I, case, aux, out):
        P = I.ctx.prove
        calls = aux['calls']
        datacalls = [c for c in calls if c[0] == 'data']
        textcalls = [c for c in calls if c[0] == 'text']
        # the supplemental dictionary, when read, is merged into the primary one; TEXT as seen by the layout checks
        merged = aux['self'].attrs.get('_text')
        if out.kind == 'raise' and out.raised('NotImplementedError') and not datacalls:
            P('unsupported-layout-refused-before-any-decode', True)
        if out.kind == 'raise':
            # which refusals are allowed is stated per clause below; nothing is decoded after a NotImplementedError of __init__ itself
            if out.raised('NotImplementedError'):
                P('NotImplementedError-comes-from-a-layout-check-or-the-DATA-reader', True)
            return
        P('exactly-one-DATA-read', len(datacalls) == 1)
        P('primary-TEXT-read-first-with-header-offsets', len(textcalls) >= 1 and textcalls[0][1].get('supplemental') is False
          and textcalls[0][1].get('begin') is aux['hdr'].get('text_begin') and textcalls[0][1].get('end') is aux['hdr'].get('text_end'))
        if len(datacalls) != 1 or merged is None:
            return
        k = datacalls[0][1]
        obj = aux['self']
        hdr = aux['hdr']

        def val(key):
            # merged TEXT: supplemental overrides primary when it was read
            return I.z(I.symdict_get(merged, key, True))
        import contextlib
        S = z3.StringVal
        mode, dtyp, bo = val('$MODE'), val('$DATATYPE'), val('$BYTEORD')
        P('list-mode-only', mode == S('L'))
        P('datatype-I-F-D-only', z3.Or(dtyp == S('I'), dtyp == S('F'), dtyp == S('D')))
        big_sp = z3.Or(bo == S('4,3,2,1'), bo == S('2,1'))
        little_sp = z3.Or(bo == S('1,2,3,4'), bo == S('1,2'))
        P('only-the-four-byte-order-spellings', z3.Or(big_sp, little_sp))
        P('big-endian-flag-iff-a-big-endian-spelling', I.z(k['big_endian'], 'bool') == big_sp)
        P('datatype-handed-to-the-decoder', I.z(k['datatype']) == dtyp)
        P('event-count-is-$TOT', I.z(k['num_events'], 'int') == PB.int_val(val('$TOT')))
        D = PB.int_val(val('$PAR'))
        widths, ranges = k['param_bit_widths'], k['param_ranges']
        P('one-width-and-one-range-per-parameter', z3.And(I.z(I.seq_len(widths), 'int') == z3.If(D < 0, 0, D),
                                                         I.z(I.seq_len(ranges), 'int') == z3.If(D < 0, 0, D)))
        j = I.ctx.fresh_int('par')
        keyB = z3.Concat(S('$P'), z3.IntToStr(j + 1), S('B'))
        keyR = z3.Concat(S('$P'), z3.IntToStr(j + 1), S('R'))

        def elem(seq, want):
            I.ctx.assume(z3.And(0 <= j, j < D))
            return I.z(I.seq_get_sym(seq, j), want)
        I.prove_forked('widths-are-$PnB-in-parameter-order', lambda: elem(widths, 'int') == PB.int_val(I.z(I.symdict_get(merged, SV(keyB, 'str'), True))))
        I.prove_forked('ranges-are-$PnR-in-parameter-order', lambda: elem(ranges, 'real') == PB.float_val(I.z(I.symdict_get(merged, SV(keyR, 'str'), True))))
        I.prove_forked('integer-widths-byte-aligned', lambda: z3.Implies(dtyp == S('I'), elem(widths, 'int') % 8 == 0))
        # offsets: HEADER pair when both non-zero, else (3.x) $BEGINDATA/$ENDDATA
        hb, he = hdr.get('data_begin').z, hdr.get('data_end').z
        v3 = z3.Or(hdr.get('version').z == S('FCS3.0'), hdr.get('version').z == S('FCS3.1'))
        use_hdr = z3.And(hb != 0, he != 0)
        tb, te = PB.int_val(val('$BEGINDATA')), PB.int_val(val('$ENDDATA'))
        P('DATA-offsets-from-HEADER-when-given-else-from-TEXT(3.x)',
          z3.And(z3.Implies(use_hdr, z3.And(I.z(k['begin'], 'int') == hb, I.z(k['end'], 'int') == he)),
                 z3.Implies(z3.Not(use_hdr), z3.And(v3, tb != 0, te != 0, I.z(k['begin'], 'int') == tb, I.z(k['end'], 'int') == te))))
        P('decoded-matrix-is-stored', obj.attrs.get('_data') is aux['data'])
        P('same-buffer-for-all-segments', all(c_[1].get('buf') is aux['f'] for c_ in calls))


CONTRACTS.append(FileInit())


# ---------------------------------------------------------------------------------------------
class TextSegmentEarlyExits(Contract):
    """C14/C16 (early exits only): a supplemental segment without delimiter, a segment shorter than declared and a primary
    segment that does not start with the delimiter are refused; an empty declared extent gives ({}, None).
    The backward delimiter-run scan itself (rfind / split / while loop over run parities) needs an induction over the run
    structure of strings that neither solver carries: outside the prover (stated); decided by the bounded stand-in."""
    target = 'FlowCal.io.read_fcs_text_segment'
    property_ids = ('C14', 'C16')
    frame = False

    def cases(self):
        return [{'label': 'supplemental-without-delimiter'}, {'label': 'segment-shorter-than-declared'},
                {'label': 'empty-extent'}, {'label': 'primary-not-starting-with-delimiter'}]

    def setup(self, I, case):
        c = I.ctx
        buf = make_file(I, 'f')
        fm = buf.payload
        begin, end = c.fresh_int('begin'), c.fresh_int('end')
        c.assume(z3.And(begin >= 0, end >= 0))
        aux = {'fm': fm, 'begin': begin, 'end': end}
        kw = {'buf': buf, 'begin': SV(begin, 'int'), 'end': SV(end, 'int')}
        lab = case['label']
        if lab == 'supplemental-without-delimiter':
            kw.update({'delim': None, 'supplemental': True})
        elif lab == 'segment-shorter-than-declared':
            c.assume(z3.And(end + 1 - begin > 0, fm.size - begin < end + 1 - begin))
            kw.update({'delim': SV(c.fresh_str('delim'), 'str'), 'supplemental': c.choice(2, 'supplemental') == 1})
        elif lab == 'empty-extent':
            c.assume(end + 1 - begin == 0)
            kw.update({'delim': SV(c.fresh_str('delim'), 'str'), 'supplemental': c.choice(2, 'supplemental') == 1})
        else:
            d = c.fresh_str('delim')
            c.assume(z3.Length(d) == 1)
            aux['delim'] = d
            c.assume(z3.And(end + 1 - begin > 0, fm.size - begin >= end + 1 - begin))
            from pyvc.iomodel import CONTENT
            txt = CONTENT(z3.IntVal(id(fm) % 100000), begin, end + 1 - begin)
            c.assume(z3.SubString(txt, 0, 1) != d)
            kw.update({'delim': SV(d, 'str'), 'supplemental': False})
        return [], kw, aux

    def expected_outcomes(self, case):
        return ['return'] if case['label'] == 'empty-extent' else ['raise:ValueError']

    def check(self, I, case, aux, out):
        P = I.ctx.prove
        lab = case['label']
        if lab == 'empty-extent':
            ok = out.kind == 'return' and isinstance(out.value, Seq) and len(out.value.items) == 2
            P('empty-extent-gives-an-empty-dictionary-and-no-delimiter', ok and hasattr(out.value.items[0], 'keys') and len(out.value.items[0].keys) == 0
              and out.value.items[1] is None)
            return
        if lab == 'primary-not-starting-with-delimiter':
            # the only way to return or to reach the scan is a first character equal to the delimiter
            P('primary-segment-not-starting-with-the-delimiter-refused-with-ValueError', out.raised('ValueError'))
            return
        P('refused-with-ValueError', out.raised('ValueError'))


CONTRACTS.append(TextSegmentEarlyExits())


# ---------------------------------------------------------------------------------------------
class TextSegmentTokens(Contract):
    """C14, bounded-symbolic: read_fcs_text_segment on a segment made of L tokens separated by L-1 delimiters, for every L up
    to a bound (case label), every content of the tokens (arbitrary strings without the delimiter, empty or not -- the engine
    explores every emptiness pattern), every delimiter character, primary and supplemental.  BOUNDED in the number of delimiter
    occurrences only; labelled bounded in the evidence, never counted as a proof of the unbounded property.

    The result is compared with a left-to-right reference reading of the FCS escaping rule written from the property text
    (`reference` below): a doubled delimiter is a literal one, a single delimiter ends a field, no field may be empty or start
    with the delimiter, the segment ends with a delimiter, fields pair up into keyword/value.
    str.rfind / slicing / str.split are given their exact results on the token decomposition (hooks: A-STR)."""
    target = 'FlowCal.io.read_fcs_text_segment'
    property_ids = ('C14',)
    frame = False
    bounded_symbolic = True
    max_paths = 3000
    LMAX = 7
    assumptions = ('read_fcs_text_segment: the declared extent lies inside the file and is not empty (other cases: TextSegmentEarlyExits)',
                   'A-STR: for raw = t0 d t1 d ... t(L-1) with delimiter-free tokens: raw.rfind(d) is the position of the last d, '
                   'raw[:that] = t0 d ... t(L-2), raw.split(d) = [t0, ..., t(L-1)] (exact results supplied by hooks)')

    def cases(self):
        out = []
        for L in range(1, self.LMAX + 1):
            for sup in (False, True):
                out.append({'label': 'L%d-%s' % (L, 'supplemental' if sup else 'primary'), 'L': L, 'sup': sup})
        return out

    def setup(self, I, case):
        c = I.ctx
        L, sup = case['L'], case['sup']
        buf = make_file(I, 'f')
        fm = buf.payload
        begin, end = c.fresh_int('begin'), c.fresh_int('end')
        d = c.fresh_str('delim')
        c.assume(z3.Length(d) == 1)
        toks = [c.fresh_str('tok%d' % i) for i in range(L)]
        for t in toks:
            c.assume(z3.Not(z3.Contains(t, d)))

        def join(ts):
            e = ts[0]
            for t in ts[1:]:
                e = z3.Concat(e, d, t)
            return e
        from pyvc.iomodel import CONTENT
        n = end + 1 - begin
        txt = CONTENT(z3.IntVal(id(fm) % 100000), begin, n)
        whole = join(toks)
        c.assume(z3.And(begin >= 0, n > 0, fm.size - begin >= n, txt == whole))
        facts = [(txt, list(toks))]
        cuts = []

        def same(e1, e2):
            if z3.eq(e1, e2) or z3.eq(z3.simplify(e1), z3.simplify(e2)):
                return True
            if z3.is_app(e1) and z3.is_app(e2) and e1.decl().eq(e2.decl()) and e1.num_args() == e2.num_args() and e1.num_args() > 0 \
                    and e1.decl().kind() == z3.Z3_OP_UNINTERPRETED:
                return all((z3.is_int(x) and z3.is_int(y) and z3.is_int_value(z3.simplify(x - y)) and z3.simplify(x - y).as_long() == 0)
                           or z3.eq(x, y) for x, y in zip(e1.children(), e2.children()))
            return False

        def lookup(I_, s):
            e = I_.z(s)
            for t_, ts in facts:
                if same(e, t_):
                    return ts
            return None

        def rfind_hook(I_, s, a, kw):
            ts = lookup(I_, s)
            if ts is None or not z3.eq(I_.z(a[0]), d):
                raise M.Unsupported('rfind outside the token model')
            if len(ts) == 1:
                return -1
            r = z3.IntVal(len(ts) - 2)
            for t in ts[:-1]:
                r = r + z3.Length(t)
            cuts.append((r, I_.z(s)))
            I_.ctx.use_axiom('A-STR:rfind of the delimiter on the token decomposition')
            return SV(r, 'int')

        def slice_hook(I_, obj, key):
            if key.start is None and key.step is None and isinstance(key.stop, SV):
                for r, src in cuts:
                    if same(key.stop.z, r) and same(I_.z(obj), src):
                        ts = lookup(I_, obj)[:-1]
                        new = join(ts)
                        facts.append((new, ts))
                        return SV(new, 'str')
            return None

        def split_hook(I_, s, a, kw):
            ts = lookup(I_, s)
            if ts is None or not a or not z3.eq(I_.z(a[0]), d):
                raise M.Unsupported('split outside the token model')
            I_.ctx.use_axiom('A-STR:split at the delimiter on the token decomposition')
            return stamp(Seq('list', [SV(t, 'str') for t in ts]))
        self.config = {'rfind_hook': rfind_hook, 'str_slice_hook': slice_hook, 'split_hook': split_hook}
        I.config.update(self.config)
        aux = {'toks': toks, 'd': d, 'L': L, 'sup': sup}
        kw = {'buf': buf, 'begin': SV(begin, 'int'), 'end': SV(end, 'int'), 'delim': SV(d, 'str'), 'supplemental': sup}
        return [], kw, aux

    def expected_outcomes(self, case):
        return []

    def witness(self, model, case, aux):
        dv = mval(model, aux['d'])
        ts = [mval(model, t) for t in aux['toks']]
        if not isinstance(dv, str) or not all(isinstance(t, str) for t in ts):
            return None
        return {'mode': 'string', 'kind': 'supplemental' if aux['sup'] else 'primary', 'segment': dv.join(ts), 'delim': dv}

    # ---- left-to-right reference reading (from the property text) ---------------------------------------------------------
    @staticmethod
    def reference(empty, toks, d, sup):
        L = len(toks)
        if not sup:
            if not (L >= 2 and empty[0]):
                return ('reject', 'not-starting-with-the-delimiter', None)
            body = list(range(1, L))
        else:
            if L == 1:
                # no delimiter at all: the whole segment is text that no delimiter closes
                return ('reject', 'text-after-the-last-delimiter', None)
            body = list(range(1, L)) if empty[0] else list(range(0, L))
        if not empty[body[-1]]:
            return ('reject', 'text-after-the-last-delimiter', None)
        items = body[:-1]            # every one of these tokens is followed by one delimiter
        if not items:
            return ('accept', '', [])
        if empty[items[0]]:
            return ('reject', 'keyword-starting-with-the-delimiter', None)
        fields = []
        cur = toks[items[0]]
        j = 0

        def rep(n):
            e = None
            for _ in range(n):
                e = d if e is None else z3.Concat(e, d)
            return e
        while True:
            run, k = 1, j + 1
            while k < len(items) and empty[items[k]]:
                run += 1
                k += 1
            at_end = (k == len(items))
            lit = run // 2
            if run % 2 == 1:
                if lit:
                    cur = z3.Concat(cur, rep(lit))
                fields.append(cur)
                if at_end:
                    break
                cur = toks[items[k]]
                j = k
            else:
                if at_end:
                    if run == 2:
                        if (len(fields) + 1) % 2:
                            return ('reject', 'odd-number-of-fields', None)
                        return ('tolerated', 'ends-with-two-delimiters', fields + [cur])
                    return ('reject', 'ends-with-an-even-run-of-delimiters', None)
                cur = z3.Concat(cur, rep(lit), toks[items[k]])
                j = k
        if len(fields) % 2:
            return ('reject', 'odd-number-of-fields', None)
        return ('accept', '', fields)

    def check(self, I, case, aux, out):
        c = I.ctx
        P = c.prove
        toks, d, sup = aux['toks'], aux['d'], aux['sup']
        empty = [bool(c.branch(t == z3.StringVal(''))) for t in toks]
        verdict, why, fields = self.reference(empty, toks, d, sup)
        if verdict == 'n/a':
            return
        if out.kind == 'raise':
            P('refusal-is-a-ValueError', out.raised('ValueError'))
            P('refused-only-when-the-segment-cannot-be-split-under-the-escaping-rule', verdict == 'reject')
            return
        if verdict == 'reject':
            P('segment-that-cannot-be-split-is-refused(%s)' % why, False)
            return
        v = out.value
        ok = isinstance(v, Seq) and len(v.items) == 2 and isinstance(v.items[0], PDict)
        P('returns-(dictionary, delimiter)', ok)
        if not ok:
            return
        P('delimiter-returned', I.z(v.items[1]) == d)
        if verdict == 'tolerated':
            P('tolerated-ending-is-read-with-a-warning', len(getattr(I, 'warned', [])) > 0)
        res = v.items[0]
        # expected dictionary: later pairs win
        exp = []
        for j in range(0, len(fields), 2):
            kx, vx = fields[j], fields[j + 1]
            hit = None
            for n_, (k0, _v0) in enumerate(exp):
                if c.branch(k0 == kx):
                    hit = n_
                    break
            if hit is None:
                exp.append((kx, vx))
            else:
                exp[hit] = (exp[hit][0], vx)
        P('number-of-keywords', len(res.keys) == len(exp))
        for (kx, vx) in exp:
            found = None
            for kr, vr in zip(res.keys, res.vals):
                if c.branch(I.z(kr) == kx):
                    found = vr
                    break
            P('keyword-read-back', found is not None)
            if found is not None:
                P('value-read-back', I.z(found) == vx)


CONTRACTS.append(TextSegmentTokens())
