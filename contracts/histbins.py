"""Contract for FCSData.hist_bins (C19)."""
import z3

from pyvc.verify import Contract
from pyvc.values import SV, Seq, SymSeq, NDArr, Opaque, Builtin, PDict
from pyvc.interp import stamp
from pyvc import interp as M
from pyvc import pybuiltins as PB
from .common import sym_fcs, sym_dims, mval, cell3
from . import io_specs
from .gate import sym_int_list, sym_str_list, size_hints

R, Z = z3.RealSort(), z3.IntSort()


class HistBins(Contract):
    target = 'FlowCal.io.FCSData.hist_bins'
    property_ids = ('C19', 'C13')
    assumptions = ('hist_bins: resolution >= 2, range upper limit > lower limit (and > 0 for log scale), nbins >= 1',
                   'C18 contract assumed for the logicle transform: M > 0 and transform_non_affine strictly increasing on all reals',
                   'A-REAL: linspace(a,b,n)[i] = a + i(b-a)/(n-1); exp10/log10 monotone inverse pair')
    max_paths = 600

    def cases(self):
        out = []
        for ch in ('none', 'int', 'str', 'intlist', 'strlist'):
            for nb in ('default', 'given'):
                for sc in ('linear', 'log', 'logicle', 'bogus'):
                    out.append({'label': 'ch=%s,nbins=%s,scale=%s' % (ch, nb, sc), 'ch': ch, 'nb': nb, 'sc': sc})
        out.append({'label': 'ch=intlist,nbins=list,scale=list-linear-log', 'ch': 'intlist', 'nb': 'list', 'sc': 'list'})
        return out

    def setup(self, I, case):
        c = I.ctx
        N, D = sym_dims(I, 'N', 'D')
        data = sym_fcs(I, 'data', N, D)
        m = data.meta
        k = z3.Int('pre_k')
        c.assume(z3.ForAll([k], z3.And(m.res(k) >= 2, m.hi(k) > m.lo(k)), patterns=[m.res(k)]))
        data.elem_facts = lambda i: z3.And(m.res(i) >= 2, m.hi(i) > m.lo(i), z3.Implies(z3.BoolVal(case['sc'] in ('log', 'list')), m.hi(i) > 0))
        if case['sc'] in ('log', 'list'):
            c.assume(z3.ForAll([k], m.hi(k) > 0, patterns=[m.hi(k)]))
        aux = {'N': N, 'D': D, 'data': data}
        f = case['ch']
        ch = None
        if f == 'int':
            aux['c'] = c.fresh_int('ch')
            ch = SV(aux['c'], 'int')
        elif f == 'str':
            aux['s'] = c.fresh_str('chname')
            ch = SV(aux['s'], 'str')
        elif f in ('intlist', 'strlist'):
            n = c.fresh_int('n_ch')
            c.assume(n >= 0)
            aux['n'] = n
            ch = sym_int_list(I, 'chs', n) if f == 'intlist' else sym_str_list(I, 'chnames', n)
            aux['chf'] = ch.ufn
        kw = {'channels': ch}
        nbf = c.fresh_fn('nbins', Z, Z)
        aux['nbf'] = nbf
        c.assume(z3.ForAll([k], nbf(k) >= 1, patterns=[nbf(k)]))
        if case['nb'] == 'given':
            c.assume(nbf(0) >= 1)
            kw['nbins'] = SV(nbf(0), 'int')
        elif case['nb'] == 'list':
            def nbe(I_, i):
                if not I_.ctx.quant_mode:
                    I_.ctx.assume(nbf(i) >= 1)
                return SV(nbf(i), 'int')
            kw['nbins'] = stamp(SymSeq('list', aux['n'], nbe))
        if case['sc'] == 'list':
            lin = c.fresh_fn('is_linear', Z, z3.BoolSort())
            aux['lin'] = lin
            kw['scale'] = stamp(SymSeq('list', aux['n'], lambda I_, i: 'linear' if I_.ctx.branch(lin(i)) else 'log'))
        else:
            kw['scale'] = {'bogus': 'loglog'}.get(case['sc'], case['sc'])
        # the logicle transform is summarised by its contract (C18): M > 0, strictly increasing f
        LM = c.fresh_fn('logicle_M', Z, R)
        LF = c.fresh_fn('logicle_f', Z, R, R)
        aux['LM'], aux['LF'] = LM, LF
        x, y = z3.Reals('lg_x lg_y')
        c.assume(z3.ForAll([k], LM(k) > 0, patterns=[LM(k)]))
        c.assume(z3.ForAll([k, x, y], z3.Implies(x < y, LF(k, x) < LF(k, y)), patterns=[z3.MultiPattern(LF(k, x), LF(k, y))]))

        def make_logicle(I_, a, kwargs):
            chan = I_.z(kwargs['channel'], 'int')
            cz = z3.If(chan < 0, chan + D, chan)
            if not I_.ctx.quant_mode:
                I_.ctx.assume(LM(cz) > 0)
            return Opaque('logicle', cz)

        def opaque_attr(I_, obj, name):
            if obj.tag == 'logicle':
                cz = obj.payload
                if name == 'M':
                    return SV(LM(cz), 'real')
                if name == 'transform_non_affine':
                    def tna(I2, a, kw2):
                        arr = I2.np.as_array(a[0])
                        f_ = arr.fn
                        return I2.np.new(arr.shape, 'float', lambda *idx: LF(cz, f_(*idx)))
                    return Builtin('logicle.transform_non_affine', tna)
            return PB.NOATTR
        self.config = {'call_contracts': io_specs.summaries(), 'opaque_attr': opaque_attr,
                       'module_overrides': {'FlowCal.plot._LogicleTransform': Builtin('_LogicleTransform', make_logicle)}}
        I.config.update(self.config)
        I.call_contracts = self.config['call_contracts']
        return [data], kw, aux

    def expected_outcomes(self, case):
        return ['raise:ValueError'] if case['sc'] == 'bogus' else ['return']

    def small_hints(self, case, aux):
        base = size_hints(aux, [aux[k] for k in ('c', 'n') if k in aux])
        m = aux['data'].meta
        k = z3.Int('hint_k')
        # interesting region for the log scale: positive lower limits below min(1, hi/1e5), several decades
        region = z3.ForAll([k], z3.And(m.lo(k) > 0, m.lo(k) < 1, m.lo(k) * 100000 < m.hi(k), m.res(k) <= 64, aux['nbf'](k) <= 6))
        region0 = z3.And(*[z3.And(m.lo(kk) > 0, m.lo(kk) < 1, m.lo(kk) * 100000 < m.hi(kk), m.res(kk) >= 256, m.res(kk) <= 4096, aux["nbf"](kk) <= 6) for kk in range(4)])
        return [z3.And(h, region0) for h in base] + base

    def witness(self, model, case, aux):
        from .common import data_witness
        w = data_witness(model, aux['data'], 'FCSData')
        if w.get('meta') is None:
            return {'data': None}
        names = [mval(model, aux['data'].meta.chan(z3.IntVal(i))) for i in range(len(w['meta']['channels']))]
        nm = lambda v: w['meta']['channels'][names.index(v)] if v in names else '__unknown__'
        f = case['ch']
        n = mval(model, aux['n']) if 'n' in aux else 1
        if isinstance(n, int) and n > 12:
            return {'data': None}
        ch = None if f == 'none' else mval(model, aux['c']) if f == 'int' else nm(mval(model, aux['s'])) if f == 'str' else \
            [(nm if f == 'strlist' else (lambda x: x))(mval(model, aux['chf'](z3.IntVal(k)))) for k in range(n)]
        nb = None if case['nb'] == 'default' else mval(model, aux['nbf'](z3.IntVal(0))) if case['nb'] == 'given' else \
            [mval(model, aux['nbf'](z3.IntVal(k))) for k in range(n)]
        sc = case['sc'] if case['sc'] != 'list' else ['linear' if mval(model, aux['lin'](z3.IntVal(k))) else 'log' for k in range(n)]
        w.update({'channels': ch, 'nbins': nb, 'scale': {'bogus': 'loglog'}.get(sc, sc) if isinstance(sc, str) else sc})
        return w

    def check(self, I, case, aux, out):
        P = I.ctx.prove
        I.real_axioms()
        N, D, data = aux['N'], aux['D'], aux['data']
        m = data.meta
        f = case['ch']
        k, ci = z3.Ints('hb_k hb_c')
        if f == 'int':
            valid = z3.And(-D <= aux['c'], aux['c'] < D)
        elif f == 'intlist':
            valid = z3.ForAll([k], z3.Implies(z3.And(0 <= k, k < aux['n']), z3.And(-D <= aux['chf'](k), aux['chf'](k) < D)))
        elif f == 'str':
            valid = z3.Exists([ci], z3.And(0 <= ci, ci < D, m.chan(ci) == aux['s']))
        elif f == 'strlist':
            valid = z3.ForAll([k], z3.Implies(z3.And(0 <= k, k < aux['n']), z3.Exists([ci], z3.And(0 <= ci, ci < D, m.chan(ci) == aux['chf'](k)))))
        else:
            valid = z3.BoolVal(True)
        nreq = D if f == 'none' else (1 if f in ('int', 'str') else aux['n'])
        nreqz = nreq if not isinstance(nreq, int) else z3.IntVal(nreq)
        if out.kind == 'raise':
            if case['sc'] == 'bogus':
                P('unknown-scale-or-invalid-channel-refused', z3.Or(z3.Not(valid), nreqz >= 1))
                P('refusal-class', out.raised('ValueError'))
            else:
                P('raises-only-for-an-invalid-channel-request', z3.Not(valid))
            return
        if case['sc'] == 'bogus':
            P('unknown-scale-returns-only-when-nothing-was-requested', nreqz == 0)
            return
        P('valid-request', valid)
        v = out.value
        # the stored ranges are not modified (C13 clause of C19)
        c0 = I.ctx.fresh_int('anycol')
        n0, l0, h0 = cell3(I, data.attrs['_range'], c0)
        P('sample-ranges-unmodified', z3.Implies(z3.And(0 <= c0, c0 < D), z3.And(z3.Not(n0), l0 == m.lo(c0), h0 == m.hi(c0))), assume_after=False)
        norm = lambda c_: z3.If(c_ < 0, c_ + D, c_)
        j = I.ctx.fresh_int('entry')
        if f in ('int', 'str'):
            ok = isinstance(v, NDArr) and v.ndim == 1
            P('single-channel-gives-a-bare-array', ok)
            if not ok:
                return
            arr = v
            jz = z3.IntVal(0)
            inr = z3.BoolVal(True)
            if f == 'int':
                col = norm(aux['c'])
            else:
                col = I.ctx.fresh_int('col_w')
                I.ctx.assume(z3.And(0 <= col, col < D, m.chan(col) == aux['s']))
        else:
            ok = isinstance(v, (Seq, SymSeq)) and v.kind == 'list'
            P('several-channels-give-a-list', ok)
            if not ok:
                return
            P('one-entry-per-requested-channel', I.z(I.seq_len(v), 'int') == nreqz)
            inr = z3.And(0 <= j, j < nreqz)
            I.ctx.assume(inr)
            arr = I.seq_get_sym(v, j)
            jz = j
            if not (isinstance(arr, NDArr) and arr.ndim == 1):
                P('entries-are-edge-arrays', False)
                return
            if f == 'none':
                col = j
            elif f == 'intlist':
                col = norm(aux['chf'](j))
            else:
                col = I.ctx.fresh_int('col_w')
                I.ctx.assume(z3.And(0 <= col, col < D, m.chan(col) == aux['chf'](j)))
        res, lo, hi = z3.ToReal(m.res(col)), m.lo(col), m.hi(col)
        nb = m.res(col) if case['nb'] == 'default' else (aux['nbf'](0) if case['nb'] == 'given' else aux['nbf'](jz))
        E = arr.fn
        nedges = I.np.dim_z(arr.shape[0])
        P('n-plus-one-edges', nedges == nb + 1)
        i = I.ctx.fresh_int('edge')
        ini = z3.And(0 <= i, i < nb)
        scale = case['sc']
        if scale == 'list':
            is_lin = aux['lin'](jz)
        P('edges-strictly-increasing', z3.Implies(ini, E(i) < E(i + 1)), assume_after=False)
        if scale == 'linear' or scale == 'list':
            guard = z3.BoolVal(True) if scale == 'linear' else is_lin
            delta = (hi - lo) / (res - 1)
            P('linear:edges-cover-the-whole-range', z3.Implies(guard, z3.And(E(z3.IntVal(0)) < lo, E(nb) > hi)), assume_after=False)
            if case['nb'] == 'default':
                P('linear:each-channel-value-is-the-centre-of-its-bin',
                  z3.Implies(z3.And(guard, ini), (E(i) + E(i + 1)) / 2 == lo + z3.ToReal(i) * delta), assume_after=False)
        if scale == 'log' or scale == 'list':
            guard = z3.BoolVal(True) if scale == 'log' else z3.Not(is_lin)
            P('log:edges-positive', z3.Implies(z3.And(guard, 0 <= i, i <= nb), E(i) > 0), assume_after=False)
            P('log:upper-limit-covered', z3.Implies(guard, E(nb) > hi), assume_after=False)
            P('log:lower-limit-covered-when-positive', z3.Implies(z3.And(guard, lo > 0), E(z3.IntVal(0)) < lo), assume_after=False)
        if scale == 'logicle':
            LM, LF = aux['LM'], aux['LF']
            delta = LM(col) / (res - 1)
            a_, b_ = -delta / 2, LM(col) + delta / 2
            P('logicle:edges-are-images-of-a-uniform-display-grid',
              z3.Implies(z3.And(0 <= i, i <= nb), E(i) == LF(col, z3.If(nb == 0, a_, a_ + z3.ToReal(i) * (b_ - a_) / z3.ToReal(nb)))),
              assume_after=False)


CONTRACTS = [HistBins()]
