"""Contracts for FlowCal.mef (C09 structural identities of the bead fit; C02 orchestration to follow)."""
import z3

from pyvc.verify import Contract
from pyvc.values import SV, Seq, SymSeq, NDArr, Opaque, Builtin, Closure
from pyvc.interp import stamp, raise_py
from pyvc import interp as M
from pyvc import pybuiltins as PB
from .common import sym_array

R = z3.RealSort()


class FitBeads(Contract):
    target = 'FlowCal.mef.fit_beads_autofluorescence'
    property_ids = ('C09',)
    frame_result = None
    assumptions = ('C09: scipy.optimize.minimize is assumed to return parameters within the bounds it is given (convergence to the '
                   'generating law within 5% is checked by the bounded lattice only); bead values are positive',
                   'A-REAL: exp/log/pow uninterpreted with x**m = exp(m log x) (x>0), exp(u+v)=exp(u)exp(v), exp>0, x**m increasing')

    def cases(self):
        return [{'label': 'fit'}, {'label': 'length-mismatch'}, {'label': 'too-few'}]

    def setup(self, I, case):
        c = I.ctx
        n = c.fresh_int('n')
        n2 = n
        if case['label'] == 'length-mismatch':
            n2 = c.fresh_int('n2')
            c.assume(z3.And(n >= 0, n2 >= 0, n != n2))
        elif case['label'] == 'too-few':
            c.assume(z3.And(n >= 0, n <= 2))
        else:
            c.assume(n >= 3)
        rfi = sym_array(I, 'fl_rfi', [n], 'float')
        mef = sym_array(I, 'fl_mef', [n2], 'float')
        i = z3.Int('pos_i')
        c.assume(z3.ForAll([i], z3.And(rfi.ufn(i) > 0, mef.ufn(i) >= 0)))
        aux = {'n': n}

        def minimize(I_, a, k):
            x0 = a[1]
            bounds = k.get('bounds')
            xs = [I_.ctx.fresh_real('fit_p%d' % j) for j in range(3)]
            okb = isinstance(bounds, Seq) and len(bounds.items) == 3
            aux['bounds_ok'] = okb
            if okb:
                for j, bnd in enumerate(bounds.items):
                    lo, hi = I_.iterate_concrete(bnd)
                    if lo is not None:
                        I_.ctx.add_axiom(xs[j] >= I_.z(lo, 'real'), 'A-LIB:minimize respects the bounds it is given')
                    if hi is not None:
                        I_.ctx.add_axiom(xs[j] <= I_.z(hi, 'real'), 'A-LIB:minimize respects the bounds it is given')
            aux['xs'] = xs
            aux['x0'] = x0
            res = Opaque('optresult', xs)
            return res

        def opaque_attr(I_, obj, name):
            if obj.tag == 'optresult' and name == 'x':
                xs = obj.payload
                arr = I_.np.as_array(stamp(Seq('list', [SV(x, 'real') for x in xs])))
                return arr
            return PB.NOATTR
        self.config = {'opaque_attr': opaque_attr, 'libs': lambda I_: {'scipy.optimize.minimize': Builtin('minimize', minimize)}}
        I.config.update(self.config)
        I.libs['scipy.optimize.minimize'] = Builtin('minimize', minimize)
        return [rfi, mef], {}, aux

    def expected_outcomes(self, case):
        return ['return'] if case['label'] == 'fit' else ['raise:ValueError']

    def check(self, I, case, aux, out):
        P = I.ctx.prove
        if case['label'] != 'fit':
            P('fewer-than-three-populations-or-mismatched-lengths-refused', out.raised('ValueError'))
            return
        P('returns', out.kind == 'return')
        if out.kind != 'return':
            return
        v = out.value
        ok = isinstance(v, Seq) and v.kind == 'tuple' and len(v.items) == 5
        P('returns-the-documented-5-tuple', ok)
        if not ok:
            return
        std_crv, beads_model, params, model_str, names = v.items
        P('parameter-names', isinstance(names, Seq) and [x for x in names.items] == ['m', 'b', 'fl_mef_auto'])
        P('bounds-handed-to-the-optimiser-are-a-triple', aux.get('bounds_ok', False))
        pz = [params.fn(z3.IntVal(j)) for j in range(3)] if isinstance(params, NDArr) else None
        P('fitted-parameters-are-the-optimiser-result', pz is not None and all(z3.eq(z3.simplify(a), z3.simplify(b)) for a, b in zip(pz, aux['xs'])))
        if pz is None:
            return
        m, b, auto = pz
        P('fitted-autofluorescence-non-negative', auto >= 0)
        I.real_axioms()
        I.pow_axioms()
        x, y = I.ctx.fresh_real('x'), I.ctx.fresh_real('y')

        def app(f, val):
            r = I.call(f, [SV(val, 'real', True)], {})
            return I.z(r, 'real')
        sx, snx, s0 = app(std_crv, x), app(std_crv, -x), app(std_crv, z3.RealVal(0))
        P('standard-curve-is-odd', snx == -sx)
        P('standard-curve-zero-at-zero', s0 == 0)
        sy = app(std_crv, y)
        P('standard-curve-increasing-for-positive-slope', z3.Implies(z3.And(m > 0, 0 < x, x < y), sx < sy))
        bx = app(beads_model, x)
        # instances of the A-REAL axioms at the terms of this obligation (e-matching on sums is unreliable)
        u_, v_ = m * M.flog(x), b
        I.ctx.add_axiom(M.fexp(u_ + v_) == M.fexp(u_) * M.fexp(v_), 'A-REAL:exp(u+v)=exp(u)exp(v)')
        I.ctx.add_axiom(z3.Implies(x > 0, M.fpow(x, m) == M.fexp(m * M.flog(x))), 'A-REAL:x**m = exp(m*log x) for x>0')
        P('bead-model-equals-standard-curve-minus-autofluorescence-for-positive-inputs', z3.Implies(x > 0, bx == sx - auto))


CONTRACTS = [FitBeads()]


# ---------------------------------------------------------------------------------------------
from pyvc.values import PDict, NT, Partial
from .common import sym_fcs, sym_dims
from . import io_specs


class GetTransformFxn(Contract):
    """C02, orchestration of mef.get_transform_fxn, for EVERY clustering, statistic, selection and fitting function (they are
    parameters of the real function: here uninterpreted deterministic callables that record what they are called with), all
    sample sizes N, all numbers K of bead values per channel and U of populations found, C = 1 or 2 channels calibrated at once.

    Proved of the real body:
      * the clustering function is called once, with the events restricted to the clustering channels (default: the calibrated
        channels) and n_clusters = K; its labels are reported unchanged (one label per event);
      * the populations are the U groups of events with equal label, ordered by non-decreasing squared distance of their mean
        (clustering channels) to the origin; the k-th statistic of channel c is the statistic function applied to column c of
        the k-th population in that order (one statistic per population);
      * for every channel c the fit receives exactly the pairs (statistic_k, mef_values[c][k]) of the positions k for which the
        selection function's mask for channel c holds and mef_values[c][k] is not NaN, in increasing k -- the unknown values of
        one channel do not affect another channel, the others keep their own values; the reported selection lists are the
        arrays handed to the fit (equal length, paired);
      * the returned transformation is functools.partial(FlowCal.transform.to_mef, sc_list=[curve of channel c, in order],
        sc_channels=the calibrated channels) -- what to_mef does with it is the ToMef contract (C06);
      * ValueError (operands could not be broadcast) only when the number of populations found differs from K.
    Not covered here (bounded stand-in): that the default clustering groups events by generating subpopulation, the 10 % accuracy,
    reproducibility for a fixed seed, selection_std's own rule."""
    target = 'FlowCal.mef.get_transform_fxn'
    property_ids = ('C02',)
    config = {'call_contracts': io_specs.summaries()}
    frame_result = None
    max_paths = 300
    assumptions = ('get_transform_fxn: clustering/statistic/selection/fitting functions are deterministic functions of their arguments '
                   'that do not modify them (they are arbitrary otherwise); N >= 1; channel positions valid; plot=False, verbose=False',
                   'A-LIB: set(labels) lists the distinct labels in an unspecified order; np.argsort permutation/sortedness; '
                   'np.mean(axis=0) an uninterpreted column statistic')

    def cases(self):
        out = []
        for C in (1, 2):
            for cc in ('default', 'given'):
                out.append({'label': 'C%d-clustering-channels-%s' % (C, cc), 'C': C, 'cc': cc})
        return out

    def setup(self, I, case):
        c = I.ctx
        N, D = sym_dims(I, 'N', 'D')
        c.assume(z3.And(N >= 1, D >= 1))
        data = sym_fcs(I, 'beads', N, D)
        C = case['C']
        K = c.fresh_int('K')
        c.assume(K >= 1)
        chs = [c.fresh_int('mch%d' % j) for j in range(C)]
        for x in chs:
            c.assume(z3.And(0 <= x, x < D))
        if C == 2:
            c.assume(chs[0] != chs[1])
        mef = sym_array(I, 'mefv', [C, I.np.norm_dim(K)], 'float')
        nanf = c.fresh_fn('mef_unknown', z3.IntSort(), z3.IntSort(), z3.BoolSort())
        mef.nanfn = lambda a, b, nanf=nanf: nanf(a, b)
        aux = {'N': N, 'D': D, 'K': K, 'data': data, 'chs': chs, 'mef': mef, 'nanf': nanf, 'calls': {'cluster': [], 'stat': [], 'sel': [], 'fit': []}}
        log = aux['calls']
        lab = c.fresh_fn('label', z3.IntSort(), z3.IntSort())
        aux['lab'] = lab

        def clustering(I_, a, k):
            log['cluster'].append((a, dict(k)))
            out = I_.np.new([N], 'int', lambda i, lab=lab: lab(i))
            aux['labels'] = out
            return out
        stat_f = c.fresh_fn('statistic', z3.IntSort(), z3.IntSort(), z3.RealSort())      # (channel ordinal, sorted position)
        aux['stat_f'] = stat_f

        def statistic(I_, a, k):
            kk = I_.comp_index_stack[-1] if I_.comp_index_stack else None
            ordinal = len(log['sel'])            # channels are processed in order; selection is called once per channel after the statistics
            log['stat'].append((ordinal, kk, a[0]))
            if kk is None:
                raise_py('TypeError', 'statistic outside a comprehension')
            return SV(stat_f(z3.IntVal(ordinal), kk), 'real', True)
        sel_f = c.fresh_fn('selected', z3.IntSort(), z3.IntSort(), z3.BoolSort())
        aux['sel_f'] = sel_f

        def selection(I_, a, k):
            ordinal = len(log['sel'])
            pops = a[0]
            n_ = I_.seq_len(pops)
            log['sel'].append((ordinal, pops))
            return I_.np.new([I_.np.norm_dim(I_.z(n_, 'int'))], 'bool', lambda i, o=ordinal: sel_f(z3.IntVal(o), i))

        def fitting(I_, a, k):
            ordinal = len(log['fit'])
            log['fit'].append((ordinal, a[0], a[1]))
            return stamp(Seq('tuple', [Opaque('fit-output', (ordinal, j)) for j in range(5)]))
        kw = {'clustering_fxn': Builtin('clustering', clustering), 'statistic_fxn': Builtin('statistic', statistic),
              'selection_fxn': Builtin('selection', selection), 'fitting_fxn': Builtin('fitting', fitting),
              'full_output': True, 'plot_filename': 'beads'}
        if case['cc'] == 'given':
            cch = c.fresh_int('cch')
            c.assume(z3.And(0 <= cch, cch < D))
            aux['cch'] = [cch]
            kw['clustering_channels'] = stamp(Seq('list', [SV(cch, 'int')]))
        else:
            aux['cch'] = list(chs)
        args = [data, mef, stamp(Seq('list', [SV(x, 'int') for x in chs]))]
        return args, kw, aux

    def expected_outcomes(self, case):
        return ['return']

    def small_hints(self, case, aux):
        return [z3.And(aux['N'] <= n, aux['D'] <= 3, aux['K'] <= 3) for n in (3, 6)]

    def witness(self, model, case, aux):
        from .common import data_witness, mval
        w = data_witness(model, aux['data'], 'FCSData')
        N, K = mval(model, aux['N']), mval(model, aux['K'])
        C = case['C']
        if not (isinstance(N, int) and isinstance(K, int) and N <= 40 and K <= 12):
            return w
        w.update({'chs': [mval(model, x) for x in aux['chs']], 'cch': [mval(model, x) for x in aux['cch']],
                  'labels': [mval(model, aux['lab'](z3.IntVal(i))) for i in range(N)],
                  'mef': [[None if mval(model, aux['nanf'](z3.IntVal(ci), z3.IntVal(k))) else mval(model, aux['mef'].ufn(z3.IntVal(ci), z3.IntVal(k)))
                           for k in range(K)] for ci in range(C)],
                  'selected': [[bool(mval(model, aux['sel_f'](z3.IntVal(ci), z3.IntVal(k)))) for k in range(K)] for ci in range(C)]})
        return w

    def check(self, I, case, aux, out):
        c = I.ctx
        P = c.prove
        N, K, data, chs, log = aux['N'], aux['K'], aux['data'], aux['chs'], aux['calls']
        env = getattr(I, 'top_env', {})
        C = case['C']
        ul = env.get('unique_labels')
        U = I.np.dim_z(ul.shape[0]) if isinstance(ul, NDArr) else None
        if out.kind == 'raise':
            # np.logical_and of masks of different lengths: ValueError, or (one of them of length 1: NumPy stretches it) IndexError
            # from the boolean index that follows
            P('raises-only-ValueError-or-IndexError', out.raised('ValueError') or out.raised('IndexError'))
            P('refused-only-when-populations-found-differ-from-values-given', U is not None and z3.simplify(U != K))
            if U is not None:
                P('refused-only-when-populations-found-differ-from-values-given.count', U != K)
            return
        P('populations-found-equal-values-given', U is not None and True)
        if U is not None:
            P('populations-found-equal-values-given.count', U == K)
        # ---- clustering call ----------------------------------------------------------------------------------------------
        P('clustering-called-once', len(log['cluster']) == 1)
        if len(log['cluster']) != 1:
            return
        (ca, ck) = log['cluster'][0]
        ok = len(ca) == 2 and isinstance(ca[0], NDArr) and ca[0].ndim == 2 and not ck
        P('clustering-call-shape(events, n_clusters)', ok)
        if ok:
            i = c.fresh_int('ev_i')
            P('clustering-gets-n_clusters-equal-number-of-values', I.z(ca[1], 'int') == K)
            cols = aux['cch']
            P('clustering-gets-all-events-of-the-clustering-channels',
              z3.And(I.np.dim_z(ca[0].shape[0]) == N, I.np.dim_z(ca[0].shape[1]) == len(cols),
                     z3.Implies(z3.And(0 <= i, i < N), z3.And(*[ca[0].fn(i, z3.IntVal(j)) == data.ufn(i, cols[j]) for j in range(len(cols))]))),
              assume_after=False)
        v = out.value
        fields = ['mef_channels', 'transform_fxn', 'clustering', 'statistic', 'selection', 'fitting']
        P('full-output-is-namedtuple', isinstance(v, NT) and v.cls.fields == fields)
        if not (isinstance(v, NT) and v.cls.fields == fields):
            return
        cl = v.get('clustering')
        P('labels-reported-are-the-clustering-result(one label per event)',
          isinstance(cl, PDict) and cl.keys == ['labels'] and cl.vals[0] is aux.get('labels'))
        # ---- populations: groups of equal label, in order of distance -------------------------------------------------------
        psi = env.get('population_sorted_idx')
        uq = getattr(env.get('unique_labels'), 'fn', None)
        P('internals-visible(unique labels, sort order)', isinstance(psi, NDArr) and uq is not None and hasattr(psi, 'perm'))
        if not (isinstance(psi, NDArr) and uq is not None and hasattr(psi, 'perm')):
            return
        Pf, Qf, dist = psi.perm
        lab = aux['lab']
        k = c.fresh_int('pop_k')
        rng_k = z3.And(0 <= k, k < U)
        c.assume(rng_k)         # k: an arbitrary position in the list of populations
        # the label of the k-th population in the final order
        labk = uq(Pf(k))
        stats_res = v.get('statistic')
        selr = v.get('selection')
        fitr = v.get('fitting')
        sok = isinstance(stats_res, PDict) and stats_res.keys == ['values'] and isinstance(stats_res.vals[0], Seq) and len(stats_res.vals[0].items) == C
        P('one-statistics-array-per-channel', sok)
        P('one-fit-per-channel', len(log['fit']) == C and len(log['sel']) == C)
        if not sok or len(log['fit']) != C or len(log['sel']) != C:
            return
        i = c.fresh_int('ev_i2')
        for ci in range(C):
            sv = stats_res.vals[0].items[ci]
            ok = isinstance(sv, NDArr) and sv.ndim == 1
            P('statistics[%d]-is-1d-array' % ci, ok)
            if not ok:
                continue
            P('statistics[%d]-one-per-population' % ci, I.np.dim_z(sv.shape[0]) == U)
            P('statistics[%d]-k-th-entry-is-the-statistic-of-the-k-th-population' % ci,
              z3.Implies(rng_k, sv.fn(k) == aux['stat_f'](z3.IntVal(ci), k)), assume_after=False)
            # what the statistic function was applied to at position k: evaluate the argument list element for the arbitrary k
            pcs = None
            for (o_, pops_) in log['sel']:
                if o_ == ci:
                    pcs = pops_
            okp = pcs is not None
            P('selection[%d]-gets-the-per-population-columns' % ci, okp)
            if okp:
                def arg_parts(pcs=pcs, ci=ci):
                    arr = I.seq_get_sym(pcs, k)
                    if not (isinstance(arr, NDArr) and arr.ndim == 1):
                        return None
                    # arr = column chs[ci] of the events whose label is labk, in file order
                    flt = arr
                    while flt is not None and getattr(flt, 'filter_sel', None) is None:
                        flt = flt.view_of if flt.view_of is not None else getattr(flt, 'base', None)
                    sel = getattr(flt, 'filter_sel', None)
                    if sel is None or not hasattr(sel, 'mask_fn') or flt.term[1] is not data:
                        return None
                    return arr, sel

                def group_mask():
                    pr = arg_parts()
                    if pr is None:
                        return False
                    return z3.Implies(z3.And(0 <= i, i < N), pr[1].mask_fn(i) == (lab(i) == labk))

                def group_values():
                    pr = arg_parts()
                    if pr is None:
                        return False
                    arr, sel = pr
                    r = I.ctx.fresh_int('grp_r')
                    return z3.Implies(z3.And(0 <= r, r < I.np.dim_z(arr.shape[0])), arr.fn(r) == data.ufn(sel.fn(r), chs[ci]))
                I.prove_forked('population[%d][k]-holds-exactly-the-events-with-the-k-th-label' % ci, group_mask)
                I.prove_forked('population[%d][k]-passed-to-statistic-and-selection-is-column-c-of-those-events' % ci, group_values)
            # ---- selection and pairing ----------------------------------------------------------------------------------------
            (fo, rfi, mefs) = log['fit'][ci]
            ok = isinstance(rfi, NDArr) and isinstance(mefs, NDArr) and getattr(rfi, 'filter_sel', None) is not None \
                and getattr(mefs, 'filter_sel', None) is not None
            P('fit[%d]-receives-filtered-arrays' % ci, ok)
            if not ok:
                continue
            s1, s2 = rfi.filter_sel, mefs.filter_sel
            P('fit[%d]-rfi-and-mef-filtered-by-the-same-mask(paired, equal length)' % ci, s1 is s2)
            kk = c.fresh_int('sel_k')
            want = z3.And(aux['sel_f'](z3.IntVal(ci), kk), z3.Not(aux['nanf'](z3.IntVal(ci), kk)))
            P('fit[%d]-mask-is-selected-and-value-known-for-this-channel' % ci,
              z3.Implies(z3.And(0 <= kk, kk < K), s1.mask_fn(kk) == want), assume_after=False)
            r = c.fresh_int('sel_r')
            inr = z3.And(0 <= r, r < I.np.dim_z(rfi.shape[0]))
            P('fit[%d]-rfi-are-the-statistics-of-the-kept-positions' % ci,
              z3.Implies(inr, rfi.fn(r) == aux['stat_f'](z3.IntVal(ci), s1.fn(r))), assume_after=False)
            P('fit[%d]-mef-are-this-channels-values-of-the-kept-positions' % ci,
              z3.Implies(inr, mefs.fn(r) == aux['mef'].ufn(z3.IntVal(ci), s1.fn(r))), assume_after=False)
            P('fit[%d]-no-unknown-value-is-passed' % ci, z3.Implies(inr, z3.Not(mefs.nanfn(r))) if mefs.nanfn is not None else True,
              assume_after=False)
            rok = isinstance(selr, PDict) and selr.keys == ['rfi', 'mef'] and all(isinstance(x, Seq) and len(x.items) == C for x in selr.vals)
            P('selection-lists-reported-are-those-passed-to-the-fit[%d]' % ci,
              rok and selr.vals[0].items[ci] is rfi and selr.vals[1].items[ci] is mefs)
        # ---- order of populations ---------------------------------------------------------------------------------------------
        k1, k2 = c.fresh_int('pop_k1'), c.fresh_int('pop_k2')
        P('populations-ordered-by-non-decreasing-distance', z3.Implies(z3.And(0 <= k1, k1 < k2, k2 < U), dist(Pf(k1)) <= dist(Pf(k2))),
          assume_after=False)
        P('each-label-group-appears-once', z3.Implies(z3.And(0 <= k1, k1 < k2, k2 < U), uq(Pf(k1)) != uq(Pf(k2))), assume_after=False)
        # the sort key is the squared distance to the origin of the population's mean over the clustering channels
        src = getattr(psi, 'sorted_src', None)
        pops_sorted = env.get('populations')

        def key_is_distance():
            if src is None or pops_sorted is None:
                return False
            got = I.np.link_element(src, Pf(k))
            if got is None:
                got = SV(src.fn(Pf(k)), 'real')
            pop = I.seq_get_sym(pops_sorted, k)
            cols = stamp(Seq('list', [SV(x, 'int') for x in aux['cch']]))
            X = I.getitem(pop, stamp(Seq('tuple', [M.SliceV(None, None, None), cols])))
            m = I.np.col_stat('mean', X, 0)
            tot = None
            for j in range(len(aux['cch'])):
                t_ = m.fn(z3.IntVal(j)) * m.fn(z3.IntVal(j))
                tot = t_ if tot is None else tot + t_
            return I.z(got, 'real') == tot
        I.prove_forked('sort-key-of-the-k-th-population-is-the-squared-distance-of-its-mean-over-the-clustering-channels', key_is_distance)
        pd = env.get('population_dist')
        # ---- fits and the returned transformation --------------------------------------------------------------------------------
        tf = v.get('transform_fxn')
        ok = isinstance(tf, Partial) and not tf.args and sorted(tf.kwargs) == ['sc_channels', 'sc_list']
        P('transformation-is-partial(to_mef, sc_list, sc_channels)', ok)
        if ok:
            f = tf.func
            P('transformation-wraps-FlowCal.transform.to_mef', isinstance(f, Closure) and I.qual_of(f) == 'FlowCal.transform.to_mef')
            sl, sc = tf.kwargs['sc_list'], tf.kwargs['sc_channels']
            P('one-curve-per-calibrated-channel-in-order',
              isinstance(sl, Seq) and len(sl.items) == C and all(isinstance(x, Opaque) and x.tag == 'fit-output' and x.payload == (j, 0)
                                                                 for j, x in enumerate(sl.items)))
            P('curves-bound-to-the-calibrated-channels',
              isinstance(sc, Seq) and len(sc.items) == C and all(z3.eq(z3.simplify(I.z(x, 'int')), z3.simplify(chs[j])) for j, x in enumerate(sc.items)))
        fok = isinstance(fitr, PDict) and fitr.keys == ['std_crv', 'beads_model', 'beads_params', 'beads_model_str', 'beads_params_names']
        P('fitting-results-reported-per-channel-in-order',
          fok and all(isinstance(fitr.vals[j], Seq) and [getattr(x, 'payload', None) for x in fitr.vals[j].items] == [(ci, j) for ci in range(C)]
                      for j in range(5)))
        mc = v.get('mef_channels')
        P('calibrated-channels-reported', isinstance(mc, Seq) and len(mc.items) == C)


CONTRACTS.append(GetTransformFxn())
