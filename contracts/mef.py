"""Contracts for FlowCal.mef (C09 structural identities of the bead fit; C02 orchestration to follow)."""
import z3

from pyvc.verify import Contract
from pyvc.values import SV, Seq, SymSeq, NDArr, Opaque, Builtin, Closure
from pyvc.interp import stamp, raise_py
from pyvc import interp as M
from pyvc import pybuiltins as PB
from .common import sym_array

R = z3.RealSort()


class FitBeads(Contract):
    target = 'FlowCal.mef.fit_beads_autofluorescence'
    property_ids = ('C09',)
    frame_result = None
    assumptions = ('C09: scipy.optimize.minimize is assumed to return parameters within the bounds it is given (convergence to the '
                   'generating law within 5% is checked by the bounded lattice only); bead values are positive',
                   'A-REAL: exp/log/pow uninterpreted with x**m = exp(m log x) (x>0), exp(u+v)=exp(u)exp(v), exp>0, x**m increasing')

    def cases(self):
        return [{'label': 'fit'}, {'label': 'length-mismatch'}, {'label': 'too-few'}]

    def setup(self, I, case):
        c = I.ctx
        n = c.fresh_int('n')
        n2 = n
        if case['label'] == 'length-mismatch':
            n2 = c.fresh_int('n2')
            c.assume(z3.And(n >= 0, n2 >= 0, n != n2))
        elif case['label'] == 'too-few':
            c.assume(z3.And(n >= 0, n <= 2))
        else:
            c.assume(n >= 3)
        rfi = sym_array(I, 'fl_rfi', [n], 'float')
        mef = sym_array(I, 'fl_mef', [n2], 'float')
        i = z3.Int('pos_i')
        c.assume(z3.ForAll([i], z3.And(rfi.ufn(i) > 0, mef.ufn(i) >= 0)))
        aux = {'n': n}

        def minimize(I_, a, k):
            x0 = a[1]
            bounds = k.get('bounds')
            xs = [I_.ctx.fresh_real('fit_p%d' % j) for j in range(3)]
            okb = isinstance(bounds, Seq) and len(bounds.items) == 3
            aux['bounds_ok'] = okb
            if okb:
                for j, bnd in enumerate(bounds.items):
                    lo, hi = I_.iterate_concrete(bnd)
                    if lo is not None:
                        I_.ctx.add_axiom(xs[j] >= I_.z(lo, 'real'), 'A-LIB:minimize respects the bounds it is given')
                    if hi is not None:
                        I_.ctx.add_axiom(xs[j] <= I_.z(hi, 'real'), 'A-LIB:minimize respects the bounds it is given')
            aux['xs'] = xs
            aux['x0'] = x0
            res = Opaque('optresult', xs)
            return res

        def opaque_attr(I_, obj, name):
            if obj.tag == 'optresult' and name == 'x':
                xs = obj.payload
                arr = I_.np.as_array(stamp(Seq('list', [SV(x, 'real') for x in xs])))
                return arr
            return PB.NOATTR
        self.config = {'opaque_attr': opaque_attr, 'libs': lambda I_: {'scipy.optimize.minimize': Builtin('minimize', minimize)}}
        I.config.update(self.config)
        I.libs['scipy.optimize.minimize'] = Builtin('minimize', minimize)
        return [rfi, mef], {}, aux

    def expected_outcomes(self, case):
        return ['return'] if case['label'] == 'fit' else ['raise:ValueError']

    def check(self, I, case, aux, out):
        P = I.ctx.prove
        if case['label'] != 'fit':
            P('fewer-than-three-populations-or-mismatched-lengths-refused', out.raised('ValueError'))
            return
        P('returns', out.kind == 'return')
        if out.kind != 'return':
            return
        v = out.value
        ok = isinstance(v, Seq) and v.kind == 'tuple' and len(v.items) == 5
        P('returns-the-documented-5-tuple', ok)
        if not ok:
            return
        std_crv, beads_model, params, model_str, names = v.items
        P('parameter-names', isinstance(names, Seq) and [x for x in names.items] == ['m', 'b', 'fl_mef_auto'])
        P('bounds-handed-to-the-optimiser-are-a-triple', aux.get('bounds_ok', False))
        pz = [params.fn(z3.IntVal(j)) for j in range(3)] if isinstance(params, NDArr) else None
        P('fitted-parameters-are-the-optimiser-result', pz is not None and all(z3.eq(z3.simplify(a), z3.simplify(b)) for a, b in zip(pz, aux['xs'])))
        if pz is None:
            return
        m, b, auto = pz
        P('fitted-autofluorescence-non-negative', auto >= 0)
        I.real_axioms()
        I.pow_axioms()
        x, y = I.ctx.fresh_real('x'), I.ctx.fresh_real('y')

        def app(f, val):
            r = I.call(f, [SV(val, 'real', True)], {})
            return I.z(r, 'real')
        sx, snx, s0 = app(std_crv, x), app(std_crv, -x), app(std_crv, z3.RealVal(0))
        P('standard-curve-is-odd', snx == -sx)
        P('standard-curve-zero-at-zero', s0 == 0)
        sy = app(std_crv, y)
        P('standard-curve-increasing-for-positive-slope', z3.Implies(z3.And(m > 0, 0 < x, x < y), sx < sy))
        bx = app(beads_model, x)
        # instances of the A-REAL axioms at the terms of this obligation (e-matching on sums is unreliable)
        u_, v_ = m * M.flog(x), b
        I.ctx.add_axiom(M.fexp(u_ + v_) == M.fexp(u_) * M.fexp(v_), 'A-REAL:exp(u+v)=exp(u)exp(v)')
        I.ctx.add_axiom(z3.Implies(x > 0, M.fpow(x, m) == M.fexp(m * M.flog(x))), 'A-REAL:x**m = exp(m*log x) for x>0')
        P('bead-model-equals-standard-curve-minus-autofluorescence-for-positive-inputs', z3.Implies(x > 0, bx == sx - auto))


CONTRACTS = [FitBeads()]
