"""Contracts for the logicle transform (C18): parameter rules, the biexponential formula, monotonicity, f(W) = 0."""
import z3

from pyvc.verify import Contract
from pyvc.values import SV, Seq, SymSeq, NDArr, Opaque, Builtin, Obj
from pyvc.interp import stamp, raise_py
from pyvc import interp as M
from pyvc import pybuiltins as PB
from .common import sym_array, sym_fcs, sym_dims
from . import io_specs

R = z3.RealSort()


def lib_hooks(aux):
    def libs(I):
        tr = Opaque('pyclass', 'matplotlib.transforms.Transform')
        tr.members = {'__init__': Builtin('Transform.__init__', lambda I_, a, k: None)}

        def root(I_, a, k):
            # assumed postcondition of the root finder (C18: convergence is out of deductive reach): p >= 1 solves W = 2p log10(p)/(p+1)
            Wt = k.get('args')
            p = I_.ctx.fresh_real('p_root')
            I_.real_axioms()
            Wz = I_.z(Wt, 'real')
            I_.ctx.add_axiom(z3.And(p >= 1, Wz == 2 * p / (p + 1) * M.log10(p)), 'A-LIB:scipy.optimize.root returns p>=1 with W = 2p*log10(p)/(p+1) (assumed; bounded check)')
            aux['p'] = p
            res = Opaque('optresult', p)
            return res
        return {'matplotlib.transforms.Transform': tr, 'scipy.optimize.root': Builtin('scipy.optimize.root', root)}

    def opaque_attr(I, obj, name):
        if obj.tag == 'optresult':
            if name == 'success':
                return True
            if name == 'x':
                return stamp(Seq('list', [SV(obj.payload, 'real', True)]))
        return PB.NOATTR
    return libs, opaque_attr


class LogicleInit(Contract):
    target = 'FlowCal.plot._LogicleTransform.__init__'
    property_ids = ('C18',)
    frame_modifies = (0,)
    frame_result = None
    assumptions = ('C18: scipy.optimize.root is assumed to return p >= 1 with W = 2p*log10(p)/(p+1) (its convergence is checked only by the '
                   'bounded stand-in); A-REAL: log10 uninterpreted; data sets have at least one event',)

    def cases(self):
        out = [{'label': 'explicit'}, {'label': 'defaults'}]
        for d in ('array1d', 'array2d', 'fcs', 'two-arrays', 'array2d-nochannel'):
            for ov in ('none', 'T', 'TMW'):
                if d == 'array2d-nochannel' and ov != 'none':
                    continue
                out.append({'label': 'data=%s,override=%s' % (d, ov), 'data': d, 'ov': ov})
        return out

    def setup(self, I, case):
        c = I.ctx
        aux = {}
        libs, oattr = lib_hooks(aux)
        self.config = {'libs': libs, 'opaque_attr': oattr, 'call_contracts': io_specs.summaries()}
        I.config.update(self.config)
        I.call_contracts = self.config['call_contracts']
        I.libs.update(libs(I))
        env = I.module_env('FlowCal.plot')
        obj = stamp(Obj(env['_LogicleTransform']))
        aux['self'] = obj
        kw = {}
        lab = case['label']
        if lab == 'explicit' or case.get('ov') in ('T', 'TMW'):
            aux['T'] = c.fresh_real('T')
            kw['T'] = SV(aux['T'], 'real')
        if lab == 'explicit' or case.get('ov') == 'TMW':
            aux['M'], aux['W'] = c.fresh_real('M'), c.fresh_real('W')
            kw['M'], kw['W'] = SV(aux['M'], 'real'), SV(aux['W'], 'real')
        d = case.get('data')
        ys = []
        if d:
            N = c.fresh_int('N')
            c.assume(N >= 1)
            aux['N'] = N
            if d == 'array1d':
                a = sym_array(I, 'y', [N], 'float')
                kw['data'] = a
                ys.append((lambda i, a=a: a.ufn(i), N, None))
            elif d in ('array2d', 'array2d-nochannel', 'fcs'):
                D = c.fresh_int('D')
                c.assume(D >= 1)
                ch = c.fresh_int('ch')
                c.assume(z3.And(0 <= ch, ch < D))
                a = sym_fcs(I, 'y', N, D) if d == 'fcs' else sym_array(I, 'y', [N, D], 'float')
                kw['data'] = a
                if d != 'array2d-nochannel':
                    kw['channel'] = SV(ch, 'int')
                ys.append((lambda i, a=a, ch=ch: a.ufn(i, ch), N, (a.meta.hi(ch) if d == 'fcs' else None)))
            else:
                N2 = c.fresh_int('N2')
                c.assume(N2 >= 1)
                a, b = sym_array(I, 'y1', [N], 'float'), sym_array(I, 'y2', [N2], 'float')
                kw['data'] = stamp(Seq('list', [a, b]))
                ys.append((lambda i, a=a: a.ufn(i), N, None))
                ys.append((lambda i, b=b: b.ufn(i), N2, None))
        aux['ys'] = ys
        return [obj], kw, aux

    def expected_outcomes(self, case):
        if case['label'] == 'defaults':
            return ['return']
        return ['raise:ValueError'] if case.get('data') == 'array2d-nochannel' else ['return', 'raise:ValueError']

    def check(self, I, case, aux, out):
        P = I.ctx.prove
        I.real_axioms()
        obj = aux['self']
        lab = case['label']
        if case.get('data') == 'array2d-nochannel':
            P('multidimensional-data-without-channel-refused', out.raised('ValueError'))
            return
        i = z3.Int('lg_i')
        ys = aux['ys']
        # --- the documented parameter rules, as constraints on (T, M, W)
        def rules(T, Mv, W):
            cs = []
            if 'T' in aux:
                cs.append(T == aux['T'])
            elif ys:
                tops = []
                for (y, n, hi) in ys:
                    if hi is not None:
                        tops.append(hi)
                    else:
                        cs.append(z3.ForAll([i], z3.Implies(z3.And(0 <= i, i < n), y(i) <= T)))
                for hi in tops:
                    cs.append(hi <= T)
                wit = [T == 0] + [hi == T for hi in tops] + [z3.Exists([i], z3.And(0 <= i, i < n, y(i) == T)) for (y, n, hi) in ys if hi is None]
                cs.append(z3.Or(*wit))
                cs.append(T >= 0)
            else:
                cs.append(T == 262144)
            if 'M' in aux:
                cs += [Mv == aux['M'], W == aux['W']]
            elif ys:
                m2 = z3.RealVal('4.5') / M.log10(z3.RealVal(262144)) * M.log10(T)
                cs.append(Mv == z3.If(m2 > z3.RealVal('4.5'), m2, z3.RealVal('4.5')))
                cs.append(W >= 0)
                cands = [W == 0]
                for (y, n, hi) in ys:
                    neg = z3.Exists([i], z3.And(0 <= i, i < n, y(i) < 0))
                    r = z3.Real('lg_r')
                    # r = the most negative event of this sample
                    ismin = lambda r_, y=y, n=n: z3.And(z3.ForAll([i], z3.Implies(z3.And(0 <= i, i < n), y(i) >= r_)),
                                                         z3.Exists([i], z3.And(0 <= i, i < n, y(i) == r_)))
                    wi = lambda r_: (Mv - M.log10(T / z3.If(r_ < 0, -r_, r_))) / 2
                    cs.append(z3.ForAll([r], z3.Implies(z3.And(neg, ismin(r)), W >= wi(r))))
                    cands.append(z3.Exists([r], z3.And(neg, ismin(r), W == wi(r))))
                cs.append(z3.Or(*cands))
            else:
                cs += [Mv == z3.RealVal('4.5'), W == z3.RealVal('0.5')]
            return cs
        if out.kind == 'raise':
            P('refusal-is-a-ValueError', out.raised('ValueError'))
            # refused only when the documented parameters are invalid: no (T, M, W) obeying the rules is valid
            T, Mv, W = z3.Reals('sp_T sp_M sp_W')
            P('refused-only-for-non-positive-T-or-M-or-negative-W',
              z3.Not(z3.Exists([T, Mv, W], z3.And(*(rules(T, Mv, W) + [T > 0, Mv > 0, W >= 0])))))
            return
        at = obj.attrs
        okk = all(k in at for k in ('_T', '_M', '_W', '_p'))
        P('parameters-stored', okk)
        if not okk:
            return
        T, Mv, W = I.z(at['_T'], 'real'), I.z(at['_M'], 'real'), I.z(at['_W'], 'real')
        for k, cst in enumerate(rules(T, Mv, W)):
            P('parameter-rule-%d' % k, cst)
        P('valid-parameters-only', z3.And(T > 0, Mv > 0, W >= 0))
        p = I.z(at['_p'], 'real')
        P('p-solves-W=2p*log10(p)/(p+1)', z3.And(p >= 1, W == 2 * p / (p + 1) * M.log10(p)))


class LogicleTransformFn(Contract):
    target = 'FlowCal.plot._LogicleTransform.transform_non_affine'
    property_ids = ('C18', 'C19')
    frame_result = None
    assumptions = ('A-REAL: 10**x is exp10 with exp10 strictly increasing, positive, exp10(0) = 1',)

    def cases(self):
        return [{'label': 'scalar-pair'}]

    def setup(self, I, case):
        c = I.ctx
        env = I.module_env('FlowCal.plot')
        obj = stamp(Obj(env['_LogicleTransform']))
        aux = {}
        for nm in ('T', 'M', 'W', 'p'):
            aux[nm] = c.fresh_real(nm)
            obj.attrs['_' + nm] = SV(aux[nm], 'real')
        c.assume(z3.And(aux['T'] > 0, aux['M'] > 0, aux['W'] >= 0, aux['p'] >= 1))
        aux['s1'], aux['s2'] = c.fresh_real('s1'), c.fresh_real('s2')
        s = stamp(Seq('list', [SV(aux['s1'], 'real'), SV(aux['s2'], 'real'), SV(aux['W'], 'real')]))
        arr = I.np.as_array(s)
        return [obj, arr], {}, aux

    def check(self, I, case, aux, out):
        P = I.ctx.prove
        I.real_axioms()
        P('returns', out.kind == 'return' and isinstance(out.value, NDArr))
        if out.kind != 'return':
            return
        f = out.value.fn
        T, Mv, W, p, s1, s2 = [aux[k] for k in ('T', 'M', 'W', 'p', 's1', 's2')]
        spec = lambda s: T * M.exp10(-(Mv - W)) * (M.exp10(s - W) - (p * p) * M.exp10(-(s - W) / p) + p * p - 1)
        P('published-biexponential-equation', z3.And(f(z3.IntVal(0)) == spec(s1), f(z3.IntVal(1)) == spec(s2)))
        P('display-value-W-maps-to-data-value-0', f(z3.IntVal(2)) == 0)
        P('strictly-increasing-in-the-display-coordinate', z3.Implies(s1 < s2, f(z3.IntVal(0)) < f(z3.IntVal(1))))


CONTRACTS = [LogicleInit(), LogicleTransformFn()]
