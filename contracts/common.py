"""Helpers shared by the sidecar contracts: symbolic inputs and structural comparisons."""
import z3

from pyvc.values import SV, Seq, SymSeq, NDArr, PDict, SymDict, Opaque, Inf, NT, OptVal
from pyvc.interp import stamp
from pyvc.ctx import Unsupported, PathAbort

ZSORT = {'bool': z3.BoolSort(), 'int': z3.IntSort(), 'uint': z3.IntSort(), 'float': z3.RealSort()}


def sym_array(I, name, shape, dtype='float', cls='ndarray'):
    """fresh array with uninterpreted content"""
    f = I.ctx.fresh_fn(name, *([z3.IntSort()] * len(shape) + [ZSORT[dtype]]))
    a = stamp(NDArr([s if isinstance(s, int) else s for s in shape], dtype, lambda *idx, f=f: f(*idx), cls))
    a.ufn = f
    a.name = name
    return a


def sym_dims(I, *names):
    out = []
    for n in names:
        v = I.ctx.fresh_int(n)
        I.ctx.assume(v >= 0)
        out.append(v)
    return out


class FcsMeta(object):
    """uninterpreted per-channel metadata of a symbolic FCSData instance"""

    def __init__(self, I, name, D):
        c = I.ctx
        S, Z, R, B = z3.StringSort(), z3.IntSort(), z3.RealSort(), z3.BoolSort()
        self.D = D
        self.chan = c.fresh_fn(name + '_chan', Z, S)
        self.at_none = c.fresh_fn(name + '_at_none', Z, B)
        self.at0 = c.fresh_fn(name + '_at0', Z, R)
        self.at1 = c.fresh_fn(name + '_at1', Z, R)
        self.dv_none = c.fresh_fn(name + '_dv_none', Z, B)
        self.dv = c.fresh_fn(name + '_dv', Z, R)
        self.ag_none = c.fresh_fn(name + '_ag_none', Z, B)
        self.ag = c.fresh_fn(name + '_ag', Z, R)
        self.lab_none = c.fresh_fn(name + '_lab_none', Z, B)
        self.lab = c.fresh_fn(name + '_lab', Z, S)
        self.rng_none = c.fresh_fn(name + '_rng_none', Z, B)
        self.lo = c.fresh_fn(name + '_lo', Z, R)
        self.hi = c.fresh_fn(name + '_hi', Z, R)
        self.res = c.fresh_fn(name + '_res', Z, Z)


def sym_fcs(I, name, N, D, dtype='float', range_never_none=True, distinct_names=True):
    """A symbolic FCSData instance in an arbitrary reachable state: N x D events with uninterpreted
    values and uninterpreted per-channel metadata of length D (attribute set = the attributes that
    FCSData.__new__ assigns)."""
    a = sym_array(I, name, [N, D], dtype, 'FCSData')
    m = FcsMeta(I, name, D)
    a.meta = m
    c = I.ctx
    Dz = D if not isinstance(D, int) else z3.IntVal(D)
    cache = {}

    def opt(nonef, mk):
        def fn(I_, i, nonef=nonef, mk=mk):
            facts = getattr(a, 'elem_facts', None)
            if facts is not None and not I_.ctx.quant_mode:
                I_.ctx.assume(facts(i))       # instance of a quantified precondition at the entry being read
            if nonef is None:
                return mk(I_, i)
            return OptVal(nonef(i), mk(I_, i))     # deferred: no fork unless the entry is inspected
        return fn

    def rng_cell(I_, i):
        key = z3.simplify(i).get_id()
        if key not in cache:
            cell = stamp(Seq('list', [SV(m.lo(i), 'real'), SV(m.hi(i), 'real')]))
            cell.birth = a.birth
            cell.origin = (a.attrs['_range'], SV(z3.simplify(i), 'int'))
            cell.owner = a
            cache[key] = cell
        return cache[key]

    def tup(kind, fn):
        s = stamp(SymSeq(kind, D, fn))
        s.birth = a.birth
        return s
    a.attrs = {
        '_infile': SV(c.fresh_str(name + '_infile'), 'str'),
        '_text': SymDict(z3.Array(c.fresh_name(name + '_text_has'), z3.StringSort(), z3.BoolSort()),
                         z3.Array(c.fresh_name(name + '_text_val'), z3.StringSort(), z3.StringSort()), name + '_text'),
        '_analysis': SymDict(z3.Array(c.fresh_name(name + '_an_has'), z3.StringSort(), z3.BoolSort()),
                             z3.Array(c.fresh_name(name + '_an_val'), z3.StringSort(), z3.StringSort()), name + '_analysis'),
        '_data_type': SV(c.fresh_str(name + '_datatype'), 'str'),
        '_time_step': Opaque('value', name + '_time_step'),
        '_acquisition_start_time': Opaque('value', name + '_start'),
        '_acquisition_end_time': Opaque('value', name + '_end'),
        '_channels': tup('tuple', lambda I_, i: SV(m.chan(i), 'str')),
        '_amplification_type': tup('tuple', opt(m.at_none, lambda I_, i: stamp(Seq('tuple', [SV(m.at0(i), 'real'), SV(m.at1(i), 'real')])))),
        '_detector_voltage': tup('tuple', opt(m.dv_none, lambda I_, i: SV(m.dv(i), 'real'))),
        '_amplifier_gain': tup('tuple', opt(m.ag_none, lambda I_, i: SV(m.ag(i), 'real'))),
        '_channel_labels': tup('tuple', opt(m.lab_none, lambda I_, i: SV(m.lab(i), 'str'))),
        '_range': tup('list', opt(None if range_never_none else m.rng_none, rng_cell)),
        '_resolution': tup('tuple', opt(None, lambda I_, i: SV(m.res(i), 'int'))),
    }
    a.attrs['_range'].elem_token = ('range-cells', name)
    for v in a.attrs.values():
        if hasattr(v, 'birth'):
            v.birth = a.birth
    if distinct_names:
        i, j = z3.Ints('dn_i dn_j')
        c.assume(z3.ForAll([i, j], z3.Implies(z3.And(0 <= i, i < j, j < Dz), m.chan(i) != m.chan(j)),
                           patterns=[z3.MultiPattern(m.chan(i), m.chan(j))]))
    return a


FCS_ATTRS = ['_infile', '_text', '_analysis', '_data_type', '_time_step', '_acquisition_start_time',
             '_acquisition_end_time', '_channels', '_amplification_type', '_detector_voltage', '_amplifier_gain',
             '_channel_labels', '_range', '_resolution']
PER_CHANNEL = ['_channels', '_amplification_type', '_detector_voltage', '_amplifier_gain', '_channel_labels',
               '_range', '_resolution']


def struct_eq(I, a, b, depth=0):
    """z3 Bool (or python bool): a and b are structurally equal values (identity ignored).
    Symbolic sequences are compared at a fresh index (sound for goals: the index is arbitrary)."""
    if isinstance(a, OptVal) or isinstance(b, OptVal):
        na = a.isnone if isinstance(a, OptVal) else z3.BoolVal(a is None)
        nb = b.isnone if isinstance(b, OptVal) else z3.BoolVal(b is None)
        va = a.val if isinstance(a, OptVal) else a
        vb = b.val if isinstance(b, OptVal) else b
        if va is None or vb is None:
            return z3.And(na, nb) if (va is None and vb is None) else z3.And(na == nb, na)
        inner = struct_eq(I, va, vb, depth + 1)
        return z3.And(na == nb, z3.Implies(z3.Not(na), zb(inner)))
    if a is None or b is None:
        return a is None and b is None
    if isinstance(a, Opaque) or isinstance(b, Opaque):
        if not (isinstance(a, Opaque) and isinstance(b, Opaque) and a.tag == b.tag):
            return False
        if isinstance(a.payload, z3.ExprRef) and isinstance(b.payload, z3.ExprRef):
            return a.payload == b.payload
        return a.payload is b.payload or (not isinstance(a.payload, z3.ExprRef) and not isinstance(b.payload, z3.ExprRef) and a.payload == b.payload)
    if isinstance(a, Inf) or isinstance(b, Inf):
        return isinstance(a, Inf) and isinstance(b, Inf) and a.sign == b.sign
    if isinstance(a, SymDict) or isinstance(b, SymDict):
        if not (isinstance(a, SymDict) and isinstance(b, SymDict)):
            return False
        if a.overlay.keys or b.overlay.keys:
            if len(a.overlay.keys) != len(b.overlay.keys):
                return False
            acc = True
            for k_, v_ in zip(a.overlay.keys, a.overlay.vals):
                i = b.overlay.find(k_)
                if i < 0:
                    return False
                acc = conj(acc, struct_eq(I, v_, b.overlay.vals[i], depth + 1))
            return conj(acc, z3.And(a.present == b.present, a.val == b.val))
        return z3.And(a.present == b.present, a.val == b.val)
    sa, sb = isinstance(a, (Seq, SymSeq)), isinstance(b, (Seq, SymSeq))
    if sa != sb:
        return False
    if sa:
        if a.kind != b.kind:
            return False
        na, nb = I.seq_len(a), I.seq_len(b)
        if isinstance(na, int) and isinstance(nb, int):
            if na != nb:
                return False
            acc = True
            for k in range(na):
                acc = conj(acc, struct_eq(I, I.seq_get_sym(a, z3.IntVal(k)), I.seq_get_sym(b, z3.IntVal(k)), depth + 1))
            return acc
        leq = I.z(na, 'int') == I.z(nb, 'int')
        if not I.ctx.feasible(leq):
            return False
        k = I.ctx.fresh_int('seq_k')
        # arbitrary in-range index; outside the range nothing is claimed
        inr = z3.And(0 <= k, k < I.z(na, 'int'), leq)
        if not I.ctx.branch(inr):
            return leq
        ea = I.seq_get_sym(a, k)
        eb = I.seq_get_sym(b, k)
        return conj(leq, struct_eq(I, ea, eb, depth + 1))
    if isinstance(a, NT) and isinstance(b, NT):
        return struct_eq(I, Seq('tuple', a.values), Seq('tuple', b.values), depth + 1)
    if isinstance(a, PDict) and isinstance(b, PDict):
        r = I.equals(a, b)
        return r if isinstance(r, bool) else r.z
    ka, kb = I.kind(a), I.kind(b)
    num = ('int', 'real', 'bool')
    if ka in num and kb in num:
        if (ka == 'real') != (kb == 'real'):
            return False          # int vs float: different Python values for our purposes
        r = I.equals(a, b)
        return r if isinstance(r, bool) else r.z
    if ka == 'str' and kb == 'str':
        r = I.equals(a, b)
        return r if isinstance(r, bool) else r.z
    if ka != kb:
        return False
    raise Unsupported('struct_eq on %s' % ka)


def conj(a, b):
    if a is False or b is False:
        return False
    if a is True:
        return b
    if b is True:
        return a
    return z3.And(a, b)


def zb(x):
    return z3.BoolVal(x) if isinstance(x, bool) else x


def arrays_equal(I, a, b):
    """forall indices: a == b (shapes must already be known equal)"""
    idx = [z3.Int('eq_i%d' % d) for d in range(a.ndim)]
    rng = [z3.And(0 <= i, i < (z3.IntVal(s) if isinstance(s, int) else s)) for i, s in zip(idx, a.shape)]
    body = a.fn(*idx) == b.fn(*idx)
    if not idx:
        return body
    return z3.ForAll(idx, z3.Implies(z3.And(*rng), body))


def shape_eq(a_shape, b_shape):
    if len(a_shape) != len(b_shape):
        return z3.BoolVal(False)
    cs = []
    for x, y in zip(a_shape, b_shape):
        xz = z3.IntVal(x) if isinstance(x, int) else x
        yz = z3.IntVal(y) if isinstance(y, int) else y
        cs.append(xz == yz)
    return z3.And(*cs) if cs else z3.BoolVal(True)


# ---------------------------------------------------------------------------------------------
# counter-model -> concrete inputs
def mval(model, e):
    """python value of a term in a model: int, bool, str, or 'p/q' string for rationals"""
    if isinstance(e, (int, bool, str)) or e is None:
        return e
    if isinstance(e, SV):
        e = e.z
    v = model.eval(e, model_completion=True)
    if z3.is_int_value(v):
        return v.as_long()
    if z3.is_rational_value(v):
        n, d = v.numerator_as_long(), v.denominator_as_long()
        return n if d == 1 else '%d/%d' % (n, d)
    if z3.is_true(v):
        return True
    if z3.is_false(v):
        return False
    if z3.is_string_value(v):
        return v.as_string()
    if z3.is_algebraic_value(v):
        return str(v.approx(12)).rstrip('?')
    return str(v)


def array_witness(model, arr, cap=40):
    shape = [mval(model, s) for s in arr.shape]
    if any((not isinstance(s, int)) or s > cap for s in shape):
        return None, shape
    f = getattr(arr, 'ufn', None)       # the contents as handed in
    if f is None:
        f = arr.fn
    if len(shape) == 1:
        return [mval(model, f(z3.IntVal(i))) for i in range(shape[0])], shape
    return [[mval(model, f(z3.IntVal(i), z3.IntVal(j))) for j in range(shape[1])] for i in range(shape[0])], shape


def meta_witness(model, data, D):
    m = data.meta
    if not isinstance(D, int) or D > 40:
        return None

    def opt(nonef, f):
        return [None if (nonef is not None and mval(model, nonef(z3.IntVal(i)))) else f(i) for i in range(D)]
    names = [mval(model, m.chan(z3.IntVal(i))) for i in range(D)]
    # distinct, printable names (the model's strings may contain arbitrary code points)
    safe = []
    for i, n in enumerate(names):
        s = ''.join(ch if 32 < ord(ch) < 127 and ch not in '/\\' else '_' for ch in str(n)) or 'c'
        while s in safe:
            s += '_%d' % i
        safe.append(s)
    return {
        'channels': safe,
        'range': opt(getattr(data, 'rng_none_used', None) and m.rng_none, lambda i: [mval(model, m.lo(z3.IntVal(i))), mval(model, m.hi(z3.IntVal(i)))]),
        'amplification_type': opt(m.at_none, lambda i: [mval(model, m.at0(z3.IntVal(i))), mval(model, m.at1(z3.IntVal(i)))]),
        'amplifier_gain': opt(m.ag_none, lambda i: mval(model, m.ag(z3.IntVal(i)))),
        'detector_voltage': opt(m.dv_none, lambda i: mval(model, m.dv(z3.IntVal(i)))),
        'resolution': [mval(model, m.res(z3.IntVal(i))) for i in range(D)],
    }


def data_witness(model, data, container, cap=40):
    rows, shape = array_witness(model, data, cap)
    w = {'container': container, 'ndim': len(shape), 'data': rows, 'shape': shape}
    if container == 'FCSData' and rows is not None:
        w['meta'] = meta_witness(model, data, shape[1])
    return w


def cell3(I, seq, c):
    """(isnone, lo, hi) terms of entry c of a per-channel range list, without forking (overlays -> ite chain)"""
    base = seq.fn(I, c) if isinstance(seq, SymSeq) else None
    if isinstance(seq, Seq):
        items = [cell_of(I, x) for x in seq.items]
        n_, lo_, hi_ = items[-1]
        for k in range(len(items) - 2, -1, -1):
            n_, lo_, hi_ = z3.If(c == k, items[k][0], n_), z3.If(c == k, items[k][1], lo_), z3.If(c == k, items[k][2], hi_)
        return n_, lo_, hi_
    n_, lo_, hi_ = cell_of(I, base)
    for (oi, ov) in seq.overlays:
        on, ol, oh = cell_of(I, ov)
        hit = I.z(oi, 'int') == c
        n_, lo_, hi_ = z3.If(hit, on, n_), z3.If(hit, ol, lo_), z3.If(hit, oh, hi_)
    return n_, lo_, hi_


def cell_of(I, v):
    if isinstance(v, OptVal):
        n_, lo_, hi_ = cell_of(I, v.val)
        return z3.Or(v.isnone, n_), lo_, hi_
    if v is None:
        return z3.BoolVal(True), z3.RealVal(0), z3.RealVal(0)
    if isinstance(v, Seq) and len(v.items) == 2:
        return z3.BoolVal(False), I.z(v.items[0], 'real'), I.z(v.items[1], 'real')
    raise Unsupported('range cell of unexpected shape: %r' % (v,))


def fresh_range(I, name, D):
    """a per-channel range list with fresh uninterpreted content"""
    c = I.ctx
    none = c.fresh_fn(name + '_none', z3.IntSort(), z3.BoolSort())
    lo = c.fresh_fn(name + '_lo', z3.IntSort(), z3.RealSort())
    hi = c.fresh_fn(name + '_hi', z3.IntSort(), z3.RealSort())
    s = stamp(SymSeq('list', D, lambda I_, i: OptVal(none(i), stamp(Seq('list', [SV(lo(i), 'real'), SV(hi(i), 'real')])))))
    s.elem_token = ('range-cells', name)
    return s
