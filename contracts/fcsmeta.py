"""Contract for FCSData.__new__ (C17): derived attributes reflect the keywords; optional keywords never block loading."""
import z3

from pyvc.verify import Contract
from pyvc.values import SV, Seq, SymSeq, NDArr, Opaque, Builtin, Obj, OptVal, NT
from pyvc.interp import stamp, raise_py
from pyvc import pybuiltins as PB
from pyvc import dtmodel as DT
from .common import sym_array, sym_dims, struct_eq, mval, cell3
from .fcsio import sym_text, HDR

S = z3.StringVal
R, Z = z3.RealSort(), z3.IntSort()
PE0 = z3.Function('PnE_field0', z3.StringSort(), z3.StringSort())
PE1 = z3.Function('PnE_field1', z3.StringSort(), z3.StringSort())
TIME_OK = z3.Function('parse_time_ok', z3.StringSort(), z3.BoolSort())
PTIME = z3.Function('parse_time', z3.StringSort(), Z)
DATE_OK = z3.Function('parse_date_ok', z3.StringSort(), z3.BoolSort())
PDATE = z3.Function('parse_date', z3.StringSort(), Z)


class NewSample(Contract):
    target = 'FlowCal.io.FCSData.__new__'
    property_ids = ('C17',)
    assumptions = ('C17: required keywords are present and well-formed ($PAR, $PnR numeric; $PnE, when present, has two numeric fields); '
                   'FCSFile(infile) is summarised by its contract (text/data/analysis uninterpreted)',
                   'A-STR/A-LIB: float(str), int(str), strptime are partial uninterpreted functions (ValueError outside their domain); '
                   'split(":") count/pieces uninterpreted; the 4-field time string is re-joined into an opaque string (its value is '
                   'checked by the bounded stand-in only)')
    max_paths = 4000
    max_decisions = 800
    branch_timeout_ms = 1500

    def cases(self):
        import os
        cs = [{'label': 'times:any-keyword-map', 'focus': 'times'},
              {'label': 'channels:no-optional-time-keywords', 'focus': 'channels'}]
        if os.environ.get('VERIF_TIER') == 'thorough' or os.environ.get('PYVC_FULL'):
            cs.append({'label': 'full:any-keyword-map', 'focus': 'full'})
        return cs

    def setup(self, I, case):
        c = I.ctx
        text = sym_text(I, 'text')
        if case.get('focus') == 'channels':
            # the per-channel derivations are checked on files without the optional time keywords (the channel loops do not
            # read them); the full product time-keywords x channel-keywords runs in the thorough tier (case 'full')
            for kw in ('$TIMESTEP', 'TIMETICKS', '$DATE', '$BTIM', '$ETIM'):
                c.assume(z3.Not(z3.Select(text.present, S(kw))))
        N, D = sym_dims(I, 'N', 'D')
        data = sym_array(I, 'events', [N, D], 'float')
        analysis = sym_text(I, 'analysis')
        aux = {'text': text, 'data': data, 'N': N, 'D': D, 'analysis': analysis}
        # required keywords
        par = z3.Select(text.val, S('$PAR'))
        c.assume(z3.And(z3.Select(text.present, S('$PAR')), PB.int_ok(par), PB.int_val(par) == D))
        p = z3.Int('req_p')
        keyR = PB.fmt_fn(I, '$P\x00R', p).z
        keyE = PB.fmt_fn(I, '$P\x00E', p).z
        inr = z3.And(1 <= p, p <= D)
        c.assume(z3.ForAll([p], z3.Implies(inr, z3.And(z3.Select(text.present, keyR), PB.float_ok(z3.Select(text.val, keyR))))))
        pe = z3.Select(text.val, keyE)
        c.assume(z3.ForAll([p], z3.Implies(z3.And(inr, z3.Select(text.present, keyE)),
                                           z3.And(PB.float_ok(PE0(pe)), PB.float_ok(PE1(pe))))))

        def s_init(I_, a, k):
            o = a[0]
            o.attrs.update({'_infile': a[1], '_text': text, '_data': data, '_analysis': analysis,
                            '_header': NT(HDR, [SV(I_.ctx.fresh_str('version'), 'str')] + [0] * 6)})
            return None

        split_hook = self.make_split_hook()
        if False:
          def split_hook(I_, s_, a, kw):
            if a and a[0] == ',':
                sz = I_.z(s_)
                return stamp(Seq('list', [SV(PE0(sz), 'str'), SV(PE1(sz), 'str')]))
            sep = I_.z(a[0]) if a else S(' ')
            cnt = z3.Function('split_count', z3.StringSort(), z3.StringSort(), Z)
            piece = z3.Function('split_piece', z3.StringSort(), z3.StringSort(), Z, z3.StringSort())
            n = cnt(I_.z(s_), sep)
            I_.ctx.assume(n >= 1)
            sz = I_.z(s_)
            # small counts are materialised (the code inspects pieces 2 and 3 and re-joins the list)
            for kk in (3, 4):
                if I_.ctx.branch(n == kk):
                    return stamp(Seq('list', [SV(piece(sz, sep, z3.IntVal(i)), 'str') for i in range(kk)]))
            return stamp(SymSeq('list', I_.mk(n, 'int'), lambda I2, i: I2.mk(piece(sz, sep, i), 'str')))
        def s_time(I_, a, k):
            ts = I_.force(a[-1])
            if ts is None:
                return None
            tz = I_.z(ts)
            return OptVal(z3.Not(TIME_OK(tz)), Opaque('time', PTIME(tz)))

        def s_date(I_, a, k):
            ds = I_.force(a[-1])
            if ds is None:
                return None
            dz = I_.z(ds)
            return OptVal(z3.Not(DATE_OK(dz)), Opaque('datetime', PDATE(dz)))
        self.config = {'call_contracts': {'FlowCal.io.FCSFile.__init__': s_init,
                                          'FlowCal.io.FCSData._parse_time_string': s_time,
                                          'FlowCal.io.FCSData._parse_date_string': s_date}, 'split_hook': split_hook}
        I.config.update(self.config)
        I.call_contracts = self.config['call_contracts']
        env = I.module_env('FlowCal.io')
        infile = SV(c.fresh_str('infile'), 'str')
        aux['infile'] = infile
        return [env['FCSData'], infile], {}, aux

    def make_split_hook(self):
        def split_hook(I_, s_, a, kw):
            if a and a[0] == ',':
                sz = I_.z(s_)
                return stamp(Seq('list', [SV(PE0(sz), 'str'), SV(PE1(sz), 'str')]))
            sep = I_.z(a[0]) if a else S(' ')
            cnt = z3.Function('split_count', z3.StringSort(), z3.StringSort(), Z)
            piece = z3.Function('split_piece', z3.StringSort(), z3.StringSort(), Z, z3.StringSort())
            n = cnt(I_.z(s_), sep)
            I_.ctx.assume(n >= 1)
            sz = I_.z(s_)
            for kk in (3, 4):
                if I_.ctx.branch(n == kk):
                    return stamp(Seq('list', [SV(piece(sz, sep, z3.IntVal(i)), 'str') for i in range(kk)]))
            return stamp(SymSeq('list', I_.mk(n, 'int'), lambda I2, i: I2.mk(piece(sz, sep, i), 'str')))
        return split_hook

    def setup_hooks(self, I):
        cfg = {'split_hook': self.make_split_hook()}
        I.config.update(cfg)

    def expected_outcomes(self, case):
        return ['return']

    def check(self, I, case, aux, out):
        P = I.ctx.prove
        text, D = aux['text'], aux['D']
        P('loading-never-raises-for-any-optional-keyword-content', out.kind == 'return')
        if out.kind != 'return':
            return
        obj = out.value
        ok = isinstance(obj, NDArr) and obj.cls == 'FCSData'
        P('result-is-a-sample', ok)
        if not ok:
            return
        at = obj.attrs
        has = lambda key: z3.Select(text.present, key if not isinstance(key, str) else S(key))
        val = lambda key: z3.Select(text.val, key if not isinstance(key, str) else S(key))
        # --- time step: $TIMESTEP, else TIMETICKS/1000, unparseable or absent -> None
        ts = at.get('_time_step')
        spec_none = z3.If(has('$TIMESTEP'), z3.Not(PB.float_ok(val('$TIMESTEP'))),
                          z3.If(has('TIMETICKS'), z3.Not(PB.float_ok(val('TIMETICKS'))), z3.BoolVal(True)))
        spec_val = z3.If(has('$TIMESTEP'), PB.float_val(val('$TIMESTEP')), PB.float_val(val('TIMETICKS')) / 1000)
        if ts is None:
            P('time-step-absent-only-when-missing-or-unparseable', spec_none)
        else:
            P('time-step-is-$TIMESTEP-else-TIMETICKS/1000', z3.And(z3.Not(spec_none), I.z(ts, 'real') == spec_val))
        # --- data type
        I.prove_forked('data-type-is-$DATATYPE', lambda: struct_eq(I, at.get('_data_type'), OptVal(z3.Not(has('$DATATYPE')), SV(val('$DATATYPE'), 'str'))))
        P('events-are-the-file-events', obj.root() is aux['data'] or obj.view_of is aux['data'])
        P('keywords-and-analysis-kept', at.get('_text') is text and at.get('_analysis') is aux['analysis'] and at.get('_infile') is aux['infile'])
        focus = case.get('focus', 'full')
        if focus in ('times', 'full'):
            self.check_times(I, aux, at, has, val)
        if focus == 'times':
            return
        # --- per channel attributes for an arbitrary channel i
        i = I.ctx.fresh_int('chan_i')
        inr = z3.And(0 <= i, i < D)
        key = lambda t: PB.fmt_fn(I, t, i + 1).z
        for name in ('_channels', '_channel_labels', '_range', '_resolution', '_detector_voltage', '_amplifier_gain', '_amplification_type'):
            seq = at.get(name)
            okseq = isinstance(seq, (Seq, SymSeq))
            P('one-entry-per-parameter.' + name, okseq and zlen(I, seq) == z3.If(D < 0, 0, D))
        I.ctx.assume(inr)

        def elem(name):
            return I.seq_get_sym(at[name], i)
        I.prove_forked('channel-name-is-$PnN', lambda: struct_eq(I, elem('_channels'), OptVal(z3.Not(has(key('$P\x00N'))), SV(val(key('$P\x00N')), 'str'))))
        I.prove_forked('channel-label-is-$PnS', lambda: struct_eq(I, elem('_channel_labels'), OptVal(z3.Not(has(key('$P\x00S'))), SV(val(key('$P\x00S')), 'str'))))
        Rv = PB.float_val(val(key('$P\x00R')))
        I.prove_forked('range-is-[0,R-1]', lambda: struct_eq(I, elem('_range'), stamp(Seq('list', [I.real(0.0), SV(Rv - 1, 'real')]))))
        I.prove_forked('resolution-is-int(R)', lambda: struct_eq(I, elem('_resolution'), SV(z3.If(Rv >= 0, z3.ToInt(Rv), -z3.ToInt(-Rv)), 'int')))
        # amplification type: parsed $PnE with the non-standard zero offset of a log amplifier read as one
        pe = val(key('$P\x00E'))
        a0, a1 = PB.float_val(PE0(pe)), PB.float_val(PE1(pe))
        I.prove_forked('amplification-type-is-$PnE(with a1=0 read as 1 for log amplifiers)',
                       lambda: struct_eq(I, elem('_amplification_type'),
                                         OptVal(z3.Not(has(key('$P\x00E'))),
                                                stamp(Seq('tuple', [SV(a0, 'real'), SV(z3.If(z3.And(a0 != 0, a1 == 0), z3.RealVal(1), a1), 'real')])))))
        # voltage: $PnV, else BD$WORD{12+i} iff CREATOR contains 'CellQuest Pro'; unparseable -> None
        creator_has = lambda sub: z3.And(has('CREATOR'), z3.Contains(val('CREATOR'), S(sub)))
        kv = key('$P\x00V')
        kbd = PB.fmt_fn(I, 'BD$WORD\x00', 12 + (i + 1)).z
        src_present = z3.If(has(kv), z3.BoolVal(True), z3.And(creator_has('CellQuest Pro'), has(kbd)))
        src_val = z3.If(has(kv), val(kv), val(kbd))
        I.prove_forked('detector-voltage-from-$PnV-or-the-CellQuest-fallback',
                       lambda: struct_eq(I, elem('_detector_voltage'),
                                         OptVal(z3.Not(z3.And(src_present, PB.float_ok(src_val))), SV(PB.float_val(src_val), 'real'))))
        kg = key('$P\x00G')
        kcy = PB.fmt_fn(I, 'CytekP\x0002dG', i + 1).z
        gsrc_present = z3.If(has(kg), z3.BoolVal(True), z3.And(creator_has('FlowJoCollectorsEdition'), has(kcy)))
        gsrc_val = z3.If(has(kg), val(kg), val(kcy))
        I.prove_forked('amplifier-gain-from-$PnG-or-the-Cytek-fallback',
                       lambda: struct_eq(I, elem('_amplifier_gain'),
                                         OptVal(z3.Not(z3.And(gsrc_present, PB.float_ok(gsrc_val))), SV(PB.float_val(gsrc_val), 'real'))))
    def check_times(self, I, aux, at, has, val):
        P = I.ctx.prove
        # start / end times: absent or unparseable -> None; combined with the date iff a date parsed
        date_ok = z3.And(has('$DATE'), DATE_OK(val('$DATE')))
        for nm, kw in (('_acquisition_start_time', '$BTIM'), ('_acquisition_end_time', '$ETIM')):
            v = I.force(at.get(nm))
            t_ok = z3.And(has(kw), TIME_OK(val(kw)))
            if v is None:
                P('%s-absent-only-when-missing-or-unparseable' % nm, z3.Not(t_ok))
                continue
            okv = isinstance(v, Opaque) and v.tag in ('time', 'datetime')
            P('%s-is-a-time-or-datetime' % nm, okv)
            if not okv:
                continue
            tm = PTIME(val(kw))
            if v.tag == 'datetime':
                P('%s-combined-with-the-parsed-date' % nm, z3.And(t_ok, date_ok, v.payload == DT.COMBINE(PDATE(val('$DATE')), tm)))
            else:
                P('%s-is-the-parsed-time-when-no-date-parsed' % nm, z3.And(t_ok, z3.Not(date_ok), v.payload == tm))


def zlen(I, seq):
    return I.z(I.seq_len(seq), 'int')


class ParseTime(Contract):
    """_parse_time_string never raises: a time in one of the three formats, else None"""
    target = 'FlowCal.io.FCSData._parse_time_string'
    property_ids = ('C17',)
    fn_name = 'time'

    def cases(self):
        return [{'label': 'none'}, {'label': 'any-string'}]

    def setup(self, I, case):
        ns = NewSample()
        ns.setup_hooks(I)
        s_ = None if case['label'] == 'none' else SV(I.ctx.fresh_str('time_str'), 'str')
        return [s_], {}, {'s': s_}

    def witness(self, model, case, aux):
        return {'clause': 'formats', 'fn': self.fn_name}

    def check(self, I, case, aux, out):
        P = I.ctx.prove
        P('never-raises', out.kind == 'return')
        if out.kind != 'return':
            return
        v = out.value
        if case['label'] == 'none':
            P('None-for-a-missing-keyword', v is None)
            return
        want = 'time' if self.fn_name == 'time' else 'datetime'
        P('result-is-None-or-a-%s' % want, v is None or (isinstance(v, Opaque) and v.tag == want))
        if self.fn_name != 'time' or v is None or not isinstance(v, Opaque):
            return
        # value clauses (from the property: hh:mm:ss, hh:mm:ss.cc, hh:mm:ss:tt with tt in 1/60 s), phrased with the same
        # uninterpreted split/strptime symbols
        sz = aux['s'].z
        sep = S(':')
        cnt = z3.Function('split_count', z3.StringSort(), z3.StringSort(), Z)
        piece = z3.Function('split_piece', z3.StringSort(), z3.StringSort(), Z, z3.StringSort())
        n = cnt(sz, sep)
        fmt = S('%H:%M:%S:%f')
        p = [piece(sz, sep, z3.IntVal(k)) for k in range(4)]
        tt = PB.float_val(p[3]) * 1000000 / 60
        micro = z3.If(tt >= 0, z3.ToInt(tt), -z3.ToInt(-tt))
        four = z3.Concat(p[0], sep, p[1], sep, p[2], sep, PB.fmt_fn(I, '\x0006d', micro).z)
        P('four-field-format:tt-is-sixtieths-of-a-second(zero-padded-microseconds)',
          z3.Implies(z3.And(n == 4, micro >= 0), v.payload == DT.TIME_OF(DT.STRP(four, fmt))))
        P('three-field-format-without-fraction:appends-zero-microseconds',
          z3.Implies(z3.And(n == 3, z3.Not(z3.Contains(p[2], S('.')))), v.payload == DT.TIME_OF(DT.STRP(z3.Concat(sz, S(':0')), fmt))))


class ParseDate(ParseTime):
    target = 'FlowCal.io.FCSData._parse_date_string'
    fn_name = 'date'


CONTRACTS = [NewSample(), ParseTime(), ParseDate()]


class AcquisitionTime(Contract):
    """acquisition_time: from the time channel when it and a time step exist, else from start/end times, else None;
    raises only for two time channels (bounded in the number of channels: D = 1..3, everything else symbolic)"""
    target = 'FlowCal.io.FCSData.acquisition_time'
    property_ids = ('C17',)
    assumptions = ('acquisition_time: proved for D = 1, 2, 3 channels (the comprehension that finds the time channel filters a '
                   'sequence; the engine needs a concrete length for filters); A-STR: str.lower uninterpreted',)
    frame_result = None

    def cases(self):
        out = []
        for D in (1, 2, 3):
            for ts in ('none', 'given'):
                for times in ('none', 'time', 'datetime', 'start-only'):
                    out.append({'label': 'D=%d,timestep=%s,times=%s' % (D, ts, times), 'D': D, 'ts': ts, 'times': times})
        return out

    def setup(self, I, case):
        from .common import sym_fcs
        c = I.ctx
        N = c.fresh_int('N')
        c.assume(N >= 1)
        D = case['D']
        data = sym_fcs(I, 'data', N, D)
        names = [SV(c.fresh_str('name%d' % k), 'str') for k in range(D)]
        for a in range(D):
            for b in range(a + 1, D):
                c.assume(names[a].z != names[b].z)
        data.attrs['_channels'] = stamp(Seq('tuple', names))
        aux = {'data': data, 'N': N, 'D': D, 'names': names}
        if case['ts'] == 'given':
            aux['ts'] = c.fresh_real('time_step')
            data.attrs['_time_step'] = SV(aux['ts'], 'real')
        else:
            data.attrs['_time_step'] = None
        kind = case['times']
        if kind == 'none':
            s_, e_ = None, None
        elif kind == 'start-only':
            s_, e_ = Opaque('time', c.fresh_int('t_start')), None
        else:
            tag = 'time' if kind == 'time' else 'datetime'
            s_, e_ = Opaque(tag, c.fresh_int('t_start')), Opaque(tag, c.fresh_int('t_end'))
        data.attrs['_acquisition_start_time'], data.attrs['_acquisition_end_time'] = s_, e_
        aux['s'], aux['e'] = s_, e_
        from . import io_specs
        self.config = {'call_contracts': io_specs.summaries()}
        I.call_contracts = self.config['call_contracts']
        I.config.update(self.config)
        # acquisition_time is a property: call the underlying function
        cls = I.fcs_class()
        fn = cls.members['acquisition_time']
        self._fn = fn
        return [data], {}, aux

    def expected_outcomes(self, case):
        return ['return']

    def check(self, I, case, aux, out):
        P = I.ctx.prove
        lower = z3.Function('str_lower', z3.StringSort(), z3.StringSort())
        is_time = [lower(n.z) == z3.StringVal('time') for n in aux['names']]
        count = z3.Sum([z3.If(b, 1, 0) for b in is_time])
        data = aux['data']
        if out.kind == 'raise':
            P('raises-only-for-two-time-channels', count > 1)
            P('refusal-class', out.raised('KeyError'))
            return
        P('returns-only-with-at-most-one-time-channel', count <= 1)
        v = out.value
        have_times = aux['s'] is not None and aux['e'] is not None
        from_channel = z3.And(count == 1, z3.BoolVal(case['ts'] == 'given'))
        if v is None:
            P('absent-only-without-usable-sources', z3.And(z3.Not(from_channel), z3.BoolVal(not have_times)))
            return
        vz = I.z(v, 'real')
        x = data.ufn
        N = aux['N']
        if case['ts'] == 'given':
            span = z3.Sum([z3.If(is_time[k], (x(N - 1, z3.IntVal(k)) - x(z3.IntVal(0), z3.IntVal(k))) * aux['ts'], z3.RealVal(0))
                           for k in range(aux['D'])])
        else:
            span = z3.RealVal(0)
        if have_times:
            sz, ez = aux['s'].payload, aux['e'].payload
            if aux['s'].tag == 'time':
                sz, ez = DT.COMBINE(DT.DATE_MIN, sz), DT.COMBINE(DT.DATE_MIN, ez)
            diff = DT.DIFF_SECONDS(ez, sz)
            P('time-channel-span-times-step-else-end-minus-start', vz == z3.If(from_channel, span, diff))
        else:
            P('time-channel-span-times-step', z3.And(from_channel, vz == span))


CONTRACTS.append(AcquisitionTime())
