"""Spec functions for FCSData helpers (used both as call-site summaries and as the reference the real
functions are verified against).  Helper specs (name resolution, accessors, finalize) are derived from
the code and its call sites; the property-level statements (C04: metadata follows the columns) are
written from the property text in `getitem_spec`.

A spec function runs on the engine's values, may fork the current path (ctx.branch) and raises
PyExc for the error outcomes.
"""
import z3

from pyvc.values import (SV, Seq, SymSeq, RangeV, NDArr, PDict, SymDict, Opaque, SliceV, EllipsisV, PyExc,
                         ExcObj, Inf, NT)
from pyvc.interp import stamp, raise_py, EXC
from pyvc.ctx import Unsupported, PathAbort
from pyvc import pybuiltins
from .common import FCS_ATTRS, PER_CHANNEL, struct_eq, conj


def is_listlike(I, v):
    """hasattr(v,'__iter__') and not a string"""
    return isinstance(v, (Seq, SymSeq, RangeV, NDArr)) and not (isinstance(v, NDArr) and v.ndim == 0)


def chan_term(I, chans, i):
    return I.z(I.pure_elem_nofork(chans, i), 'str')


def n_channels(I, data):
    return I.seq_len(I.np.ensure_attrs(data)['_channels'])


def elem_kind(I, seq):
    """kind shared by all elements of a symbolic sequence of scalars ('int'|'str'|...), by probing"""
    k = z3.Int('probe_k')
    v = I.pure_elem_nofork(seq, k)
    return I.kind(v), bool(getattr(v, 'np', False))


def n2i_spec(I, data, ch):
    """FCSData._name_to_index"""
    chans = I.np.ensure_attrs(data)['_channels']
    D = I.z(I.seq_len(chans), 'int')
    if isinstance(ch, NDArr):
        raise Unsupported('spec: array of channels')
    if isinstance(ch, RangeV):
        ch = I.range_to_symseq(ch) if not I.is_concrete_iter(ch) else Seq('list', I.iterate_concrete(ch))
    if isinstance(ch, Seq) or (isinstance(ch, SymSeq) and isinstance(ch.n, int)):
        items = ch.items if isinstance(ch, Seq) else I.iterate_concrete(ch)
        return stamp(Seq('list', [n2i_spec(I, data, x) for x in items]))
    if isinstance(ch, SymSeq):
        kind, isnp = elem_kind(I, ch)
        n = I.z(ch.n, 'int')
        k = I.ctx.fresh_int('n2i_k')
        v = I.z(I.pure_elem_nofork(ch, k))
        if kind == 'int' and not isnp:
            bad = z3.Not(z3.And(-D <= v, v < D))
            if I.ctx.branch(z3.Exists([k], z3.And(0 <= k, k < n, bad))):
                raise_py('ValueError', 'index out of range')
            I.ctx.assume(z3.ForAll([k], z3.Implies(z3.And(0 <= k, k < n), z3.Not(bad))))
            src = ch
            r = stamp(SymSeq('list', ch.n, lambda I_, i, src=src: I_.pure_elem_nofork(src, i)))
            return r
        if kind == 'str':
            # one resolution function per (name list, channel tuple): resolving the same list twice gives the same positions
            pk, pi = z3.Int('n2i_probe_k'), z3.Int('n2i_probe_i')
            ckey = (I.z(I.pure_elem_nofork(ch, pk)).sexpr(), chan_term(I, chans, pi).sexpr(), z3.simplify(n).sexpr())
            cache = getattr(I.ctx, '_n2i_cache', None)
            if cache is None:
                cache = I.ctx._n2i_cache = {}
            i = z3.Int('n2i_i')
            known = z3.Exists([i], z3.And(0 <= i, i < D, chan_term(I, chans, i) == v))
            if I.ctx.branch(z3.Exists([k], z3.And(0 <= k, k < n, z3.Not(known)))):
                raise_py('ValueError', 'not a valid channel name')
            if ckey in cache:
                idx = cache[ckey]
                return stamp(SymSeq('list', ch.n, lambda I_, i_, idx=idx: SV(idx(i_), 'int')))
            idx = I.ctx.fresh_fn('n2i_idx', z3.IntSort(), z3.IntSort())
            cache[ckey] = idx
            j = z3.Int('n2i_j')
            I.ctx.assume(z3.ForAll([k], z3.Implies(z3.And(0 <= k, k < n),
                                                   z3.And(0 <= idx(k), idx(k) < D, chan_term(I, chans, idx(k)) == v)),
                                   patterns=[idx(k)]))
            I.ctx.assume(z3.ForAll([k, j], z3.Implies(z3.And(0 <= k, k < n, 0 <= j, j < idx(k)),
                                                      chan_term(I, chans, j) != v)))
            return stamp(SymSeq('list', ch.n, lambda I_, i_, idx=idx: SV(idx(i_), 'int')))
        if I.ctx.branch(n > 0):
            raise_py('TypeError', 'input argument should be an integer, string or list of integers or strings')
        return stamp(Seq('list', []))
    kind = I.kind(ch)
    if kind == 'str':
        s = I.z(ch)
        i = z3.Int('n2i_i')
        if not I.ctx.branch(z3.Exists([i], z3.And(0 <= i, i < D, chan_term(I, chans, i) == s))):
            raise_py('ValueError', 'not a valid channel name')
        r = I.ctx.fresh_int('n2i_r')
        j = z3.Int('n2i_j')
        I.ctx.assume(z3.And(0 <= r, r < D, chan_term(I, chans, r) == s))
        I.ctx.assume(z3.ForAll([j], z3.Implies(z3.And(0 <= j, j < r), chan_term(I, chans, j) != s)))
        return I.mk(r, 'int')
    if kind == 'int' and not (isinstance(ch, SV) and ch.np):
        c = I.z(ch, 'int')
        if not I.ctx.branch(z3.And(c < D, c >= -D)):
            raise_py('ValueError', 'index out of range')
        return ch
    raise_py('TypeError', 'input argument should be an integer, string or list of integers or strings')


def accessor_spec(attr):
    """FCSData.range / resolution / amplification_type / amplifier_gain / detector_voltage / channel_labels"""
    def spec(I, data, channels=None):
        attrs = I.np.ensure_attrs(data)
        if channels is None:
            channels = attrs['_channels']
        idx = n2i_spec(I, data, channels)
        store = attrs[attr]
        if is_listlike(I, idx):
            return select_seq(I, store, idx, 'list')
        return I.index_seq(store, idx)
    return spec


def select_seq(I, store, idx, kind):
    """[store[i] for i in idx] as a sequence of kind `kind` (indices already validated)"""
    if isinstance(idx, Seq):
        # lazily: reading an element may fork (absent metadata), so do it only on demand
        idx = SymSeq('list', len(idx.items), lambda I_, k, src=idx: I_.seq_get_sym(src, k))
    if isinstance(idx, RangeV):
        idx = I.range_to_symseq(idx)

    def fn(I_, k, store=store, idx=idx):
        # positions were validated by the name/position resolution: no second range check here
        j = I_.z(I_.seq_get_sym(idx, k), 'int')
        n = I_.z(I_.seq_len(store), 'int')
        return I_.seq_get_sym(store, z3.simplify(z3.If(j < 0, j + n, j)))
    return stamp(SymSeq(kind, idx.n, fn))


def finalize_spec(I, new, obj):
    """FCSData.__array_finalize__: every attribute assigned in __new__ is carried over as a deep copy"""
    if obj is None:
        return None
    if not isinstance(obj, NDArr) or obj.cls != 'FCSData':
        new.attrs = {'_infile': None}
        return None
    src = I.np.ensure_attrs(obj)
    if new.attrs is None:
        new.attrs = {}
    for a in FCS_ATTRS:
        if a in src:
            new.attrs[a] = src[a] if a == '_infile' else pybuiltins.deepcopy(I, src[a], {})
        elif a == '_infile':
            new.attrs[a] = None
    return None


def cols_of(I, key_channel, D):
    """Column positions NumPy selects for an (already name-translated) channel key, as
    ('scalar', idx) | ('seq', SymSeq/Seq of ints) | ('slice', SliceV)."""
    if isinstance(key_channel, SliceV):
        return 'slice', key_channel
    if is_listlike(I, key_channel):
        return 'seq', key_channel
    return 'scalar', key_channel


def getitem_spec(I, data, key):
    """C04: values = plain array indexing with the translated column positions; per-channel metadata =
    that of the selected columns, in the selected order; a single value is a plain scalar."""
    attrs = I.np.ensure_attrs(data)
    two = isinstance(key, Seq) and key.kind == 'tuple' and len(key.items) == 2
    if two and key.items[0] is not None and key.items[1] is not None and not isinstance(key.items[1], EllipsisV):
        key_event, key_channel = key.items
        if not isinstance(key_channel, SliceV):
            key_channel = n2i_spec(I, data, key_channel)
        new = I.np.getitem(data, stamp(Seq('tuple', [key_event, key_channel])))
        if not isinstance(new, NDArr):
            return new
        na = I.np.ensure_attrs_with(new, lambda n, o: finalize_spec(I, n, o))
        form, kc = cols_of(I, key_channel, None)
        for a in PER_CHANNEL:
            kind = 'list' if a == '_range' else 'tuple'
            if form == 'seq':
                na[a] = select_seq(I, na[a], kc, kind)
            elif form == 'slice':
                na[a] = I.slice_seq(na[a], kc)
            else:
                na[a] = select_seq(I, na[a], stamp(SymSeq('list', 1, lambda I_, k_, kc=kc: kc)), kind)
        return new
    if two and (key.items[0] is None or key.items[1] is None):
        new = I.np.getitem(data, key)
        return I.np.m_view(new, I.np.table['numpy.ndarray'])
    new = I.np.getitem(data, key)
    if isinstance(new, NDArr):
        I.np.ensure_attrs_with(new, lambda n, o: finalize_spec(I, n, o))
    return new


def setitem_spec(I, data, key, item):
    two = isinstance(key, Seq) and key.kind == 'tuple' and len(key.items) == 2
    if two and key.items[0] is not None and key.items[1] is not None and not isinstance(key.items[1], EllipsisV):
        key_event, key_channel = key.items
        if not isinstance(key_channel, SliceV):
            key_channel = n2i_spec(I, data, key_channel)
        return I.np.setitem(data, stamp(Seq('tuple', [key_event, key_channel])), item)
    return I.np.setitem(data, key, item)


# ---------------------------------------------------------------------------------------------
# call-site summaries (modular verification: callers see only these contracts)
def summaries(*names):
    table = {
        'FlowCal.io.FCSData._name_to_index': lambda I, a, k: n2i_spec(I, a[0], a[1] if len(a) > 1 else k['channels']),
        'FlowCal.io.FCSData.__array_finalize__': lambda I, a, k: finalize_spec(I, a[0], a[1]),
        'FlowCal.io.FCSData.__getitem__': lambda I, a, k: getitem_spec(I, a[0], a[1]),
        'FlowCal.io.FCSData.__setitem__': lambda I, a, k: setitem_spec(I, a[0], a[1], a[2]),
    }
    for nm, attr in (('range', '_range'), ('resolution', '_resolution'), ('amplification_type', '_amplification_type'),
                     ('amplifier_gain', '_amplifier_gain'), ('detector_voltage', '_detector_voltage'),
                     ('channel_labels', '_channel_labels')):
        table['FlowCal.io.FCSData.' + nm] = (lambda attr: lambda I, a, k: accessor_spec(attr)(
            I, a[0], a[1] if len(a) > 1 else k.get('channels')))(attr)
    if not names:
        return dict(table)
    return {n: table[n] for n in names}
