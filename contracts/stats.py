"""Contracts for FlowCal.stats (C12): each statistic is the textbook reduction of exactly the requested columns, in order;
the derived statistics satisfy their defining identities; plain arrays and samples give the same terms."""
import z3

from pyvc.verify import Contract
from pyvc.values import SV, Seq, SymSeq, NDArr
from pyvc.interp import stamp
from pyvc import interp as M
from .common import sym_array, sym_fcs, sym_dims, mval, data_witness
from . import io_specs
from .gate import sym_int_list, sym_str_list, size_hints

AS = z3.ArraySort(z3.IntSort(), z3.RealSort())
R, Z = z3.RealSort(), z3.IntSort()


def STAT(name, withq=False):
    return z3.Function('STAT_' + name, *([AS, Z] + ([R] if withq else []) + [R]))


class Stat(Contract):
    property_ids = ('C12',)
    config = {'call_contracts': io_specs.summaries()}
    assumptions = ('C12: np.mean/median/std/percentile and scipy.stats.gmean/mode are assumed to compute the textbook statistic '
                   'of each column (uninterpreted STAT_* of the column values); what is proved is which columns they receive, in '
                   'which order, and the composed formulas', 'A-REAL: exp/log/sqrt uninterpreted with log(exp x) = x')

    def __init__(self, name):
        self.fname = name
        self.target = 'FlowCal.stats.' + name

    def cases(self):
        out = []
        for cont in ('ndarray', 'FCSData-int', 'FCSData-float'):
            forms = ['none', 'int', 'intlist', 'single'] + (['str', 'strlist'] if cont != 'ndarray' else [])
            for f in forms:
                out.append({'label': '%s-%s' % (cont, f), 'container': cont, 'ch': f})
        return out

    def setup(self, I, case):
        c = I.ctx
        N, D = sym_dims(I, 'N', 'D')
        c.assume(N >= 1)          # C12 quantifies over 1..N events
        fcs = case['container'] != 'ndarray'
        dt = 'int' if case['container'] == 'FCSData-int' else 'float'
        data = sym_fcs(I, 'data', N, D, dtype=dt) if fcs else sym_array(I, 'data', [N, D], 'float')
        aux = {'N': N, 'D': D, 'data': data, 'fcs': fcs, 'dt': dt}
        f = case['ch']
        ch = None
        if f in ('int', 'single'):
            aux['c'] = c.fresh_int('ch')
            ch = SV(aux['c'], 'int')
            if f == 'single':
                ch = stamp(Seq('list', [ch]))
        elif f == 'str':
            aux['s'] = c.fresh_str('chname')
            ch = SV(aux['s'], 'str')
        elif f in ('intlist', 'strlist'):
            n = c.fresh_int('n_ch')
            c.assume(n >= 0)
            aux['n'] = n
            ch = sym_int_list(I, 'chs', n) if f == 'intlist' else sym_str_list(I, 'chnames', n)
            aux['chf'] = ch.ufn
        return [data] + ([] if ch is None else [ch]), {}, aux

    def expected_outcomes(self, case):
        return ['return']

    def spec_value(self, I, col, N):
        """textbook definition of this statistic for one column (Int->Real array)"""
        I.real_axioms()
        x = z3.Real('ax_e')
        I.ctx.add_axiom(z3.ForAll([x], M.flog(M.fexp(x)) == x, patterns=[M.fexp(x)]), 'A-REAL:log(exp x)=x')
        i = z3.Int('sp_i')
        logcol = z3.Lambda([i], M.flog(z3.Select(col, i)))
        n = self.fname
        if n in ('mean', 'median', 'std', 'gmean', 'mode'):
            return STAT(n)(col, N)
        if n == 'cv':
            return STAT('std')(col, N) / STAT('mean')(col, N)
        if n == 'gstd':
            return M.fexp(STAT('std')(logcol, N))
        if n == 'gcv':
            gstd = M.fexp(STAT('std')(logcol, N))
            return M.fsqrt(M.fexp(M.flog(gstd) * M.flog(gstd)) - 1)
        P = STAT('percentile', True)
        iqr = P(col, N, z3.RealVal(75)) - P(col, N, z3.RealVal(25))
        if n == 'iqr':
            return iqr
        return iqr / STAT('median')(col, N)

    def check(self, I, case, aux, out):
        P = I.ctx.prove
        N, D, data = aux['N'], aux['D'], aux['data']
        f = case['ch']
        m = data.meta if aux['fcs'] else None
        k, ci = z3.Ints('st_k st_c')
        if f in ('int', 'single'):
            valid = z3.And(-D <= aux['c'], aux['c'] < D)
        elif f == 'intlist':
            valid = z3.ForAll([k], z3.Implies(z3.And(0 <= k, k < aux['n']), z3.And(-D <= aux['chf'](k), aux['chf'](k) < D)))
        elif f == 'str':
            valid = z3.Exists([ci], z3.And(0 <= ci, ci < D, m.chan(ci) == aux['s']))
        elif f == 'strlist':
            valid = z3.ForAll([k], z3.Implies(z3.And(0 <= k, k < aux['n']), z3.Exists([ci], z3.And(0 <= ci, ci < D, m.chan(ci) == aux['chf'](k)))))
        else:
            valid = z3.BoolVal(True)
        if out.kind == 'raise':
            P('raises-only-for-an-invalid-channel-request', z3.Not(valid))
            return
        P('valid-request', valid)
        v = out.value
        ii = z3.Int('st_i')
        xd = data.ufn
        dt = aux['dt']
        tofloat = (lambda e: z3.ToReal(e)) if dt == 'int' else (lambda e: e)
        colarr = lambda c_: z3.Lambda([ii], tofloat(xd(ii, c_)))
        norm = lambda c_: z3.If(c_ < 0, c_ + D, c_)
        scalar_form = f in ('int', 'str')
        if scalar_form:
            ok = isinstance(v, SV) or (isinstance(v, NDArr) and v.ndim == 0)
            P('single-channel-gives-a-scalar', ok)
            if not ok:
                return
            val = v.z if isinstance(v, SV) else v.fn()
            if f == 'int':
                P('equals-the-definition-on-that-channel', val == self.spec_value(I, colarr(norm(aux['c'])), N))
            else:
                cw = I.ctx.fresh_int('col_w')
                I.ctx.assume(z3.And(0 <= cw, cw < D, m.chan(cw) == aux['s']))
                P('equals-the-definition-on-that-channel', val == self.spec_value(I, colarr(cw), N))
            return
        ok = isinstance(v, NDArr) and v.ndim == 1
        P('several-channels-give-a-vector', ok)
        if not ok:
            return
        n = D if f == 'none' else (1 if f == 'single' else aux['n'])
        P('one-entry-per-requested-channel', I.np.dim_z(v.shape[0]) == (n if not isinstance(n, int) else z3.IntVal(n)))
        j = I.ctx.fresh_int('entry')
        inr = z3.And(0 <= j, j < (n if not isinstance(n, int) else z3.IntVal(n)))
        if f == 'none':
            colj = j
        elif f == 'single':
            colj = norm(aux['c'])
        elif f == 'intlist':
            colj = norm(aux['chf'](j))
        else:
            colj = I.ctx.fresh_int('col_w')
            I.ctx.assume(z3.Implies(inr, z3.And(0 <= colj, colj < D, m.chan(colj) == aux['chf'](j))))
        P('entry-k-is-the-statistic-of-the-k-th-requested-channel', z3.Implies(inr, v.fn(j) == self.spec_value(I, colarr(colj), N)),
          assume_after=False)


class Mean(Stat):
    def __init__(self):
        Stat.__init__(self, 'mean')


class Gmean(Stat):
    def __init__(self):
        Stat.__init__(self, 'gmean')


class Median(Stat):
    def __init__(self):
        Stat.__init__(self, 'median')


class Mode(Stat):
    def __init__(self):
        Stat.__init__(self, 'mode')


class Std(Stat):
    def __init__(self):
        Stat.__init__(self, 'std')


class Cv(Stat):
    def __init__(self):
        Stat.__init__(self, 'cv')


class Gstd(Stat):
    def __init__(self):
        Stat.__init__(self, 'gstd')


class Gcv(Stat):
    def __init__(self):
        Stat.__init__(self, 'gcv')


class Iqr(Stat):
    def __init__(self):
        Stat.__init__(self, 'iqr')


class Rcv(Stat):
    def __init__(self):
        Stat.__init__(self, 'rcv')


NAMES = ['Mean', 'Gmean', 'Median', 'Mode', 'Std', 'Cv', 'Gstd', 'Gcv', 'Iqr', 'Rcv']
CONTRACTS = [globals()[n]() for n in NAMES]
