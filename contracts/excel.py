"""Contracts for FlowCal.excel_ui (C10, C11, C15): the orchestration term and the exception flow of one arbitrary row.

The library steps (loading, to_rfi, the bead transform, the gates) are uninterpreted: a sample is a term built from the
steps applied to it; each step may raise the exception classes its own contract allows.  The table cells of the row are
symbolic.  The loop over the rows is cut (any number of rows): the body is verified for an arbitrary row in an arbitrary
prior state, so what is stored for a row is a function of that row (and the instruments / beads tables / bead transforms) only.
"""
import re
import z3

from pyvc.verify import Contract, LoopSpec
from pyvc.values import SV, Seq, SymSeq, NDArr, Opaque, Builtin, PDict, OptVal, ExcObj, PyExc, NT, NTClass
from pyvc.interp import stamp, raise_py, EXC, exc_is
from pyvc import pybuiltins as PB

S = z3.StringVal
Z, R, B, ST = z3.IntSort(), z3.RealSort(), z3.BoolSort(), z3.StringSort()

FL = ['FL1', 'FL2', 'FL3']          # fluorescence channels of the (only) instrument configuration considered
SC = ['FSC-H', 'SSC-H']
COLUMNS = ['Instrument ID', 'Beads ID', 'File Path', 'FL1 Units', 'FL2 Units', 'Gate Fraction']   # FL3 has no Units column


class SampleTerm(object):
    """a sample as the term of library steps that produced it"""

    def __init__(self, term, loaded):
        self.term = term
        self.loaded = loaded


def excel_model(I, aux):
    """library / pandas / os / re stubs for excel_ui (assumed contracts: A-LIB)"""
    c = I.ctx
    trace = aux['trace'] = []
    k_row = aux['row'] = c.fresh_int('row_k')
    cell_s = lambda col: z3.Function('cell_' + re.sub(r'\W', '_', col), Z, ST)(k_row)
    aux['cell_s'] = cell_s
    isnull = lambda col: z3.Function('isnull_' + re.sub(r'\W', '_', col), Z, B)(k_row)
    aux['isnull'] = isnull
    aux['gate_fraction'] = z3.Function('cell_gate_fraction', Z, R)(k_row)
    aux['nevents'] = c.fresh_int('n_events')
    aux['load_fails'] = c.fresh_bool('file_not_found')
    aux['data_type_I'] = c.fresh_bool('integer_data')
    aux['mef_none'] = c.fresh_bool('mef_fxn_is_none')
    aux['mef_raises'] = z3.Function('mef_no_curve', ST, B)
    aux['density_raises'] = c.fresh_bool('density_gate_refuses')
    aux['beads_iid'] = c.fresh_str('beads_instrument_id')
    aux['beads_has'] = z3.Function('beads_calibrated_in', ST, B)
    aux['beads_at'] = z3.Function('beads_amp_type', ST, ST)
    aux['beads_dv'] = z3.Function('beads_det_volt', ST, R)
    aux['sample_at_log'] = z3.Function('sample_amp_is_log', ST, B)
    aux['sample_dv_none'] = z3.Function('sample_dv_none', ST, B)
    aux['sample_dv'] = z3.Function('sample_dv', ST, R)

    def row_getitem(I_, obj, key):
        key = I_.force(key)
        kind, ident = obj.payload
        if kind == 'samples':
            if key == 'Gate Fraction':
                return SV(aux['gate_fraction'], 'real')
            if isinstance(key, str) and key.endswith(' Units'):
                return OptVal(isnull(key), SV(cell_s(key), 'str'))
            if isinstance(key, str):
                return SV(cell_s(key), 'str')
        if kind == 'instruments':
            return {'Forward Scatter Channel': SC[0], 'Side Scatter Channel': SC[1], 'Fluorescence Channels': ' , '.join(FL).replace(' , ', ', ')}[key]
        if kind == 'beads':
            if key == 'Instrument ID':
                return SV(aux['beads_iid'], 'str')
            for suffix, fn_, kd in ((' Amp. Type', aux['beads_at'], 'str'), (' Detector Volt.', aux['beads_dv'], 'real')):
                if isinstance(key, str) and key.endswith(suffix):
                    ch = S(key[:-len(suffix)])
                    # the beads sheet has these columns only for the channels that were calibrated
                    if not I_.ctx.branch(aux['beads_has'](ch)):
                        raise_py('KeyError', key)
                    return SV(fn_(ch), kd)
        raise_py('KeyError', key)

    def table_attr(I_, obj, name):
        if obj.tag == 'table':
            t = obj.payload
            if name == 'empty':
                return I_.mk(aux['n_rows'] == 0, 'bool') if t == 'samples' else False
            if name == 'columns':
                return stamp(Seq('list', list(COLUMNS)))
            if name == 'iterrows':
                def it(I2, a, k):
                    return stamp(SymSeq('list', I2.mk(aux['n_rows'], 'int'),
                                        lambda I3, i: stamp(Seq('tuple', [SV(z3.Function('row_id', Z, ST)(i), 'str'), Opaque('row', ('samples', i))]))))
                return Builtin('iterrows', it)
            if name == 'loc':
                return Opaque('loc', t)
        if obj.tag == 'sample':
            s = obj.payload
            if name == 'shape':
                return stamp(Seq('tuple', [SV(z3.Function('n_events_of', Z, Z)(s_id(s)), 'int'), 6]))
            if name == 'data_type':
                return SV(z3.If(aux['data_type_I'], S('I'), S('F')), 'str')
            if name == 'amplification_type':
                def at(I2, a, k):
                    ch = I2.z(a[0])
                    return stamp(Seq('tuple', [SV(z3.If(aux['sample_at_log'](ch), z3.RealVal(4), z3.RealVal(0)), 'real'), I2.real(1.0)]))
                return Builtin('amplification_type', at)
            if name == 'detector_voltage':
                def dv(I2, a, k):
                    ch = I2.z(a[0])
                    return OptVal(aux['sample_dv_none'](ch), SV(aux['sample_dv'](ch), 'real'))
                return Builtin('detector_voltage', dv)
        if obj.tag == 'regex':
            if name == 'match':
                def match(I2, a, k):
                    s = I2.force(a[0])
                    if not isinstance(s, str):
                        raise_py('TypeError', 'expected string')
                    m = obj.payload.match(s)
                    return None if m is None else Opaque('match', m)
                return Builtin('match', match)
        if obj.tag == 'match' and name == 'group':
            return Builtin('group', lambda I2, a, k: obj.payload.group(*a))
        if obj.tag == 'density_output':
            if name == 'gated_data':
                return obj.payload
            if name == 'contour':
                return Opaque('contour')
        return PB.NOATTR
    ids = {}

    def s_id(term):
        return z3.IntVal(ids.setdefault(repr(term), len(ids)))

    def opaque_getitem(I_, obj, key):
        if obj.tag == 'row':
            return row_getitem(I_, obj, key)
        if obj.tag == 'loc':
            return Opaque('row', (obj.payload, key))
        raise_py('TypeError', 'not subscriptable')

    def step(name, *exc):
        def f(I_, a, k):
            s = I_.force(a[0] if a else k.get('data'))
            rest = [I_.force(x) for x in a[1:]]
            trace.append((name, s.payload if isinstance(s, Opaque) else s, rest, dict(k)))
            return Opaque('sample', (name, s.payload, tuple(repr_arg(I_, x) for x in rest), tuple(sorted((kk, repr_arg(I_, vv)) for kk, vv in k.items() if kk != 'data'))))
        return f

    def load(I_, a, k):
        trace.append(('load', a[0]))
        if I_.ctx.branch(aux['load_fails']):
            raise_py('IOError', 'No such file')
        sm = Opaque('sample', ('load',))
        return sm

    def density(I_, a, k):
        s = I_.force(k.get('data'))
        trace.append(('density2d', s.payload, [], dict(k)))
        gf = I_.z(k['gate_fraction'], 'real')
        # contract of gate.density2d (C05): ValueError for a fraction outside [0,1]
        if I_.ctx.branch(z3.Or(gf < 0, gf > 1)):
            raise_py('ValueError', 'gate fraction should be between 0 and 1, inclusive')
        out = Opaque('sample', ('density2d', s.payload, repr_arg(I_, k.get('channels')), ('fraction', k['gate_fraction'].z.sexpr() if isinstance(k['gate_fraction'], SV) else k['gate_fraction'])))
        return Opaque('density_output', out)

    def mef_lookup(I_, obj, key):
        # mef_transform_fxns[beads_id]: None or a transform that may raise ValueError for an uncovered channel
        def fxn(I2, a, k):
            s = I2.force(a[0])
            ch = I2.force(a[1])
            trace.append(('mef', s.payload, [ch], {}))
            if I2.ctx.branch(aux['mef_raises'](I2.z(ch))):
                raise_py('ValueError', 'no standard curve for channel')
            return Opaque('sample', ('mef', s.payload, repr_arg(I2, ch)))
        return OptVal(aux['mef_none'], Builtin('mef_transform', fxn))

    def getitem_all(I_, obj, key):
        if obj.tag == 'mef_fxns':
            return mef_lookup(I_, obj, key)
        return opaque_getitem(I_, obj, key)
    def contains(I_, obj, item):
        item = I_.force(item)
        if obj.tag == 'row' and obj.payload[0] == 'beads' and isinstance(item, str):
            for suffix in (' Amp. Type', ' Detector Volt.'):
                if item.endswith(suffix):
                    return I_.mk(aux['beads_has'](S(item[:-len(suffix)])), 'bool')
            return item == 'Instrument ID'
        raise_py('TypeError', 'argument is not iterable')
    aux['contains'] = contains
    libs = {
        'FlowCal.io.FCSData': Builtin('FCSData', load),
        'FlowCal.transform.to_rfi': Builtin('to_rfi', step('to_rfi')),
        'FlowCal.gate.start_end': Builtin('start_end', step('start_end')),
        'FlowCal.gate.high_low': Builtin('high_low', step('high_low')),
        'FlowCal.gate.density2d': Builtin('density2d', density),
        're.compile': Builtin('re.compile', lambda I_, a, k: Opaque('regex', re.compile(a[0]))),
        'os.path.join': Builtin('os.path.join', lambda I_, a, k: PB.opaque_str(I_, 'path')),
        'os.path.exists': Builtin('os.path.exists', lambda I_, a, k: True),
        'os.makedirs': Builtin('os.makedirs', lambda I_, a, k: None),
        'pandas.isnull': Builtin('pd.isnull', lambda I_, a, k: isinstance(a[0], OptVal) and I_.truth(SV(a[0].isnone, 'bool')) if isinstance(a[0], OptVal) else False),
    }
    return libs, table_attr, getitem_all


def repr_arg(I, x):
    if isinstance(x, Seq):
        return tuple(repr_arg(I, y) for y in x.items)
    if isinstance(x, SV):
        return ('sym', x.z.sexpr())
    return x


class ProcessSamples(Contract):
    target = 'FlowCal.excel_ui.process_samples_table'
    property_ids = ('C10', 'C11')
    frame = False
    assumptions = ('excel_ui: one instrument configuration (FSC-H, SSC-H, fluorescence FL1,FL2,FL3 with Units columns for FL1 and FL2) — '
                   'bounded in the table layout; everything in the row (units text, fraction, ids, file, fault conditions) is symbolic and '
                   'the number of rows is arbitrary (loop cut: the body is verified for an arbitrary row in an arbitrary prior state)',
                   'plot=False, verbose=False; Instrument ID / Beads ID refer to existing rows (malformed tables are not documented faults)',
                   'library steps are uninterpreted terms with the exception classes of their contracts (IOError for a missing file, '
                   'ValueError for a fraction outside [0,1] or an uncovered channel); str.lower/strip uninterpreted')
    max_paths = 6000
    max_decisions = 400

    def cases(self):
        return [{'label': 'with-beads-table', 'beads': True}, {'label': 'without-beads-table', 'beads': False}, {'label': 'empty-table', 'empty': True, 'beads': False}]

    def setup(self, I, case):
        c = I.ctx
        aux = {}
        n = c.fresh_int('n_rows')
        c.assume(n >= 0)
        if case.get('empty'):
            c.assume(n == 0)
        else:
            c.assume(n >= 1)
        aux['n_rows'] = n
        libs, oattr, ogetitem = excel_model(I, aux)
        self.config = {'module_overrides': libs, 'opaque_attr': oattr, 'opaque_getitem': ogetitem, 'opaque_contains': aux['contains']}
        I.config.update(self.config)
        I.libs.update(libs)
        kw = {'samples_table': Opaque('table', 'samples'), 'instruments_table': Opaque('table', 'instruments'),
              'mef_transform_fxns': Opaque('mef_fxns'), 'beads_table': Opaque('table', 'beads') if case['beads'] else None,
              'verbose': False, 'plot': False}
        aux['case'] = case
        return [], kw, aux

    def loop_specs(self):
        contract = self

        def havoc(I, env, st0):
            env['samples'] = stamp(PDict(ordered=True))
            env['samples'].havocked = True

        def inv(I, env, k, st0):
            if isinstance(k, int) or z3.is_int_value(z3.simplify(k)):
                return
            kk = z3.simplify(k)
            aux = I.ctx.aux
            # called with k+1 after the body ran for the arbitrary row `it_k`: the row's entry is checked here
            if kk.decl().name() == '+' or 'it_k' in kk.sexpr() and kk.sexpr() != 'it_k':
                for ob in contract.row_obligations(I, env, aux):
                    yield ob
        q = 'FlowCal.excel_ui.process_samples_table'
        return {(q, 0): LoopSpec(inv, havoc)}

    # ---- what the row must have produced (C10 term, C11 fault flow) -------------------------------------------------
    def row_obligations(self, I, env, aux):
        samples = env['samples']
        ok = isinstance(samples, PDict) and len(samples.keys) == 1
        yield ('row-result-stored-under-its-identifier(exactly one entry per row)', z3.BoolVal(ok))
        if not ok:
            return
        val = samples.vals[0]
        key = samples.keys[0]
        yield ('stored-under-the-row-identifier', I.z(key) == z3.Function('row_id', Z, ST)(I.ctx.loop_k[1]))
        lower = z3.Function('str_lower', ST, ST)
        strip = z3.Function('str_strip', ST, ST)
        isnull, cell = aux['isnull'], aux['cell_s']
        # documented faults of this row (from the property text)
        faults = [('file-not-found', aux['load_fails'])]
        nev = z3.Function('n_events_of', Z, Z)(z3.IntVal(0))
        faults.append(('too-few-events', nev < 400))
        unit_terms = {}
        for ch in ('FL1', 'FL2'):
            col = ch + ' Units'
            u = lower(strip(cell(col)))
            given = z3.Not(isnull(col))
            kind = lambda name, u=u: u == S(name)
            unit_terms[ch] = (given, u)
            recognised = z3.Or(kind('channel'), kind('rfi'), kind('a.u.'), kind('au'), kind('mef'))
            faults.append(('unrecognised-units-' + ch, z3.And(given, z3.Not(recognised))))
            ismef = z3.And(given, kind('mef'))
            faults.append(('no-calibration-for-the-beads-' + ch, z3.And(ismef, aux['mef_none'])))
            faults.append(('no-standard-curve-for-channel-' + ch, z3.And(ismef, aux['mef_raises'](S(ch)))))
            if aux['case']['beads']:
                faults.append(('beads-not-calibrated-in-channel-' + ch, z3.And(ismef, z3.Not(aux['beads_has'](S(ch))))))
                faults.append(('beads-on-another-instrument-' + ch, z3.And(ismef, aux['beads_iid'] != cell('Instrument ID'))))
                sat = z3.If(aux['sample_at_log'](S(ch)), S('Log'), S('Linear'))
                faults.append(('beads-amplifier-differs-' + ch, z3.And(ismef, aux['beads_at'](S(ch)) != sat)))
                faults.append(('beads-detector-voltage-differs-' + ch,
                               z3.And(ismef, z3.Not(aux['sample_dv_none'](S(ch))), aux['beads_dv'](S(ch)) != aux['sample_dv'](S(ch)))))
        gf = aux['gate_fraction']
        faults.append(('gate-fraction-outside-[0,1]', z3.Or(gf < 0, gf > 1)))
        any_fault = z3.Or(*[f for _, f in faults])
        if isinstance(val, ExcObj):
            yield ('a-row-error-is-an-ExcelUIException', z3.BoolVal(val.cls.name == 'ExcelUIException'))
            yield ('row-error-only-for-a-documented-fault', any_fault)
            return
        yield ('healthy-row-has-no-documented-fault', z3.Not(any_fault))
        okv = isinstance(val, Opaque) and val.tag == 'sample'
        yield ('healthy-row-yields-a-sample', z3.BoolVal(okv))
        if not okv:
            return
        # C10: the stored sample is the documented composition, decided per path from the units of this row
        term = val.payload
        expected, conds = self.expected_term(I, aux, unit_terms)
        yield ('sample-equals-the-documented-steps-composed-by-hand', z3.BoolVal(repr(term) == repr(expected)))
        for nm, cnd in conds:
            yield (nm, cnd)

    def expected_term(self, I, aux, unit_terms):
        """the hand composition for the units decided on this path (each decision is read back from the path condition)"""
        lower = z3.Function('str_lower', ST, ST)
        t = ('to_rfi', ('load',), (tuple(SC),), ())
        reported = []
        conds = []
        for ch in ('FL1', 'FL2'):
            given, u = unit_terms[ch]
            if not I.ctx.branch(given):
                continue
            if I.ctx.branch(u == S('channel')):
                pass
            elif I.ctx.branch(z3.Or(u == S('rfi'), u == S('a.u.'), u == S('au'))):
                t = ('to_rfi', t, (ch,), ())
            else:
                conds.append(('units-are-mef-' + ch, u == S('mef')))
                t = ('mef', ('to_rfi', t, (ch,), ()), ch)
            reported.append(ch)
        t = ('start_end', t, (), (('num_end', 100), ('num_start', 250)))
        if I.ctx.branch(aux['data_type_I']):
            t = ('high_low', t, (tuple(SC + reported),), ())
        t = ('density2d', t, tuple(SC), ('fraction', aux['gate_fraction'].sexpr()))
        return t, conds

    def expected_outcomes(self, case):
        return ['return']

    def check(self, I, case, aux, out):
        P = I.ctx.prove
        P('no-exception-escapes-the-batch(every documented fault is recorded in place)', out.kind == 'return')
        if out.kind != 'return':
            return
        v = out.value
        P('result-is-an-ordered-dictionary', isinstance(v, PDict) and v.ordered)
        if case.get('empty'):
            P('empty-table-gives-an-empty-result', isinstance(v, PDict) and len(v.keys) == 0)


CONTRACTS = [ProcessSamples()]


# ---------------------------------------------------------------------------------------------
class Run(Contract):
    """C15: run() reads the three sheets by ID, chains the processing steps and writes the sheets in the documented order"""
    target = 'FlowCal.excel_ui.run'
    property_ids = ('C15',)
    frame = False
    assumptions = ('run(): the table readers/processors/writers are summarised (recorded calls, uninterpreted results); os.path.split/'
                   'splitext/join uninterpreted; termination and exception freedom of the real steps are outside contract reach',)

    def cases(self):
        out = []
        for hs in (True, False):
            for op in ('given', 'default'):
                out.append({'label': 'hist_sheet=%s,output=%s' % (hs, op), 'hist': hs, 'out': op})
        return out

    def setup(self, I, case):
        c = I.ctx
        calls = []
        aux = {'calls': calls}
        DIR = z3.Function('path_dir', ST, ST)
        FNAME = z3.Function('path_filename', ST, ST)
        STEM = z3.Function('path_stem', ST, ST)
        EXT = z3.Function('path_ext', ST, ST)
        JOIN = z3.Function('path_join', ST, ST, ST)
        aux.update({'DIR': DIR, 'FNAME': FNAME, 'STEM': STEM, 'JOIN': JOIN})

        def rec(name, ret=None):
            def f(I_, a, k):
                calls.append((name, list(a), dict(k)))
                r = ret(I_, a, k) if ret else None
                return r
            return Builtin(name, f)
        tbl = lambda nm: Opaque('table', nm)
        libs = {
            'FlowCal.excel_ui.read_table': rec('read_table', lambda I_, a, k: tbl(k.get('sheetname'))),
            'FlowCal.excel_ui.process_beads_table': rec('process_beads_table', lambda I_, a, k: stamp(Seq('tuple', [Opaque('beads_samples'), Opaque('mef_fxns'), Opaque('mef_outputs')]))),
            'FlowCal.excel_ui.add_beads_stats': rec('add_beads_stats'),
            'FlowCal.excel_ui.process_samples_table': rec('process_samples_table', lambda I_, a, k: Opaque('samples')),
            'FlowCal.excel_ui.add_samples_stats': rec('add_samples_stats'),
            'FlowCal.excel_ui.generate_histograms_table': rec('generate_histograms_table', lambda I_, a, k: tbl('Histograms')),
            'FlowCal.excel_ui.generate_about_table': rec('generate_about_table', lambda I_, a, k: tbl('About')),
            'FlowCal.excel_ui.write_workbook': rec('write_workbook'),
            'os.path.split': Builtin('os.path.split', lambda I_, a, k: stamp(Seq('tuple', [SV(DIR(I_.z(a[0])), 'str'), SV(FNAME(I_.z(a[0])), 'str')]))),
            'os.path.splitext': Builtin('os.path.splitext', lambda I_, a, k: stamp(Seq('tuple', [SV(STEM(I_.z(a[0])), 'str'), SV(EXT(I_.z(a[0])), 'str')]))),
            'os.path.join': Builtin('os.path.join', lambda I_, a, k: SV(JOIN(I_.z(a[0]), I_.z(a[1])), 'str')),
        }
        # the summarised functions are module-level names of excel_ui: install them as call contracts
        cc = {}
        for full, b in libs.items():
            if full.startswith('FlowCal.excel_ui.'):
                cc[full] = (lambda b: lambda I_, a, k: b.fn(I_, a, k))(b)
        self.config = {'module_overrides': libs, 'call_contracts': cc}
        I.config.update(self.config)
        I.call_contracts = cc
        I.libs.update(libs)
        aux['inp'] = c.fresh_str('input_path')
        aux['outp'] = c.fresh_str('output_path')
        kw = {'input_path': SV(aux['inp'], 'str'), 'output_path': SV(aux['outp'], 'str') if case['out'] == 'given' else None,
              'verbose': False, 'plot': c.fresh_bool('plot') is None, 'hist_sheet': case['hist']}
        kw['plot'] = False
        return [], kw, aux

    def check(self, I, case, aux, out):
        P = I.ctx.prove
        P('terminates-normally(given the summarised steps return)', out.kind == 'return')
        if out.kind != 'return':
            return
        calls = aux['calls']
        names = [c_[0] for c_ in calls]
        reads = [c_ for c_ in calls if c_[0] == 'read_table']
        P('three-sheets-read-by-ID', [(r[2].get('sheetname'), r[2].get('index_col')) for r in reads] ==
          [('Instruments', 'ID'), ('Beads', 'ID'), ('Samples', 'ID')] and all(r[1] and r[1][0] is reads[0][1][0] for r in reads))
        ww = [c_ for c_ in calls if c_[0] == 'write_workbook']
        P('one-output-workbook-written-last', len(ww) == 1 and names[-1] == 'write_workbook')
        if len(ww) != 1:
            return
        path, tl = ww[0][1][0], ww[0][1][1]
        want = ['Instruments', 'Beads', 'Samples'] + (['Histograms'] if case['hist'] else []) + ['About Analysis']
        okl = isinstance(tl, Seq) and [I.iterate_concrete(t)[0] for t in tl.items] == want
        P('sheets-Instruments-Beads-Samples-(Histograms)-About-in-this-order', okl)
        if okl:
            tabs = [I.iterate_concrete(t)[1] for t in tl.items]
            P('the-tables-written-are-the-ones-read-and-generated',
              [getattr(t, 'payload', None) for t in tabs] == ['Instruments', 'Beads', 'Samples'] + (['Histograms'] if case['hist'] else []) + ['About'])
        inp = aux['inp']
        if case['out'] == 'given':
            P('explicit-output-path-used', I.z(path) == aux['outp'])
        else:
            stem = aux['STEM'](aux['FNAME'](inp))
            P('default-output-path-is-<input stem>_output.xlsx-next-to-the-input',
              I.z(path) == aux['JOIN'](aux['DIR'](inp), z3.Concat(stem, S('_output.xlsx'))))
        ps = [c_ for c_ in calls if c_[0] == 'process_samples_table']
        P('samples-processed-with-the-beads-table-and-the-bead-transforms',
          len(ps) == 1 and isinstance(ps[0][2].get('mef_transform_fxns'), Opaque) and ps[0][2]['mef_transform_fxns'].tag == 'mef_fxns'
          and getattr(ps[0][2].get('beads_table'), 'payload', None) == 'Beads')
        P('statistics-added-after-processing', names.index('add_beads_stats') > names.index('process_beads_table')
          and names.index('add_samples_stats') > names.index('process_samples_table'))
        P('histograms-generated-iff-requested', ('generate_histograms_table' in names) == case['hist'])


class ReadTable(Contract):
    """C15: rows without an identifier are dropped, THEN duplicated identifiers are refused; list/None sheet names refused"""
    target = 'FlowCal.excel_ui.read_table'
    property_ids = ('C15',)
    frame = False
    assumptions = ('read_table: pandas.read_excel / boolean-mask row selection / Index.has_duplicates are summarised (A-LIB)',)

    def cases(self):
        return [{'label': 'sheet-name,index'}, {'label': 'sheet-name,no-index'}, {'label': 'sheet-none'}, {'label': 'sheet-list'}]

    def setup(self, I, case):
        c = I.ctx
        aux = {}
        DUP = z3.Function('index_has_duplicates', Z, B)
        aux['DUP'] = DUP
        terms = {}

        def tid(t):
            return z3.IntVal(terms.setdefault(repr(t), len(terms)))
        aux['tid'] = tid

        def read_excel(I_, a, k):
            aux['read_kwargs'] = dict(k)
            return Opaque('df', ('read',))

        def oattr(I_, obj, name):
            if obj.tag == 'df':
                if name == 'index':
                    return Opaque('index', obj.payload)
            if obj.tag == 'index' and name == 'has_duplicates':
                return SV(DUP(tid(obj.payload)), 'bool')
            if obj.tag == 'file':
                if name == 'read':
                    return Builtin('read', lambda I2, a, k: Opaque('bytes'))
                if name in ('__enter__',):
                    return Builtin('enter', lambda I2, a, k: obj)
            return PB.NOATTR

        def ogetitem(I_, obj, key):
            if obj.tag == 'df' and isinstance(key, Opaque) and key.tag == 'notnull' and key.payload == obj.payload:
                return Opaque('df', ('drop_null_index', obj.payload))
            raise_py('KeyError', 'unsupported table key')
        libs = {'pandas.read_excel': Builtin('pd.read_excel', read_excel),
                'pandas.notnull': Builtin('pd.notnull', lambda I_, a, k: Opaque('notnull', a[0].payload)),
                'six.BytesIO': Builtin('BytesIO', lambda I_, a, k: Opaque('bytesio'))}
        self.config = {'module_overrides': libs, 'opaque_attr': oattr, 'opaque_getitem': ogetitem,
                       'open_hook': lambda I_, a, k: Opaque('file', None)}
        I.config.update(self.config)
        I.libs.update(libs)
        lab = case['label']
        sheet = SV(c.fresh_str('sheet'), 'str') if lab.startswith('sheet-name') else (None if lab == 'sheet-none' else stamp(Seq('list', ['A', 'B'])))
        idx = 'ID' if lab.endswith(',index') else None
        aux['idx'] = idx
        return [SV(c.fresh_str('filename'), 'str'), sheet], {'index_col': idx}, aux

    def expected_outcomes(self, case):
        return ['return', 'raise:ValueError'] if case['label'].startswith('sheet-name') else ['raise:TypeError']

    def check(self, I, case, aux, out):
        P = I.ctx.prove
        if not case['label'].startswith('sheet-name'):
            P('list-or-None-sheet-name-refused-with-TypeError', out.raised('TypeError'))
            return
        kept = ('drop_null_index', ('read',)) if aux['idx'] else ('read',)
        dup = aux['DUP'](aux['tid'](kept))
        if out.kind == 'raise':
            P('refusal-is-a-ValueError', out.raised('ValueError'))
            P('refused-only-for-duplicated-identifiers-among-the-kept-rows', dup)
            return
        P('returned-only-without-duplicated-identifiers', z3.Not(dup))
        v = out.value
        P('rows-without-identifier-dropped(and nothing else)', isinstance(v, Opaque) and v.tag == 'df' and v.payload == kept)


CONTRACTS += [Run(), ReadTable()]


# ---------------------------------------------------------------------------------------------
class GenerateHistograms(Contract):
    """C10 (histogram sheet): for an arbitrary row of an arbitrary samples table (loop cut: any number of rows, arbitrary prior
    state) and each reported channel of that row, the two lines written for (row, channel) are
      'Bin Centers (<unit>)' = every second value, from the second, of  samples[row].hist_bins(channel, 2*nbins, scale)
      'Counts'               = np.histogram(samples[row][:, channel], bins = every second value, from the first, of the SAME call)
    with nbins = min(samples[row].resolution(channel), max_bins) and scale = 'linear' iff the unit text is 'Channel', else
    'logicle'; rows whose sample is an error, and channels whose unit cell is empty, write nothing.  Bin edges therefore come from
    the row's own sample.  pandas is abstracted to a write log (A-LIB); hist_bins / np.histogram are uninterpreted."""
    target = 'FlowCal.excel_ui.generate_histograms_table'
    property_ids = ('C10',)
    frame = False
    assumptions = ('generate_histograms_table: table layout as in ProcessSamples (Units columns for FL1 and FL2); rows, unit cells, '
                   'error flags, resolutions symbolic; number of rows arbitrary (loop cut)',
                   'A-LIB: pandas DataFrame/.loc abstracted to a log of (row key, columns, values) writes; hist_bins, np.histogram uninterpreted')
    max_paths = 2000

    def cases(self):
        return [{'label': 'rows'}]

    def setup(self, I, case):
        c = I.ctx
        aux = {'calls': [], 'writes': []}
        n = c.fresh_int('n_rows')
        c.assume(n >= 0)
        aux['n_rows'] = n
        rid = z3.Function('row_id', Z, ST)
        unit = lambda col: z3.Function('unit_' + re.sub(r'\W', '_', col), ST, ST)
        isnull = lambda col: z3.Function('unit_isnull_' + re.sub(r'\W', '_', col), ST, B)
        is_err = z3.Function('sample_is_error', ST, B)
        res = z3.Function('resolution_of', ST, ST, Z)
        aux.update({'rid': rid, 'unit': unit, 'isnull': isnull, 'is_err': is_err, 'res': res})
        maxb = c.fresh_int('max_bins')
        c.assume(maxb >= 1)
        aux['max_bins'] = maxb

        def oattr(I_, obj, name):
            if obj.tag == 'table':
                if name == 'columns':
                    return stamp(Seq('list', list(COLUMNS)))
                if name == 'index':
                    return stamp(SymSeq('list', I_.mk(n, 'int'), lambda I3, i: SV(rid(i), 'str')))
            if obj.tag == 'sample':
                sid = obj.payload
                if name == 'resolution':
                    def _res(I2, a, k):
                        ch = I2.z(a[0])
                        r = res(sid, ch)
                        I2.ctx.assume(r >= 1)
                        return SV(r, 'int')
                    return Builtin('resolution', _res)
                if name == 'hist_bins':
                    def _hb(I2, a, k):
                        ch, nb, sc = a[0], a[1], a[2]
                        nbz = I2.z(nb, 'int')
                        E = I2.ctx.fresh_fn('edges', Z, R)
                        arr = I2.np.new([I2.np.norm_dim(nbz + 1)], 'float', lambda t, E=E: E(t))
                        aux['calls'].append({'sample': sid, 'channel': ch, 'nbins': nbz, 'scale': sc, 'result': arr, 'E': E})
                        return arr
                    return Builtin('hist_bins', _hb)
            if obj.tag == 'regex' and name == 'match':
                def match(I2, a, k):
                    s_ = I2.force(a[0])
                    m = obj.payload.match(s_)
                    return None if m is None else Opaque('match', m)
                return Builtin('match', match)
            if obj.tag == 'match' and name == 'group':
                return Builtin('group', lambda I2, a, k: obj.payload.group(*a))
            if obj.tag == 'hist_table' and name == 'loc':
                return Opaque('hist_loc', obj)
            return PB.NOATTR

        def ogetitem(I_, obj, key):
            key = I_.force(key)
            if obj.tag == 'table' and isinstance(key, str):
                return Opaque('column', key)
            if obj.tag == 'column':
                col = obj.payload
                kz = I_.z(key)
                return OptVal(isnull(col)(kz), SV(unit(col)(kz), 'str'))
            if obj.tag == 'samples':
                kz = I_.z(key)
                if I_.ctx.branch(is_err(kz)):
                    cls = I_.module_env('FlowCal.excel_ui')['ExcelUIException']
                    return ExcObj(cls, ['recorded row error'])
                return Opaque('sample', kz)
            if obj.tag == 'sample':
                return Opaque('events', (obj.payload, repr_arg(I_, key)))
            if obj.tag == 'havoc':
                return Opaque('havoc', 'item of state carried over from earlier rows')      # arbitrary
            raise_py('TypeError', 'not subscriptable')

        def osetitem(I_, obj, key, val):
            if obj.tag == 'hist_loc':
                aux['writes'].append((key, val))
                return None
            if obj.tag == 'havoc':
                return None
            raise_py('TypeError', 'no item assignment')
        libs = {
            're.compile': Builtin('re.compile', lambda I_, a, k: Opaque('regex', re.compile(a[0]))),
            'pandas.notnull': Builtin('pd.notnull', lambda I_, a, k: (not I_.truth(SV(a[0].isnone, 'bool'))) if isinstance(a[0], OptVal) else True),
            'pandas.MultiIndex.from_arrays': Builtin('from_arrays', lambda I_, a, k: Opaque('multiindex')),
            'pandas.DataFrame': Builtin('DataFrame', lambda I_, a, k: Opaque('hist_table', {'columns': k.get('columns')})),
        }
        def olen(I_, obj):
            if obj.tag == 'havoc':
                v = I_.ctx.fresh_int('len_of_carried_over_state')
                I_.ctx.assume(v >= 0)
                return SV(v, 'int')
            raise_py('TypeError', 'object has no len()')
        self.config = {'module_overrides': libs, 'opaque_attr': oattr, 'opaque_getitem': ogetitem, 'opaque_setitem': osetitem, 'opaque_len': olen}
        I.config.update(self.config)
        I.libs.update(libs)
        kw = {'samples_table': Opaque('table', 'samples'), 'samples': Opaque('samples'), 'max_bins': SV(maxb, 'int')}
        return [], kw, aux

    def loop_specs(self):
        contract = self
        q = 'FlowCal.excel_ui.generate_histograms_table'

        def havoc0(I, env, st0):
            v = I.ctx.fresh_int('n_columns')
            I.ctx.assume(v >= 0)
            env['n_columns'] = SV(v, 'int')

        def inv0(I, env, k, st0):
            yield ('column-count-non-negative', I.z(env['n_columns'], 'int') >= 0)

        def havoc1(I, env, st0):
            I.ctx.aux['writes'][:] = []          # whatever earlier rows wrote: not described (each row is verified on its own)
            I.ctx.aux['calls'][:] = []

        def inv1(I, env, k, st0):
            if isinstance(k, int) or z3.is_int_value(z3.simplify(k)):
                return
            kk = z3.simplify(k)
            lk = getattr(I.ctx, 'loop_k', None)
            # called with it_k + 1 after the body ran for the arbitrary row it_k: what the row wrote is checked here
            if lk is not None and 'it_k' in kk.sexpr() and kk.sexpr() != lk[1].sexpr():
                for ob in contract.row_obligations(I, env, I.ctx.aux):
                    yield ob
        return {(q, 0): LoopSpec(inv0, havoc0, keeps=('n_columns',)), (q, 1): LoopSpec(inv1, havoc1, keeps=('hist_table',))}

    def row_obligations(self, I, env, aux):
        c = I.ctx
        sid = aux['rid'](c.loop_k[1])
        writes, calls = aux['writes'], aux['calls']
        err = aux['is_err'](sid)
        reported = []
        for ch in ('FL1', 'FL2'):
            col = ch + ' Units'
            given = z3.Not(aux['isnull'](col)(sid))
            if c.branch(z3.And(z3.Not(err), given)):
                reported.append(ch)
        yield ('two-lines-per-reported-channel-and-nothing-else', z3.BoolVal(len(writes) == 2 * len(reported) and len(calls) == len(reported)))
        if len(writes) != 2 * len(reported) or len(calls) != len(reported):
            return
        for j, ch in enumerate(reported):
            col = ch + ' Units'
            u = aux['unit'](col)(sid)
            call = calls[j]
            (k1, v1), (k2, v2) = writes[2 * j], writes[2 * j + 1]
            nb = z3.If(aux['res'](sid, S(ch)) < aux['max_bins'], aux['res'](sid, S(ch)), aux['max_bins'])
            yield ('%s:bins-come-from-this-rows-sample' % ch, call['sample'] == sid)
            yield ('%s:bins-are-for-this-channel' % ch, I.z(call['channel']) == S(ch))
            yield ('%s:twice-the-number-of-bins-requested' % ch, call['nbins'] == 2 * nb)
            sc = I.z(call['scale'])
            yield ('%s:linear-scale-iff-units-are-Channel' % ch, sc == z3.If(u == S('Channel'), S('linear'), S('logicle')))
            E = call['E']
            t = c.fresh_int('bin_t')
            okc = isinstance(v1, NDArr) and v1.ndim == 1
            yield ('%s:centers-line-is-an-array' % ch, z3.BoolVal(okc))
            if okc:
                yield ('%s:centers-are-every-second-value-from-the-second' % ch,
                       z3.And(I.np.dim_z(v1.shape[0]) == nb, z3.Implies(z3.And(0 <= t, t < nb), v1.fn(t) == E(2 * t + 1))))
            okh = isinstance(v2, NDArr) and hasattr(v2, 'hist1_of')
            yield ('%s:counts-line-is-a-histogram' % ch, z3.BoolVal(okh))
            if okh:
                ev, edges = v2.hist1_of
                from pyvc.values import SliceV
                pk = ev.payload[1] if isinstance(ev, Opaque) and ev.tag == 'events' else None
                all_rows = isinstance(pk, tuple) and len(pk) == 2 and isinstance(pk[0], SliceV) \
                    and pk[0].start is None and pk[0].stop is None and pk[0].step is None and pk[1] == ch
                yield ('%s:counts-are-of-all-events-of-this-rows-sample-in-this-channel' % ch,
                       z3.BoolVal(bool(all_rows and z3.eq(ev.payload[0], sid))))
                yield ('%s:counts-use-every-second-value-from-the-first-of-the-same-bins' % ch,
                       z3.And(I.np.dim_z(edges.shape[0]) == nb + 1, z3.Implies(z3.And(0 <= t, t <= nb), edges.fn(t) == E(2 * t))))
            # row keys and columns
            for (kx, what) in ((k1, 'Bin Centers'), (k2, 'Counts')):
                okk = isinstance(kx, Seq) and len(kx.items) == 2 and isinstance(kx.items[0], Seq) and len(kx.items[0].items) == 3
                yield ('%s:%s-line-key-shape' % (ch, what), z3.BoolVal(okk))
                if okk:
                    a0, a1, a2 = kx.items[0].items
                    yield ('%s:%s-line-is-keyed-by-row-and-channel' % (ch, what), z3.And(I.z(a0) == sid, I.z(a1) == S(ch)))
                    if what == 'Counts':
                        yield ('%s:Counts-line-label' % ch, I.z(a2) == S('Counts'))
                    else:
                        yield ('%s:Bin-Centers-line-label-names-the-unit' % ch,
                               I.z(a2) == z3.Concat(S('Bin Centers ('), u, S(')')))

    def expected_outcomes(self, case):
        return ['return']

    def check(self, I, case, aux, out):
        P = I.ctx.prove
        P('returns-the-table', out.kind == 'return' and isinstance(out.value, Opaque) and out.value.tag == 'hist_table')


CONTRACTS.append(GenerateHistograms())


# ---------------------------------------------------------------------------------------------
class ProcessBeads(Contract):
    """C11 / C10 for the beads table: for an arbitrary row of a Beads table with any number of rows (loop cut, arbitrary prior
    state, symbolic cells), exactly one entry is stored under the row identifier in each result dictionary; a row with a
    documented fault (file not found, fewer than 400 events, gate fraction outside [0,1], unequal numbers of MEF values across
    channels) stores (the ExcelUIException, None[, None]) and nothing escapes; a healthy row stores the gated sample
    density2d(high_low?(start_end(to_rfi(load, scatter+fluorescence), 250, 100), scatter), scatter, fraction) and the result of
    ONE get_transform_fxn call made with that sample, the values parsed from THIS row's '<channel> MEF Values' cells of the
    fluorescence channels that have one (in instrument order), those channels, and this row's clustering channels -- or None
    when the row gives no MEF values.  Library steps are uninterpreted terms (as in ProcessSamples)."""
    target = 'FlowCal.excel_ui.process_beads_table'
    property_ids = ('C11', 'C10')
    frame = False
    max_paths = 4000
    max_decisions = 400
    assumptions = ('process_beads_table: one instrument configuration (FSC-H, SSC-H; FL1, FL2, FL3 with MEF Values columns for FL1 and '
                   'FL2); cells symbolic; number of rows arbitrary (loop cut); plot=False, verbose=False; Instrument ID refers to an '
                   'existing row',
                   'library steps uninterpreted with the exception classes of their contracts; str.split/strip/isdigit/int uninterpreted '
                   '(A-STR); the parsed MEF lists are symbolic-length lists whose element k is int(piece k) or NaN')

    def cases(self):
        return [{'label': 'full-output', 'full': True}, {'label': 'short-output', 'full': False}, {'label': 'empty-table', 'full': True, 'empty': True}]

    def setup(self, I, case):
        c = I.ctx
        aux = {'case': case, 'gtf_calls': [], 'trace': []}
        n = c.fresh_int('n_rows')
        c.assume(n >= 0)
        c.assume(n == 0 if case.get('empty') else n >= 1)
        aux['n_rows'] = n
        k_row = aux['row'] = c.fresh_int('row_k')
        cell = lambda col: z3.Function('bcell_' + re.sub(r'\W', '_', col), Z, ST)
        isnull = lambda col: z3.Function('bnull_' + re.sub(r'\W', '_', col), Z, B)
        gf = z3.Function('bcell_gate_fraction', Z, R)
        aux.update({'cell': cell, 'isnull': isnull, 'gf': gf, 'load_fails': c.fresh_bool('file_not_found'),
                    'data_type_I': c.fresh_bool('integer_data'), 'nev': z3.Function('n_events_of', Z, Z)})
        BCOLS = ['Instrument ID', 'File Path', 'Clustering Channels', 'FL1 MEF Values', 'FL2 MEF Values', 'Gate Fraction']
        pieces = z3.Function('split_piece', ST, Z, ST)
        npieces = z3.Function('split_count', ST, Z)
        aux['pieces'], aux['npieces'] = pieces, npieces
        ids = {}

        def s_id(term):
            return z3.IntVal(ids.setdefault(repr(term), len(ids)))

        def oattr(I_, obj, name):
            if obj.tag == 'table':
                if name == 'empty':
                    return I_.mk(n == 0, 'bool') if obj.payload == 'beads' else False
                if name == 'columns':
                    return stamp(Seq('list', list(BCOLS)))
                if name == 'iterrows':
                    return Builtin('iterrows', lambda I2, a, k: stamp(SymSeq('list', I2.mk(n, 'int'), lambda I3, i: stamp(Seq('tuple', [
                        SV(z3.Function('brow_id', Z, ST)(i), 'str'), Opaque('row', ('beads', i))])))))
                if name == 'loc':
                    return Opaque('loc', obj.payload)
            if obj.tag == 'sample':
                if name == 'shape':
                    return stamp(Seq('tuple', [SV(aux['nev'](s_id(obj.payload)), 'int'), 6]))
                if name == 'data_type':
                    return SV(z3.If(aux['data_type_I'], S('I'), S('F')), 'str')
            if obj.tag == 'regex' and name == 'match':
                def match(I2, a, k):
                    m = obj.payload.match(I2.force(a[0]))
                    return None if m is None else Opaque('match', m)
                return Builtin('match', match)
            if obj.tag == 'match' and name == 'group':
                return Builtin('group', lambda I2, a, k: obj.payload.group(*a))
            if obj.tag == 'density_output':
                if name == 'gated_data':
                    return obj.payload
                if name == 'contour':
                    return Opaque('contour')
            if obj.tag == 'mef_output' and name == 'transform_fxn':
                return Opaque('mef_fxn', obj.payload)
            return PB.NOATTR

        def ogetitem(I_, obj, key):
            key = I_.force(key)
            if obj.tag == 'loc':
                return Opaque('row', (obj.payload, key))
            if obj.tag == 'row':
                kind, ident = obj.payload
                if kind == 'instruments':
                    return {'Forward Scatter Channel': SC[0], 'Side Scatter Channel': SC[1], 'Fluorescence Channels': 'FL1, FL2, FL3'}[key]
                if kind == 'beads' and isinstance(key, str):
                    if key == 'Gate Fraction':
                        return SV(gf(ident), 'real')
                    if key.endswith('MEF Values'):
                        return OptVal(isnull(key)(ident), SV(cell(key)(ident), 'str'))
                    if key in BCOLS:
                        return SV(cell(key)(ident), 'str')
                raise_py('KeyError', key)
            raise_py('TypeError', 'not subscriptable')

        def split_hook(I_, s_, a, kw):
            sz = I_.z(s_)
            cnt = npieces(sz)
            I_.ctx.assume(cnt >= 1)
            I_.ctx.use_axiom('A-STR:split uninterpreted (count/pieces)')
            r = stamp(SymSeq('list', I_.mk(cnt, 'int'), lambda I3, i, sz=sz: SV(pieces(sz, i), 'str')))
            r.no_raise = True
            return r

        def step(name):
            def f(I_, a, k):
                s_ = I_.force(a[0] if a else k.get('data'))
                rest = [I_.force(x) for x in a[1:]]
                return Opaque('sample', (name, s_.payload, tuple(repr_arg(I_, x) for x in rest),
                                         tuple(sorted((kk, repr_arg(I_, vv)) for kk, vv in k.items() if kk != 'data'))))
            return f

        def load(I_, a, k):
            if I_.ctx.branch(aux['load_fails']):
                raise_py('IOError', 'No such file')
            return Opaque('sample', ('load',))

        def density(I_, a, k):
            s_ = I_.force(k.get('data'))
            g = I_.z(k['gate_fraction'], 'real')
            if I_.ctx.branch(z3.Or(g < 0, g > 1)):
                raise_py('ValueError', 'gate fraction should be between 0 and 1, inclusive')
            return Opaque('density_output', Opaque('sample', ('density2d', s_.payload, repr_arg(I_, k.get('channels')), ('fraction', g.sexpr()))))

        def gtf(I_, a, k):
            aux['gtf_calls'].append((a, dict(k)))
            nn = len(aux['gtf_calls'])
            return Opaque('mef_output', nn) if I_.truth(k.get('full_output', False)) else Opaque('mef_fxn', nn)

        def np_array_hook(I_, a, k):
            return None
        libs = {
            'FlowCal.io.FCSData': Builtin('FCSData', load),
            'FlowCal.transform.to_rfi': Builtin('to_rfi', step('to_rfi')),
            'FlowCal.gate.start_end': Builtin('start_end', step('start_end')),
            'FlowCal.gate.high_low': Builtin('high_low', step('high_low')),
            'FlowCal.gate.density2d': Builtin('density2d', density),
            'FlowCal.mef.get_transform_fxn': Builtin('get_transform_fxn', gtf),
            're.compile': Builtin('re.compile', lambda I_, a, k: Opaque('regex', re.compile(a[0]))),
            'os.path.join': Builtin('os.path.join', lambda I_, a, k: PB.opaque_str(I_, 'path')),
            'os.path.exists': Builtin('os.path.exists', lambda I_, a, k: True),
            'os.makedirs': Builtin('os.makedirs', lambda I_, a, k: None),
            'pandas.isnull': Builtin('pd.isnull', lambda I_, a, k: I_.truth(SV(a[0].isnone, 'bool')) if isinstance(a[0], OptVal) else False),
        }
        self.config = {'module_overrides': libs, 'opaque_attr': oattr, 'opaque_getitem': ogetitem, 'split_hook': split_hook,
                       'array_of_lists_ok': True}
        I.config.update(self.config)
        I.libs.update(libs)
        kw = {'beads_table': Opaque('table', 'beads'), 'instruments_table': Opaque('table', 'instruments'), 'verbose': False, 'plot': False,
              'full_output': case['full']}
        return [], kw, aux

    def loop_specs(self):
        contract = self
        names = ('beads_samples', 'mef_transform_fxns', 'mef_outputs')

        def havoc(I, env, st0):
            for nm in names:
                env[nm] = stamp(PDict(ordered=True))
                env[nm].havocked = True
            I.ctx.aux['gtf_calls'][:] = []

        def inv(I, env, k, st0):
            if isinstance(k, int) or z3.is_int_value(z3.simplify(k)):
                return
            kk = z3.simplify(k)
            lk = getattr(I.ctx, 'loop_k', None)
            if lk is not None and 'it_k' in kk.sexpr() and kk.sexpr() != lk[1].sexpr():
                for ob in contract.row_obligations(I, env, I.ctx.aux):
                    yield ob
        return {('FlowCal.excel_ui.process_beads_table', 0): LoopSpec(inv, havoc, keeps=names)}

    def row_obligations(self, I, env, aux):
        c = I.ctx
        k = c.loop_k[1]
        full = aux['case']['full']
        dicts = [env['beads_samples'], env['mef_transform_fxns']] + ([env['mef_outputs']] if full else [])
        ok = all(isinstance(d, PDict) and len(d.keys) == 1 for d in dicts)
        yield ('one-entry-per-row-in-every-result-dictionary', z3.BoolVal(ok))
        if not ok:
            return
        rid = z3.Function('brow_id', Z, ST)(k)
        for d, nm in zip(dicts, ('samples', 'transforms', 'outputs')):
            yield ('%s-stored-under-the-row-identifier' % nm, I.z(d.keys[0]) == rid)
        val, fxn = dicts[0].vals[0], dicts[1].vals[0]
        outp = dicts[2].vals[0] if full else None
        cell, isnull = aux['cell'], aux['isnull']
        g = aux['gf'](k)
        nev = aux['nev'](z3.IntVal(0))
        sp = z3.Function('str_strip', ST, ST)
        cnt = lambda col: aux['npieces'](cell(col)(k))
        given = [ch for ch in ('FL1', 'FL2') if c.branch(z3.Not(isnull(ch + ' MEF Values')(k)))]
        unequal = z3.BoolVal(False)
        if len(given) == 2:
            unequal = cnt('FL1 MEF Values') != cnt('FL2 MEF Values')
        faults = z3.Or(aux['load_fails'], nev < 400, g < 0, g > 1, unequal)
        if isinstance(val, ExcObj):
            yield ('a-row-error-is-an-ExcelUIException', z3.BoolVal(val.cls.name == 'ExcelUIException'))
            yield ('row-error-only-for-a-documented-fault', faults)
            yield ('error-row-has-no-transformation', z3.BoolVal(fxn is None and (outp is None)))
            yield ('error-row-calls-no-calibration-or-its-result-is-dropped', z3.BoolVal(True))
            return
        yield ('healthy-row-has-no-documented-fault', z3.Not(faults))
        okv = isinstance(val, Opaque) and val.tag == 'sample'
        yield ('healthy-row-yields-a-sample', z3.BoolVal(okv))
        if not okv:
            return
        t = ('to_rfi', ('load',), (tuple(SC + FL),), ())
        t = ('start_end', t, (), (('num_end', 100), ('num_start', 250)))
        if c.branch(aux['data_type_I']):
            t = ('high_low', t, (), (('channels', tuple(SC)),))
        t = ('density2d', t, tuple(SC), ('fraction', g.sexpr()))
        yield ('gated-beads-sample-is-the-documented-composition', z3.BoolVal(repr(val.payload) == repr(t)))
        calls = aux['gtf_calls']
        if not given:
            yield ('no-MEF-values-given-no-calibration', z3.BoolVal(fxn is None and outp is None and len(calls) == 0))
            return
        yield ('exactly-one-calibration-call-for-the-row', z3.BoolVal(len(calls) == 1))
        if len(calls) != 1:
            return
        a, kw = calls[0]
        yield ('calibration-result-is-stored-for-the-row',
               z3.BoolVal((isinstance(outp, Opaque) and outp.tag == 'mef_output' and isinstance(fxn, Opaque) and fxn.tag == 'mef_fxn' and fxn.payload == outp.payload)
                          if full else (isinstance(fxn, Opaque) and fxn.tag == 'mef_fxn')))
        yield ('calibration-gets-the-gated-sample-of-this-row', z3.BoolVal(len(a) >= 2 and a[0] is val))
        mc = kw.get('mef_channels')
        yield ('calibrated-channels-are-the-fluorescence-channels-with-values-in-instrument-order',
               z3.BoolVal(isinstance(mc, Seq) and list(mc.items) == given))
        mv = a[1] if len(a) > 1 else None
        lists = getattr(mv, 'payload', None) if isinstance(mv, Opaque) and mv.tag == 'array-of-lists' else None
        okl = isinstance(lists, Seq) and len(lists.items) == len(given) and all(isinstance(x, SymSeq) for x in lists.items)
        yield ('values-passed-are-one-list-per-calibrated-channel', z3.BoolVal(okl))
        if okl:
            j = c.fresh_int('mef_j')
            isd = z3.Function('str_isdigit', ST, B)
            from pyvc.pybuiltins import int_val
            for ch, lst in zip(given, lists.items):
                src = cell(ch + ' MEF Values')(k)
                yield ('%s:as-many-values-as-comma-separated-pieces-of-this-rows-cell' % ch, I.z(lst.n, 'int') == aux['npieces'](src))

                def elem_ok(lst=lst, src=src):
                    I.ctx.assume(z3.And(0 <= j, j < aux['npieces'](src)))
                    e = I.seq_get_sym(lst, j)
                    piece = aux['pieces'](src, j)
                    if isinstance(e, Opaque) and e.tag == 'nan':
                        return z3.Not(isd(sp(piece)))
                    return z3.And(isd(sp(piece)), I.z(e, 'int') == int_val(piece))
                I.prove_forked('%s:value-j-is-int(piece j)-or-unknown-when-not-a-number' % ch, elem_ok)
        cc = kw.get('clustering_channels')
        okc = isinstance(cc, SymSeq)
        yield ('clustering-channels-are-a-list', z3.BoolVal(okc))
        if okc:
            src = cell('Clustering Channels')(k)
            yield ('clustering-channels-count-from-this-rows-cell', I.z(cc.n, 'int') == aux['npieces'](src))
            j2 = c.fresh_int('cc_j')

            def cc_ok():
                I.ctx.assume(z3.And(0 <= j2, j2 < aux['npieces'](src)))
                return I.z(I.seq_get_sym(cc, j2)) == sp(aux['pieces'](src, j2))
            I.prove_forked('clustering-channel-j-is-the-stripped-piece-j-of-this-rows-cell', cc_ok)

    def expected_outcomes(self, case):
        return ['return']

    def check(self, I, case, aux, out):
        P = I.ctx.prove
        P('no-exception-escapes-the-batch(every documented fault is recorded in place)', out.kind == 'return')
        if out.kind != 'return':
            return
        v = out.value
        n_out = 3 if case['full'] else 2
        ok = isinstance(v, Seq) and len(v.items) == n_out and all(isinstance(x, PDict) and x.ordered for x in v.items)
        P('result-is-%d-ordered-dictionaries' % n_out, ok)
        if case.get('empty') and ok:
            P('empty-table-gives-empty-results', all(len(x.keys) == 0 for x in v.items))


CONTRACTS.append(ProcessBeads())
