"""Contracts for FlowCal.gate (property C08; C05 for density2d)."""
import z3

from pyvc.verify import Contract
from pyvc.values import SV, Seq, NDArr, NT
from .common import sym_array, sym_fcs, sym_dims, struct_eq, zb, FCS_ATTRS, data_witness, mval


def zmax0(x):
    return z3.If(x < 0, z3.IntVal(0), x)


class StartEnd(Contract):
    target = 'FlowCal.gate.start_end'
    property_ids = ('C08',)

    def cases(self):
        out = []
        for cont in ('ndarray', 'FCSData'):
            for full in (False, True):
                for ndim in ((1, 2) if cont == 'ndarray' else (2,)):
                    out.append({'label': '%s-%dd-%s' % (cont, ndim, 'full' if full else 'short'),
                                'container': cont, 'full': full, 'ndim': ndim})
        return out

    def setup(self, I, case):
        N, D = sym_dims(I, 'N', 'D')
        shape = [N, D] if case['ndim'] == 2 else [N]
        if case['container'] == 'FCSData':
            data = sym_fcs(I, 'data', N, D)
        else:
            data = sym_array(I, 'data', shape, 'float')
        ns = I.ctx.fresh_int('num_start')
        ne = I.ctx.fresh_int('num_end')
        aux = {'N': N, 'D': D, 'data': data, 'ns': ns, 'ne': ne}
        return [data], {'num_start': SV(ns, 'int'), 'num_end': SV(ne, 'int'), 'full_output': case['full']}, aux

    def expected_outcomes(self, case):
        return ['return', 'raise:ValueError']

    def small_hints(self, case, aux):
        return size_hints(aux, [aux['ns'], aux['ne']])

    def witness(self, model, case, aux):
        w = data_witness(model, aux['data'], case['container'])
        w.update({'num_start': mval(model, aux['ns']), 'num_end': mval(model, aux['ne']), 'full': case['full']})
        return w

    def check(self, I, case, aux, out):
        P = I.ctx.prove
        N, ns, ne = aux['N'], aux['ns'], aux['ne']
        s, e = zmax0(ns), zmax0(ne)
        # error iff more events to drop than exist
        if out.kind == 'raise':
            P('raises-only-ValueError', out.raised('ValueError'))
            P('raises-iff-too-many', N < s + e)
            return
        P('no-raise-implies-enough-events', N >= s + e)
        v = out.value
        if case['full']:
            P('full-output-is-namedtuple', isinstance(v, NT) and v.cls.fields == ['gated_data', 'mask'])
            if not isinstance(v, NT):
                return
            gated, mask = v.get('gated_data'), v.get('mask')
        else:
            gated, mask = v, None
        check_gated(I, aux['data'], gated, mask, lambda i: z3.And(s <= i, i < N - e), N)


def size_hints(aux, extra=()):
    N, D = aux['N'], aux['D']
    out = []
    for n in (3, 6, 12, 30):
        out.append(z3.And(N <= n, D <= 4, D >= 1, *[z3.And(x >= -n - 2, x <= n + 2) for x in extra]))
    return out


def check_gated(I, data, gated, mask, pred, N):
    """gated == data restricted to {i : pred(i)} in order, with the same metadata; mask (when returned)
    is exactly pred."""
    P = I.ctx.prove
    ok = isinstance(gated, NDArr) and gated.term is not None and gated.term[0] == 'filter' and gated.term[1] is data
    P('gated-is-input-filtered-by-a-row-mask', ok)
    if not ok:
        return
    m = gated.term[2]
    if mask is not None:
        P('returned-mask-is-the-mask-applied', mask is m or (isinstance(mask, NDArr) and mask.fn is m.fn))
        P('mask-is-plain-bool-array', isinstance(mask, NDArr) and mask.dtype == 'bool' and mask.ndim == 1)
    i = z3.Int('ev_i')
    P('mask-length', (m.shape[0] if not isinstance(m.shape[0], int) else z3.IntVal(m.shape[0])) == N)
    P('mask-is-the-documented-predicate', z3.ForAll([i], z3.Implies(z3.And(0 <= i, i < N), m.fn(i) == pred(i))))
    P('container-kind-preserved', gated.cls == data.cls)
    if data.cls == 'FCSData':
        ga = I.np.ensure_attrs(gated)
        for name in FCS_ATTRS:
            if name not in ga:
                P('metadata-preserved.' + name, False)
            else:
                I.prove_forked('metadata-preserved.' + name, lambda name=name: struct_eq(I, ga[name], data.attrs[name]))


CONTRACTS = [StartEnd()]
