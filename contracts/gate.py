"""Contracts for FlowCal.gate (property C08; C05 for density2d)."""
import z3

from pyvc.verify import Contract
from pyvc.values import SV, Seq, NDArr, NT
from .common import sym_array, sym_fcs, sym_dims, struct_eq, zb, FCS_ATTRS, data_witness, mval


def zmax0(x):
    return z3.If(x < 0, z3.IntVal(0), x)


class StartEnd(Contract):
    target = 'FlowCal.gate.start_end'
    property_ids = ('C08',)

    def cases(self):
        out = []
        for cont in ('ndarray', 'FCSData'):
            for full in (False, True):
                for ndim in ((1, 2) if cont == 'ndarray' else (2,)):
                    out.append({'label': '%s-%dd-%s' % (cont, ndim, 'full' if full else 'short'),
                                'container': cont, 'full': full, 'ndim': ndim})
        return out

    def setup(self, I, case):
        N, D = sym_dims(I, 'N', 'D')
        shape = [N, D] if case['ndim'] == 2 else [N]
        if case['container'] == 'FCSData':
            data = sym_fcs(I, 'data', N, D)
        else:
            data = sym_array(I, 'data', shape, 'float')
        ns = I.ctx.fresh_int('num_start')
        ne = I.ctx.fresh_int('num_end')
        aux = {'N': N, 'D': D, 'data': data, 'ns': ns, 'ne': ne}
        return [data], {'num_start': SV(ns, 'int'), 'num_end': SV(ne, 'int'), 'full_output': case['full']}, aux

    def expected_outcomes(self, case):
        return ['return', 'raise:ValueError']

    def small_hints(self, case, aux):
        return size_hints(aux, [aux['ns'], aux['ne']])

    def witness(self, model, case, aux):
        w = data_witness(model, aux['data'], case['container'])
        w.update({'num_start': mval(model, aux['ns']), 'num_end': mval(model, aux['ne']), 'full': case['full']})
        return w

    def check(self, I, case, aux, out):
        P = I.ctx.prove
        N, ns, ne = aux['N'], aux['ns'], aux['ne']
        s, e = zmax0(ns), zmax0(ne)
        # error iff more events to drop than exist
        if out.kind == 'raise':
            P('raises-only-ValueError', out.raised('ValueError'))
            P('raises-iff-too-many', N < s + e)
            return
        P('no-raise-implies-enough-events', N >= s + e)
        v = out.value
        if case['full']:
            P('full-output-is-namedtuple', isinstance(v, NT) and v.cls.fields == ['gated_data', 'mask'])
            if not isinstance(v, NT):
                return
            gated, mask = v.get('gated_data'), v.get('mask')
        else:
            gated, mask = v, None
        check_gated(I, aux['data'], gated, mask, lambda i: z3.And(s <= i, i < N - e), N)


def size_hints(aux, extra=()):
    N, D = aux['N'], aux['D']
    out = []
    for n in (3, 6, 12, 30):
        out.append(z3.And(N <= n, D <= 4, D >= 1, *[z3.And(x >= -n - 2, x <= n + 2) for x in extra]))
    return out


def check_gated(I, data, gated, mask, pred, N):
    """gated == data restricted to {i : pred(i)} in order, with the same metadata; mask (when returned)
    is exactly pred."""
    P = I.ctx.prove
    ok = isinstance(gated, NDArr) and gated.term is not None and gated.term[0] == 'filter' and gated.term[1] is data
    P('gated-is-input-filtered-by-a-row-mask', ok)
    if not ok:
        return
    m = NDArr(gated.term[2].shape, gated.term[2].dtype, gated.term[3])      # the mask as it was when applied
    if mask is not None:
        P('returned-mask-is-the-mask-applied', mask is gated.term[2] and mask.view_of is None and mask._fn is gated.term[3])
        P('mask-is-plain-bool-array', isinstance(mask, NDArr) and mask.dtype == 'bool' and mask.ndim == 1)
    i = I.ctx.fresh_int('ev_i')      # arbitrary event (skolem constant of the universally quantified goal)
    P('mask-length', (m.shape[0] if not isinstance(m.shape[0], int) else z3.IntVal(m.shape[0])) == N)
    P('mask-is-the-documented-predicate', z3.Implies(z3.And(0 <= i, i < N), m.fn(i) == pred(i)), assume_after=False)
    P('container-kind-preserved', gated.cls == data.cls)
    if data.cls == 'FCSData':
        ga = I.np.ensure_attrs(gated)
        for name in FCS_ATTRS:
            if name not in ga:
                P('metadata-preserved.' + name, False)
            else:
                I.prove_forked('metadata-preserved.' + name, lambda name=name: struct_eq(I, ga[name], data.attrs[name]))


CONTRACTS = [StartEnd()]


# ---------------------------------------------------------------------------------------------
from pyvc.values import SymSeq, Inf
from pyvc.interp import stamp
from . import io_specs


def sym_int_list(I, name, n):
    f = I.ctx.fresh_fn(name, z3.IntSort(), z3.IntSort())
    s = stamp(SymSeq('list', n, lambda I_, i, f=f: SV(f(i), 'int')))
    s.ufn = f
    return s


def sym_str_list(I, name, n):
    f = I.ctx.fresh_fn(name, z3.IntSort(), z3.StringSort())
    s = stamp(SymSeq('list', n, lambda I_, i, f=f: SV(f(i), 'str')))
    s.ufn = f
    return s


class HighLow(Contract):
    target = 'FlowCal.gate.high_low'
    property_ids = ('C08',)
    config = {'call_contracts': io_specs.summaries()}
    max_paths = 400

    def cases(self):
        out = []
        for cont in ('ndarray', 'FCSData'):
            forms = ['none', 'int', 'intlist'] + (['str', 'strlist'] if cont == 'FCSData' else [])
            for ch in forms:
                for hl in ('dd', 'gd', 'dg', 'gg'):      # high/low given or defaulted
                    for full in (False, True):
                        out.append({'label': '%s-%s-%s-%s' % (cont, ch, hl, 'full' if full else 'short'),
                                    'container': cont, 'channels': ch, 'hl': hl, 'full': full})
        return out

    def setup(self, I, case):
        N, D = sym_dims(I, 'N', 'D')
        c = I.ctx
        if case['container'] == 'FCSData':
            data = sym_fcs(I, 'data', N, D, range_never_none=False)
            data.rng_none_used = True
        else:
            data = sym_array(I, 'data', [N, D], 'float')
        aux = {'N': N, 'D': D, 'data': data}
        form = case['channels']
        if form == 'none':
            ch = None
        elif form == 'int':
            aux['c'] = c.fresh_int('ch')
            ch = SV(aux['c'], 'int')
        elif form == 'str':
            aux['s'] = c.fresh_str('chname')
            ch = SV(aux['s'], 'str')
        else:
            n = c.fresh_int('n')
            c.assume(n >= 0)
            aux['n'] = n
            ch = sym_int_list(I, 'chs', n) if form == 'intlist' else sym_str_list(I, 'chnames', n)
            aux['chf'] = ch.ufn
        aux['channels'] = ch
        aux['high'] = c.fresh_real('high') if case['hl'][0] == 'g' else None
        aux['low'] = c.fresh_real('low') if case['hl'][1] == 'g' else None
        kw = {'channels': ch, 'full_output': case['full'],
              'high': None if aux['high'] is None else SV(aux['high'], 'real'),
              'low': None if aux['low'] is None else SV(aux['low'], 'real')}
        return [data], kw, aux

    def expected_outcomes(self, case):
        return ['return']

    def small_hints(self, case, aux):
        ex = [aux[k] for k in ('c', 'n') if k in aux]
        return size_hints(aux, ex)

    def witness(self, model, case, aux):
        w = data_witness(model, aux['data'], case['container'])
        form = case['channels']
        if form == 'none':
            ch = None
        elif form == 'int':
            ch = mval(model, aux['c'])
        elif form == 'str':
            ch = mval(model, aux['s'])
        else:
            n = mval(model, aux['n'])
            ch = [mval(model, aux['chf'](z3.IntVal(k))) for k in range(n)] if isinstance(n, int) and n <= 20 else None
        if case['container'] == 'FCSData' and w.get('meta') and form in ('str', 'strlist'):
            # channel names in the model are arbitrary strings: express the request by position in the witness
            names = [mval(model, aux['data'].meta.chan(z3.IntVal(i))) for i in range(len(w['meta']['channels']))]
            def to_safe(nm):
                return w['meta']['channels'][names.index(nm)] if nm in names else '__unknown__' + str(nm)[:8]
            ch = to_safe(ch) if form == 'str' else [to_safe(x) for x in ch]
        w.update({'channels': ch, 'high': None if aux['high'] is None else mval(model, aux['high']),
                  'low': None if aux['low'] is None else mval(model, aux['low']), 'full': case['full']})
        return w

    def check(self, I, case, aux, out):
        P = I.ctx.prove
        N, D, data = aux['N'], aux['D'], aux['data']
        form = case['channels']
        fcs = case['container'] == 'FCSData'
        m = data.meta if fcs else None
        # which requests are errors (taken from the property: unknown names / out-of-range positions)
        i, k, cidx = z3.Ints('hl_i hl_k hl_c')
        if form == 'none':
            valid = z3.BoolVal(True)
        elif form == 'int':
            valid = z3.And(-D <= aux['c'], aux['c'] < D)
        elif form == 'str':
            valid = z3.Exists([cidx], z3.And(0 <= cidx, cidx < D, m.chan(cidx) == aux['s']))
        elif form == 'intlist':
            valid = z3.ForAll([k], z3.Implies(z3.And(0 <= k, k < aux['n']), z3.And(-D <= aux['chf'](k), aux['chf'](k) < D)))
        else:
            valid = z3.ForAll([k], z3.Implies(z3.And(0 <= k, k < aux['n']),
                                              z3.Exists([cidx], z3.And(0 <= cidx, cidx < D, m.chan(cidx) == aux['chf'](k)))))
        if out.kind == 'raise':
            P('raises-only-for-invalid-channel-request', z3.Not(valid))
            P('invalid-channel-error-class', out.raised('ValueError') or out.raised('IndexError'))
            return
        P('valid-request', valid)
        v = out.value
        if case['full']:
            P('full-output-is-namedtuple', isinstance(v, NT) and v.cls.fields == ['gated_data', 'mask'])
            if not isinstance(v, NT):
                return
            gated, mask = v.get('gated_data'), v.get('mask')
        else:
            gated, mask = v, None
        x = data.ufn        # the events as they were handed in

        def within(i_, c_):
            """event i strictly between the thresholds of column c"""
            val = x(i_, c_)
            if aux['high'] is not None:
                hi_ok = val < aux['high']
            elif fcs:
                hi_ok = z3.Or(m.rng_none(c_), val < m.hi(c_))
            else:
                hi_ok = z3.BoolVal(True)
            if aux['low'] is not None:
                lo_ok = val > aux['low']
            elif fcs:
                lo_ok = z3.Or(m.rng_none(c_), val > m.lo(c_))
            else:
                lo_ok = z3.BoolVal(True)
            return z3.And(hi_ok, lo_ok)

        def norm(c_):
            return z3.If(c_ < 0, c_ + D, c_)
        if form == 'none':
            pred = lambda i_: z3.ForAll([cidx], z3.Implies(z3.And(0 <= cidx, cidx < D), within(i_, cidx)))
        elif form == 'int':
            pred = lambda i_: within(i_, norm(aux['c']))
        elif form == 'str':
            pred = lambda i_: z3.ForAll([cidx], z3.Implies(z3.And(0 <= cidx, cidx < D, m.chan(cidx) == aux['s']), within(i_, cidx)))
        elif form == 'intlist':
            pred = lambda i_: z3.ForAll([k], z3.Implies(z3.And(0 <= k, k < aux['n']), within(i_, norm(aux['chf'](k)))))
        else:
            pred = lambda i_: z3.ForAll([k, cidx], z3.Implies(z3.And(0 <= k, k < aux['n'], 0 <= cidx, cidx < D,
                                                                     m.chan(cidx) == aux['chf'](k)), within(i_, cidx)))
        check_gated(I, data, gated, mask, pred, N)


CONTRACTS.append(HighLow())


# ---------------------------------------------------------------------------------------------
from pyvc import interp as M


class Ellipse(Contract):
    target = 'FlowCal.gate.ellipse'
    property_ids = ('C08',)
    config = {'call_contracts': io_specs.summaries()}
    assumptions = ('ellipse: semi-axes a > 0 and b > 0 (division by the semi-axes); A-REAL: cos/sin/log10/exp10 are '
                   'uninterpreted with cos^2+sin^2=1, log10(exp10 x)=x',)

    def cases(self):
        out = []
        for cont in ('ndarray', 'FCSData'):
            forms = ['int2', 'badlen'] + (['str2'] if cont == 'FCSData' else [])
            for ch in forms:
                for log in (False, True):
                    for full in (False, True):
                        if ch == 'badlen' and (log or full):
                            continue
                        out.append({'label': '%s-%s-%s-%s' % (cont, ch, 'log' if log else 'lin', 'full' if full else 'short'),
                                    'container': cont, 'channels': ch, 'log': log, 'full': full})
        return out

    def setup(self, I, case):
        N, D = sym_dims(I, 'N', 'D')
        c = I.ctx
        if case['container'] == 'FCSData':
            data = sym_fcs(I, 'data', N, D)
        else:
            data = sym_array(I, 'data', [N, D], 'float')
        aux = {'N': N, 'D': D, 'data': data}
        form = case['channels']
        if form == 'int2':
            aux['c0'], aux['c1'] = c.fresh_int('ch0'), c.fresh_int('ch1')
            ch = stamp(Seq('list', [SV(aux['c0'], 'int'), SV(aux['c1'], 'int')]))
        elif form == 'str2':
            aux['s0'], aux['s1'] = c.fresh_str('chn0'), c.fresh_str('chn1')
            ch = stamp(Seq('list', [SV(aux['s0'], 'str'), SV(aux['s1'], 'str')]))
        else:
            n = c.fresh_int('n')
            c.assume(z3.And(n >= 0, n != 2))
            ch = sym_int_list(I, 'chs', n)
        for nm in ('cx', 'cy', 'a', 'b', 'theta'):
            aux[nm] = c.fresh_real(nm)
        c.assume(z3.And(aux['a'] > 0, aux['b'] > 0))
        center = stamp(Seq('list', [SV(aux['cx'], 'real'), SV(aux['cy'], 'real')]))
        kw = {'center': center, 'a': SV(aux['a'], 'real'), 'b': SV(aux['b'], 'real'), 'theta': SV(aux['theta'], 'real'),
              'log': case['log'], 'full_output': case['full']}
        return [data, ch], kw, aux

    def expected_outcomes(self, case):
        return ['raise:ValueError'] if case['channels'] == 'badlen' else ['return']

    def small_hints(self, case, aux):
        ex = [aux[k] for k in ('c0', 'c1') if k in aux]
        th = aux['theta']
        generic = z3.And(M.fsin(th) != 0, M.fcos(th) != 0, aux['a'] != aux['b'], M.fsin(th) > 0, M.fcos(th) > 0,
                         M.fcos(th) * M.fcos(th) + M.fsin(th) * M.fsin(th) == 1)
        return [z3.And(h, generic) for h in size_hints(aux, ex)] + size_hints(aux, ex)

    def witness(self, model, case, aux):
        w = data_witness(model, aux['data'], case['container'])
        if case['channels'] == 'int2':
            ch = [mval(model, aux['c0']), mval(model, aux['c1'])]
        elif case['channels'] == 'str2' and w.get('meta'):
            names = [mval(model, aux['data'].meta.chan(z3.IntVal(i))) for i in range(len(w['meta']['channels']))]
            ch = [w['meta']['channels'][names.index(mval(model, aux[k]))] if mval(model, aux[k]) in names else '__unknown__'
                  for k in ('s0', 's1')]
        else:
            ch = None
        w.update({'channels': ch, 'center': [mval(model, aux['cx']), mval(model, aux['cy'])], 'a': mval(model, aux['a']),
                  'b': mval(model, aux['b']), 'theta': mval(model, aux['theta']), 'cos': mval(model, M.fcos(aux['theta'])),
                  'sin': mval(model, M.fsin(aux['theta'])), 'log': case['log'], 'full': case['full']})
        return w

    def check(self, I, case, aux, out):
        P = I.ctx.prove
        N, D, data = aux['N'], aux['D'], aux['data']
        form = case['channels']
        fcs = case['container'] == 'FCSData'
        m = data.meta if fcs else None
        if form == 'badlen':
            P('wrong-number-of-channels-raises-ValueError', out.raised('ValueError'))
            return
        c0, c1 = z3.Ints('el_c0 el_c1')
        if form == 'int2':
            valid = z3.And(-D <= aux['c0'], aux['c0'] < D, -D <= aux['c1'], aux['c1'] < D)
            cols = (z3.If(aux['c0'] < 0, aux['c0'] + D, aux['c0']), z3.If(aux['c1'] < 0, aux['c1'] + D, aux['c1']))
        else:
            valid = z3.Exists([c0, c1], z3.And(0 <= c0, c0 < D, 0 <= c1, c1 < D, m.chan(c0) == aux['s0'], m.chan(c1) == aux['s1']))
        if out.kind == 'raise':
            P('raises-only-for-invalid-channel-request', z3.Not(valid))
            P('invalid-channel-error-class', out.raised('ValueError') or out.raised('IndexError'))
            return
        P('valid-request', valid)
        if form == 'str2':
            # the columns carrying the two names (unique: names are distinct)
            k0, k1 = I.ctx.fresh_int('col0'), I.ctx.fresh_int('col1')
            I.ctx.assume(z3.And(0 <= k0, k0 < D, 0 <= k1, k1 < D, m.chan(k0) == aux['s0'], m.chan(k1) == aux['s1']))
            cols = (k0, k1)
        v = out.value
        fields = ['gated_data', 'mask', 'contour']
        if case['full']:
            P('full-output-is-namedtuple', isinstance(v, NT) and v.cls.fields == fields)
            if not isinstance(v, NT):
                return
            gated, mask, contour = v.get('gated_data'), v.get('mask'), v.get('contour')
        else:
            gated, mask, contour = v, None, None
        cx, cy, a, b, th = aux['cx'], aux['cy'], aux['a'], aux['b'], aux['theta']
        co, si = M.fcos(th), M.fsin(th)
        tr = (lambda e: M.log10(e)) if case['log'] else (lambda e: e)

        def quad(px, py):
            u = co * (px - cx) + si * (py - cy)
            w = -si * (px - cx) + co * (py - cy)
            return (u / a) * (u / a) + (w / b) * (w / b)
        pred = lambda i_: quad(tr(data.ufn(i_, cols[0])), tr(data.ufn(i_, cols[1]))) <= 1
        check_gated(I, data, gated, mask, pred, N)
        if contour is not None:
            ok = isinstance(contour, Seq) and len(contour.items) == 1 and isinstance(contour.items[0], NDArr) \
                and contour.items[0].ndim == 2
            P('contour-is-a-list-of-one-2d-array', ok)
            if ok:
                ci = contour.items[0]
                P('contour-shape', z3.And(I.np.dim_z(ci.shape[0]) >= 3, I.np.dim_z(ci.shape[1]) == 2))
                k = z3.Int('ct_k')
                x = z3.Real('ax_t')
                # trigonometric identity (A-REAL)
                I.ctx.add_axiom(z3.ForAll([x], M.fcos(x) * M.fcos(x) + M.fsin(x) * M.fsin(x) == 1,
                                          patterns=[M.fcos(x)]), 'A-REAL:cos^2+sin^2=1')
                P('contour-points-lie-on-the-same-ellipse',
                  z3.ForAll([k], z3.Implies(z3.And(0 <= k, k < I.np.dim_z(ci.shape[0])),
                                            quad(tr(ci.fn(k, z3.IntVal(0))), tr(ci.fn(k, z3.IntVal(1)))) == 1)))


CONTRACTS.append(Ellipse())


# ---------------------------------------------------------------------------------------------
class Density2dArguments(Contract):
    """C05 (argument validation only): other than two channels / fewer than two events are refused before anything is computed.
    The histogram / smoothing / cumulative cut / event mapping of density2d use object arrays of Python lists, argsort, cumsum and
    scikit-image: outside the prover's subset (stated), decided by the bounded stand-in."""
    target = 'FlowCal.gate.density2d'
    property_ids = ('C05',)
    config = {'call_contracts': io_specs.summaries()}

    def cases(self):
        out = []
        for cont in ('ndarray', 'FCSData'):
            out.append({'label': '%s-wrong-number-of-channels' % cont, 'container': cont, 'kind': 'badlen'})
            out.append({'label': '%s-fewer-than-two-events' % cont, 'container': cont, 'kind': 'fewevents'})
        return out

    def setup(self, I, case):
        c = I.ctx
        N, D = sym_dims(I, 'N', 'D')
        c.assume(D >= 2)
        data = sym_fcs(I, 'data', N, D) if case['container'] == 'FCSData' else sym_array(I, 'data', [N, D], 'float')
        aux = {'N': N, 'D': D, 'data': data}
        if case['kind'] == 'badlen':
            n = c.fresh_int('n')
            c.assume(z3.And(n >= 0, n != 2))
            ch = sym_int_list(I, 'chs', n)
        else:
            c.assume(N <= 1)
            ch = stamp(Seq('list', [0, 1]))
        return [data], {'channels': ch, 'gate_fraction': SV(c.fresh_real('f'), 'real')}, aux

    def expected_outcomes(self, case):
        return ['raise:ValueError']

    def check(self, I, case, aux, out):
        I.ctx.prove('refused-with-ValueError-before-any-gating', out.raised('ValueError'))


CONTRACTS.append(Density2dArguments())


# ---------------------------------------------------------------------------------------------
class Density2d(Contract):
    """C05, deductive core: density2d on explicit per-axis bin edges (strictly increasing), for all event sets, all grid
    shapes, all gate fractions and all smoothing widths.

    What is proved of the real body (every obligation is a formula over the run's inputs and the values the function computed,
    read from its locals at the end of the symbolic run):
      * event mapping: an event is kept iff it lies inside the grid and the bin (a, b) it lies in -- by the documented rule
        e[a] <= v < e[a+1], last edge closed -- is set in the bin mask (returned, or handed in for re-gating); hence bins are
        kept or dropped whole, no out-of-grid event is kept, and re-gating with the returned edges and mask gives the same set;
      * target: the code's n is ceil(f * #in-grid events), where #in-grid is the cardinality of the filter by the in-grid predicate;
      * cumulative cut: with c_k the cumulative histogram count over the bins in density order, c_Nidx >= n and
        (Nidx == 0 or c_(Nidx-1) < n); the bin mask is exactly the first Nidx+1 bins of that order;
      * density order: every kept bin has normalised smoothed density >= every dropped bin;
      * refusal: ValueError iff f outside [0, 1]; f*n == 0 keeps nothing.
    Library steps are contracts (A-LIB): np.histogram2d (non-negative counts H; A-COUNT: H[a,b] is the number of events whose
    bin is (a,b), which is what links "cumulative histogram count" to "number of kept events"), np.digitize bracket property,
    np.argsort permutation/sortedness, np.cumsum recurrence, scipy gaussian_filter (uninterpreted), skimage find_contours
    (abstracted to no contours: the contour output is not covered)."""
    target = 'FlowCal.gate.density2d'
    property_ids = ('C05',)
    config = {'call_contracts': io_specs.summaries()}
    max_paths = 400
    frame_echo = ('bin_mask',)      # re-gating reports the bin mask it was given (the gated sample itself must share nothing)
    assumptions = ('density2d: bin edges strictly increasing with at least two edges per axis; valid channel positions; N >= 2 '
                   '(refusals are the Density2dArguments contract)',
                   'A-COUNT: np.histogram2d(x, y, [xe, ye])[a, b] = number of events whose documented bin is (a, b) '
                   '(assumed contract of NumPy; ties the cumulative histogram counts to numbers of kept events)',
                   'contour output (skimage.measure.find_contours + np.interp) is not modelled: find_contours returns no contours')

    def cases(self):
        out = []
        for cont in ('ndarray', 'FCSData'):
            out.append({'label': '%s-edges-gate' % cont, 'container': cont, 'kind': 'gate'})
            out.append({'label': '%s-edges-regate' % cont, 'container': cont, 'kind': 'regate'})
        return out

    def setup(self, I, case):
        c = I.ctx
        N, D = sym_dims(I, 'N', 'D')
        c.assume(z3.And(N >= 2, D >= 2))
        data = sym_fcs(I, 'data', N, D) if case['container'] == 'FCSData' else sym_array(I, 'data', [N, D], 'float')
        c0, c1 = c.fresh_int('ch0'), c.fresh_int('ch1')
        c.assume(z3.And(-D <= c0, c0 < D, -D <= c1, c1 < D))
        Lx, Ly = c.fresh_int('Lx'), c.fresh_int('Ly')
        c.assume(z3.And(Lx >= 2, Ly >= 2))
        xe = sym_array(I, 'xe', [Lx], 'float')
        ye = sym_array(I, 'ye', [Ly], 'float')
        p, q = z3.Ints('ed_p ed_q')
        for e, L in ((xe, Lx), (ye, Ly)):
            c.assume(z3.ForAll([p, q], z3.Implies(z3.And(0 <= p, p < q, q < L), e.ufn(p) < e.ufn(q)),
                               patterns=[z3.MultiPattern(e.ufn(p), e.ufn(q))]))
        f = c.fresh_real('f')
        sigma = c.fresh_real('sigma')
        c.assume(sigma > 0)
        aux = {'N': N, 'D': D, 'data': data, 'c0': c0, 'c1': c1, 'Lx': Lx, 'Ly': Ly, 'xe': xe, 'ye': ye, 'f': f, 'sigma': sigma}
        kw = {'channels': stamp(Seq('list', [SV(c0, 'int'), SV(c1, 'int')])), 'bins': stamp(Seq('list', [xe, ye])),
              'gate_fraction': SV(f, 'real'), 'sigma': SV(sigma, 'real'), 'full_output': True}
        if case['kind'] == 'regate':
            bm = sym_array(I, 'bm', [I.np.norm_dim(Lx - 1), I.np.norm_dim(Ly - 1)], 'bool')
            aux['bm'] = bm
            kw['bin_mask'] = bm
        return [data], kw, aux

    def expected_outcomes(self, case):
        return ['return'] if case['kind'] == 'regate' else ['return', 'raise:ValueError']

    def small_hints(self, case, aux):
        return [z3.And(aux['N'] <= n, aux['D'] <= 3, aux['Lx'] <= 4, aux['Ly'] <= 4) for n in (3, 6)]

    def witness(self, model, case, aux):
        w = data_witness(model, aux['data'], case['container'])
        ex, _ = __import__('contracts.common', fromlist=['array_witness']).array_witness(model, aux['xe'])
        ey, _ = __import__('contracts.common', fromlist=['array_witness']).array_witness(model, aux['ye'])
        w.update({'kind': 'gate', 'channels': [mval(model, aux['c0']), mval(model, aux['c1'])],
                  'bins': [{'edges': ex}, {'edges': ey}], 'fractions': [mval(model, aux['f'])], 'sigma': mval(model, aux['sigma'])})
        return w

    def check(self, I, case, aux, out):
        c = I.ctx
        P = c.prove
        N, D, data, f = aux['N'], aux['D'], aux['data'], aux['f']
        Lx, Ly = aux['Lx'], aux['Ly']
        env = getattr(I, 'top_env', {})
        regate = case['kind'] == 'regate'
        if out.kind == 'raise':
            if out.raised('IndexError') and not regate:
                # np.nonzero(csvH >= n)[0][0] found no bin: the histogram holds fewer than n events in total, which the assumed
                # contract of np.histogram2d (A-COUNT: the counts add up to the number of in-grid events >= n) excludes
                cs, n_ = env.get('csvH'), env.get('n')
                ok = isinstance(cs, NDArr) and n_ is not None
                P('index-error-only-if-histogram-total-below-target', ok)
                if ok:
                    M = I.np.dim_z(cs.shape[0])
                    P('index-error-only-if-histogram-total-below-target.cumulative', z3.Implies(M >= 1, cs.fn(M - 1) < I.z(n_, 'int')))
                return
            P('raises-only-ValueError', out.raised('ValueError'))
            P('refused-only-for-fraction-outside-0-1', z3.Or(f < 0, f > 1) if not regate else z3.BoolVal(False))
            return
        if not regate:
            P('accepted-fraction-within-0-1', z3.And(0 <= f, f <= 1))
        v = out.value
        fields = ['gated_data', 'mask', 'contour', 'bin_edges', 'bin_mask']
        P('full-output-is-namedtuple', isinstance(v, NT) and v.cls.fields == fields)
        if not (isinstance(v, NT) and v.cls.fields == fields):
            return
        gated, mask, edges, bmask = v.get('gated_data'), v.get('mask'), v.get('bin_edges'), v.get('bin_mask')
        ok = isinstance(gated, NDArr) and gated.term is not None and gated.term[0] == 'filter' and gated.term[1] is data \
            and gated.term[2] is mask and mask._fn is gated.term[3] and mask.view_of is None
        P('gated-data-is-the-input-filtered-by-the-returned-mask', ok)
        if ok:
            P('container-kind-preserved', gated.cls == data.cls)
            if data.cls == 'FCSData':
                ga = I.np.ensure_attrs(gated)
                for name in FCS_ATTRS:
                    if name not in ga:
                        P('metadata-preserved.' + name, False)
                    else:
                        I.prove_forked('metadata-preserved.' + name, lambda name=name: struct_eq(I, ga[name], data.attrs[name]))
        P('mask-is-plain-bool-array-of-length-N', isinstance(mask, NDArr) and mask.dtype == 'bool' and mask.ndim == 1)
        P('mask-length', I.np.dim_z(mask.shape[0]) == N)
        eok = isinstance(edges, Seq) and edges.kind == 'tuple' and len(edges.items) == 2 and all(isinstance(e, NDArr) and e.ndim == 1 for e in edges.items)
        P('bin-edges-is-a-pair-of-1d-arrays', eok)
        bok = isinstance(bmask, NDArr) and bmask.ndim == 2 and bmask.dtype == 'bool'
        P('bin-mask-is-2d-bool', bok)
        if not (eok and bok and isinstance(mask, NDArr)):
            return
        k = c.fresh_int('ed_k')
        for nm, e, src, L in (('x', edges.items[0], aux['xe'], Lx), ('y', edges.items[1], aux['ye'], Ly)):
            P('returned-%s-edges-are-the-given-edges' % nm,
              z3.And(I.np.dim_z(e.shape[0]) == L, z3.Implies(z3.And(0 <= k, k < L), e.fn(k) == src.ufn(k))), assume_after=False)
        P('bin-mask-shape', z3.And(I.np.dim_z(bmask.shape[0]) == Lx - 1, I.np.dim_z(bmask.shape[1]) == Ly - 1))
        if regate:
            a_, b_ = c.fresh_int('bm_a'), c.fresh_int('bm_b')
            P('returned-bin-mask-is-the-given-one', z3.Implies(z3.And(0 <= a_, a_ < Lx - 1, 0 <= b_, b_ < Ly - 1),
                                                               bmask.fn(a_, b_) == aux['bm'].ufn(a_, b_)), assume_after=False)
        # ---- event mapping --------------------------------------------------------------------------------------------
        cn0 = z3.If(aux['c0'] < 0, aux['c0'] + D, aux['c0'])
        cn1 = z3.If(aux['c1'] < 0, aux['c1'] + D, aux['c1'])
        X = lambda i_: data.ufn(i_, cn0)
        Y = lambda i_: data.ufn(i_, cn1)
        XE, YE = aux['xe'].ufn, aux['ye'].ufn
        ingrid = lambda i_: z3.And(XE(0) <= X(i_), X(i_) <= XE(Lx - 1), YE(0) <= Y(i_), Y(i_) <= YE(Ly - 1))

        def inbin(val, E, L, a):
            return z3.And(0 <= a, a <= L - 2, E(a) <= val, z3.Or(val < E(a + 1), z3.And(a == L - 2, val == E(L - 1))))
        i = c.fresh_int('ev_i')
        a, b = c.fresh_int('bin_a'), c.fresh_int('bin_b')
        BM = bmask.fn
        # name the filter rank of event i so that the enumeration axioms of the in-grid filter are instantiated for it
        om = env.get('outlier_mask')
        evi = env.get('event_indices')
        sel = getattr(evi, 'filter_sel', None) if isinstance(evi, NDArr) else None
        hyp = [0 <= i, i < N]
        if sel is not None and hasattr(sel, 'rank'):
            c.mention(sel.rank(i))
        if isinstance(om, NDArr):
            P('outlier-mask-is-not-in-grid', z3.Implies(z3.And(*hyp), om.fn(i) == z3.Not(ingrid(i))), assume_after=False)
        P('out-of-grid-event-is-never-kept', z3.Implies(z3.And(*hyp + [z3.Not(ingrid(i))]), z3.Not(mask.fn(i))), assume_after=False)
        zero_path = (not regate) and 'sidx' not in env          # n == 0: early return, nothing selected
        G = env.get('H_events')
        SELf = getattr(getattr(G, 'grid', None), 'selected_by', None)
        if zero_path:
            SELf = lambda a_, b_: z3.BoolVal(False)
        P('internals-visible(event lists per bin, selecting mask)', SELf is not None)
        if SELf is None:
            return
        rngab = z3.And(0 <= a, a < Lx - 1, 0 <= b, b < Ly - 1)
        P('bins-selected-for-the-event-lists-are-the-bin-mask', z3.Implies(rngab, SELf(a, b) == BM(a, b)), assume_after=False)
        P('event-kept-iff-its-bin-is-in-the-bin-mask',
          z3.Implies(z3.And(*hyp + [ingrid(i), inbin(X(i), XE, Lx, a), inbin(Y(i), YE, Ly, b)]), mask.fn(i) == SELf(a, b)), assume_after=False)
        if regate:
            return
        # ---- target count ---------------------------------------------------------------------------------------------
        n_ = env.get('n')
        nok = n_ is not None and sel is not None and hasattr(sel, 'cnt')
        P('internals-visible(n, in-grid filter)', nok)
        if not nok:
            return
        nz, cnt = I.z(n_, 'int'), sel.cnt
        P('in-grid-count-is-the-count-of-the-not-outlier-filter', isinstance(om, NDArr) and sel.mask_fn is not None)
        m_i = c.fresh_int('flt_i')
        P('in-grid-filter-predicate', z3.Implies(z3.And(0 <= m_i, m_i < N), sel.mask_fn(m_i) == ingrid(m_i)), assume_after=False)
        P('target-is-ceil-of-fraction-times-in-grid-count', z3.And(z3.ToReal(nz) - 1 < f * z3.ToReal(cnt), f * z3.ToReal(cnt) <= z3.ToReal(nz)))
        if 'sidx' not in env or isinstance(env.get('sidx'), type(None)):
            # n == 0: nothing is kept
            P('zero-target-path-only-when-target-is-zero', nz == 0)
            P('zero-target-keeps-nothing', z3.Implies(z3.And(0 <= i, i < N), z3.Not(mask.fn(i))), assume_after=False)
            P('zero-target-bin-mask-empty', z3.Implies(z3.And(0 <= a, a < Lx - 1, 0 <= b, b < Ly - 1), z3.Not(BM(a, b))), assume_after=False)
            return
        P('cut-path-only-when-target-positive', nz >= 1)
        # ---- cumulative cut -------------------------------------------------------------------------------------------
        H, sH, Dn, sidx, svH, csvH, Nidx = (env.get(x_) for x_ in ('H', 'sH', 'D', 'sidx', 'svH', 'csvH', 'Nidx'))
        iok = all(isinstance(x_, NDArr) for x_ in (H, sH, Dn, sidx, svH, csvH)) and Nidx is not None \
            and hasattr(H, 'hist_of') and hasattr(csvH, 'cumsum_of') and hasattr(sH, 'smooth_of')
        P('internals-visible(histogram, smoothed, order, cumulative counts)', iok)
        if not iok:
            return
        ho = H.hist_of
        P('histogram-is-of-the-two-requested-columns-and-the-given-edges',
          z3.And(z3.Implies(z3.And(0 <= i, i < N), z3.And(ho['x'](i) == X(i), ho['y'](i) == Y(i))),
                 I.np.dim_z(ho['n']) == N, I.np.dim_z(ho['xe'].shape[0]) == Lx, I.np.dim_z(ho['ye'].shape[0]) == Ly,
                 z3.Implies(z3.And(0 <= k, k < Lx), ho['xe'].fn(k) == XE(k)), z3.Implies(z3.And(0 <= k, k < Ly), ho['ye'].fn(k) == YE(k))),
          assume_after=False)
        P('smoothing-is-the-gaussian-filter-of-the-histogram-with-the-given-sigma',
          sH.smooth_of[0] is H and sH.smooth_of[1] is not None and z3.is_expr(I.z(sH.smooth_of[1], 'real')) and
          z3.eq(I.z(sH.smooth_of[1], 'real'), aux['sigma']))
        M, row, col, flat = I.np.flat_bijection(I.np.dim_z(H.shape[0]), I.np.dim_z(H.shape[1]))
        Nz = I.z(Nidx, 'int')
        S = sidx.fn
        kk = c.fresh_int('ord_k')
        P('order-lists-bin-positions', z3.And(I.np.dim_z(sidx.shape[0]) == M, z3.Implies(z3.And(0 <= kk, kk < M), z3.And(0 <= S(kk), S(kk) < M))),
          assume_after=False)
        P('cut-index-in-range', z3.And(0 <= Nz, Nz < M))
        C = csvH.fn
        P('counts-in-density-order', z3.Implies(z3.And(0 <= kk, kk < M), svH.fn(kk) == H.fn(row(S(kk)), col(S(kk)))), assume_after=False)
        P('cumulative-counts-recurrence', z3.And(C(0) == svH.fn(0), z3.Implies(z3.And(1 <= kk, kk < M), C(kk) == C(kk - 1) + svH.fn(kk))),
          assume_after=False)
        P('cut-reaches-the-target', C(Nz) >= z3.ToReal(nz))
        # name the rank of position Nidx-1 in the "cumulative count >= n" filter (instantiates its enumeration axioms)
        nzs = getattr(c, '_nonzero_sels', [])
        if nzs and hasattr(nzs[-1], 'rank'):
            c.mention(nzs[-1].rank(Nz - 1))
        P('cut-is-minimal(dropping the least dense kept bin falls below the target)', z3.Or(Nz == 0, C(Nz - 1) < z3.ToReal(nz)))
        # ---- bin mask = first Nidx+1 bins of the density order; density order ---------------------------------------------
        # sidx is the ascending argsort P read backwards; "the first Nidx+1 bins of the descending order" is stated over P:
        # bin (a, b) is kept iff its flat position is P(p) for some p in [M-1-Nidx, M)
        perm = getattr(sidx.view_of, 'perm', None) if sidx.view_of is not None else getattr(sidx, 'perm', None)
        P('internals-visible(argsort permutation)', perm is not None)
        if perm is None:
            return
        Pf, Qf, vfn = perm
        P('order-is-the-ascending-argsort-read-backwards', z3.Implies(z3.And(0 <= kk, kk < M), S(kk) == Pf(M - 1 - kk)), assume_after=False)
        tq = c.fresh_int('flat_t')
        P('argsort-is-of-the-flattened-normalised-density', z3.Implies(z3.And(0 <= tq, tq < M), vfn(tq) == Dn.fn(row(tq), col(tq))), assume_after=False)
        pq = z3.Int('bmp')
        kept = lambda a_, b_: z3.Exists([pq], z3.And(M - 1 - Nz <= pq, pq < M, Pf(pq) == flat(a_, b_)), patterns=[Pf(pq)])
        a2, b2 = c.fresh_int('bin_a2'), c.fresh_int('bin_b2')
        rng2 = z3.And(0 <= a2, a2 < Lx - 1, 0 <= b2, b2 < Ly - 1)
        # the two directions separately; "in the densest end => in the bin mask" for an explicit sorted position p0 (the index
        # of the accepted-bin list it corresponds to, M-1-p0, is named so that the store's existential can be instantiated)
        acc = env.get('accepted_bin_indices')
        accf = I.np.named_fn(acc.fn) if isinstance(acc, NDArr) else None
        for tag, (aa, bb, rr) in (('', (a, b, rngab)), ('(second bin)', (a2, b2, rng2))):
            p0 = c.fresh_int('sorted_pos')
            if accf is not None:
                c.mention(accf(M - 1 - p0))
            P('a-bin-at-the-densest-end-of-the-sorted-order-is-in-the-bin-mask' + tag,
              z3.Implies(z3.And(rr, M - 1 - Nz <= p0, p0 < M, Pf(p0) == flat(aa, bb)), BM(aa, bb)), assume_after=False)
            P('a-bin-in-the-bin-mask-is-at-the-densest-end-of-the-sorted-order' + tag, z3.Implies(z3.And(rr, BM(aa, bb)), kept(aa, bb)))
            # proved for an arbitrary position p0, hence for all: generalised and used as a lemma
            pz = z3.Int('sorted_p')
            c.assume(z3.Implies(rr, z3.ForAll([pz], z3.Implies(z3.And(M - 1 - Nz <= pz, pz < M, Pf(pz) == flat(aa, bb)), BM(aa, bb)), patterns=[Pf(pz)])))
        c.mention(Qf(flat(a2, b2)))      # names the sorted position of the second bin (instantiates the permutation axioms)
        # first over the sorted order alone (order, permutation, flattening), then carried over to the bin mask
        P('a-bin-in-the-densest-end-is-at-least-as-dense-as-a-bin-outside-it',
          z3.Implies(z3.And(rngab, rng2, kept(a, b), z3.Not(kept(a2, b2))), Dn.fn(a, b) >= Dn.fn(a2, b2)))
        P('no-kept-bin-is-less-dense-than-a-dropped-bin', z3.Implies(z3.And(rngab, rng2, BM(a, b), z3.Not(BM(a2, b2))), Dn.fn(a, b) >= Dn.fn(a2, b2)),
          assume_after=False)
        tot = getattr(c, '_last_total', None)
        P('internals-visible(total of the smoothed histogram)', tot is not None)
        if tot is not None:
            # np.sum(sH) > 0 is a property of the Gaussian filter of a non-negative histogram holding at least one event (A-LIB)
            P('density-is-the-smoothed-histogram-over-its-total',
              z3.Implies(z3.And(rngab, tot > 0), Dn.fn(a, b) * tot == sH.fn(a, b)), assume_after=False)
        import os
        if os.environ.get('DBG_FALSE'):
            P('debug-false', z3.BoolVal(False), assume_after=False)


CONTRACTS.append(Density2d())
