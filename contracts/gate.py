"""Contracts for FlowCal.gate (property C08; C05 for density2d)."""
import z3

from pyvc.verify import Contract
from pyvc.values import SV, Seq, NDArr, NT
from .common import sym_array, sym_fcs, sym_dims, struct_eq, zb, FCS_ATTRS, data_witness, mval


def zmax0(x):
    return z3.If(x < 0, z3.IntVal(0), x)


class StartEnd(Contract):
    target = 'FlowCal.gate.start_end'
    property_ids = ('C08',)

    def cases(self):
        out = []
        for cont in ('ndarray', 'FCSData'):
            for full in (False, True):
                for ndim in ((1, 2) if cont == 'ndarray' else (2,)):
                    out.append({'label': '%s-%dd-%s' % (cont, ndim, 'full' if full else 'short'),
                                'container': cont, 'full': full, 'ndim': ndim})
        return out

    def setup(self, I, case):
        N, D = sym_dims(I, 'N', 'D')
        shape = [N, D] if case['ndim'] == 2 else [N]
        if case['container'] == 'FCSData':
            data = sym_fcs(I, 'data', N, D)
        else:
            data = sym_array(I, 'data', shape, 'float')
        ns = I.ctx.fresh_int('num_start')
        ne = I.ctx.fresh_int('num_end')
        aux = {'N': N, 'D': D, 'data': data, 'ns': ns, 'ne': ne}
        return [data], {'num_start': SV(ns, 'int'), 'num_end': SV(ne, 'int'), 'full_output': case['full']}, aux

    def expected_outcomes(self, case):
        return ['return', 'raise:ValueError']

    def small_hints(self, case, aux):
        return size_hints(aux, [aux['ns'], aux['ne']])

    def witness(self, model, case, aux):
        w = data_witness(model, aux['data'], case['container'])
        w.update({'num_start': mval(model, aux['ns']), 'num_end': mval(model, aux['ne']), 'full': case['full']})
        return w

    def check(self, I, case, aux, out):
        P = I.ctx.prove
        N, ns, ne = aux['N'], aux['ns'], aux['ne']
        s, e = zmax0(ns), zmax0(ne)
        # error iff more events to drop than exist
        if out.kind == 'raise':
            P('raises-only-ValueError', out.raised('ValueError'))
            P('raises-iff-too-many', N < s + e)
            return
        P('no-raise-implies-enough-events', N >= s + e)
        v = out.value
        if case['full']:
            P('full-output-is-namedtuple', isinstance(v, NT) and v.cls.fields == ['gated_data', 'mask'])
            if not isinstance(v, NT):
                return
            gated, mask = v.get('gated_data'), v.get('mask')
        else:
            gated, mask = v, None
        check_gated(I, aux['data'], gated, mask, lambda i: z3.And(s <= i, i < N - e), N)


def size_hints(aux, extra=()):
    N, D = aux['N'], aux['D']
    out = []
    for n in (3, 6, 12, 30):
        out.append(z3.And(N <= n, D <= 4, D >= 1, *[z3.And(x >= -n - 2, x <= n + 2) for x in extra]))
    return out


def check_gated(I, data, gated, mask, pred, N):
    """gated == data restricted to {i : pred(i)} in order, with the same metadata; mask (when returned)
    is exactly pred."""
    P = I.ctx.prove
    ok = isinstance(gated, NDArr) and gated.term is not None and gated.term[0] == 'filter' and gated.term[1] is data
    P('gated-is-input-filtered-by-a-row-mask', ok)
    if not ok:
        return
    m = NDArr(gated.term[2].shape, gated.term[2].dtype, gated.term[3])      # the mask as it was when applied
    if mask is not None:
        P('returned-mask-is-the-mask-applied', mask is gated.term[2] and mask.view_of is None and mask._fn is gated.term[3])
        P('mask-is-plain-bool-array', isinstance(mask, NDArr) and mask.dtype == 'bool' and mask.ndim == 1)
    i = I.ctx.fresh_int('ev_i')      # arbitrary event (skolem constant of the universally quantified goal)
    P('mask-length', (m.shape[0] if not isinstance(m.shape[0], int) else z3.IntVal(m.shape[0])) == N)
    P('mask-is-the-documented-predicate', z3.Implies(z3.And(0 <= i, i < N), m.fn(i) == pred(i)), assume_after=False)
    P('container-kind-preserved', gated.cls == data.cls)
    if data.cls == 'FCSData':
        ga = I.np.ensure_attrs(gated)
        for name in FCS_ATTRS:
            if name not in ga:
                P('metadata-preserved.' + name, False)
            else:
                I.prove_forked('metadata-preserved.' + name, lambda name=name: struct_eq(I, ga[name], data.attrs[name]))


CONTRACTS = [StartEnd()]


# ---------------------------------------------------------------------------------------------
from pyvc.values import SymSeq, Inf
from pyvc.interp import stamp
from . import io_specs


def sym_int_list(I, name, n):
    f = I.ctx.fresh_fn(name, z3.IntSort(), z3.IntSort())
    s = stamp(SymSeq('list', n, lambda I_, i, f=f: SV(f(i), 'int')))
    s.ufn = f
    return s


def sym_str_list(I, name, n):
    f = I.ctx.fresh_fn(name, z3.IntSort(), z3.StringSort())
    s = stamp(SymSeq('list', n, lambda I_, i, f=f: SV(f(i), 'str')))
    s.ufn = f
    return s


class HighLow(Contract):
    target = 'FlowCal.gate.high_low'
    property_ids = ('C08',)
    config = {'call_contracts': io_specs.summaries()}
    max_paths = 400

    def cases(self):
        out = []
        for cont in ('ndarray', 'FCSData'):
            forms = ['none', 'int', 'intlist'] + (['str', 'strlist'] if cont == 'FCSData' else [])
            for ch in forms:
                for hl in ('dd', 'gd', 'dg', 'gg'):      # high/low given or defaulted
                    for full in (False, True):
                        out.append({'label': '%s-%s-%s-%s' % (cont, ch, hl, 'full' if full else 'short'),
                                    'container': cont, 'channels': ch, 'hl': hl, 'full': full})
        return out

    def setup(self, I, case):
        N, D = sym_dims(I, 'N', 'D')
        c = I.ctx
        if case['container'] == 'FCSData':
            data = sym_fcs(I, 'data', N, D, range_never_none=False)
            data.rng_none_used = True
        else:
            data = sym_array(I, 'data', [N, D], 'float')
        aux = {'N': N, 'D': D, 'data': data}
        form = case['channels']
        if form == 'none':
            ch = None
        elif form == 'int':
            aux['c'] = c.fresh_int('ch')
            ch = SV(aux['c'], 'int')
        elif form == 'str':
            aux['s'] = c.fresh_str('chname')
            ch = SV(aux['s'], 'str')
        else:
            n = c.fresh_int('n')
            c.assume(n >= 0)
            aux['n'] = n
            ch = sym_int_list(I, 'chs', n) if form == 'intlist' else sym_str_list(I, 'chnames', n)
            aux['chf'] = ch.ufn
        aux['channels'] = ch
        aux['high'] = c.fresh_real('high') if case['hl'][0] == 'g' else None
        aux['low'] = c.fresh_real('low') if case['hl'][1] == 'g' else None
        kw = {'channels': ch, 'full_output': case['full'],
              'high': None if aux['high'] is None else SV(aux['high'], 'real'),
              'low': None if aux['low'] is None else SV(aux['low'], 'real')}
        return [data], kw, aux

    def expected_outcomes(self, case):
        return ['return']

    def small_hints(self, case, aux):
        ex = [aux[k] for k in ('c', 'n') if k in aux]
        return size_hints(aux, ex)

    def witness(self, model, case, aux):
        w = data_witness(model, aux['data'], case['container'])
        form = case['channels']
        if form == 'none':
            ch = None
        elif form == 'int':
            ch = mval(model, aux['c'])
        elif form == 'str':
            ch = mval(model, aux['s'])
        else:
            n = mval(model, aux['n'])
            ch = [mval(model, aux['chf'](z3.IntVal(k))) for k in range(n)] if isinstance(n, int) and n <= 20 else None
        if case['container'] == 'FCSData' and w.get('meta') and form in ('str', 'strlist'):
            # channel names in the model are arbitrary strings: express the request by position in the witness
            names = [mval(model, aux['data'].meta.chan(z3.IntVal(i))) for i in range(len(w['meta']['channels']))]
            def to_safe(nm):
                return w['meta']['channels'][names.index(nm)] if nm in names else '__unknown__' + str(nm)[:8]
            ch = to_safe(ch) if form == 'str' else [to_safe(x) for x in ch]
        w.update({'channels': ch, 'high': None if aux['high'] is None else mval(model, aux['high']),
                  'low': None if aux['low'] is None else mval(model, aux['low']), 'full': case['full']})
        return w

    def check(self, I, case, aux, out):
        P = I.ctx.prove
        N, D, data = aux['N'], aux['D'], aux['data']
        form = case['channels']
        fcs = case['container'] == 'FCSData'
        m = data.meta if fcs else None
        # which requests are errors (taken from the property: unknown names / out-of-range positions)
        i, k, cidx = z3.Ints('hl_i hl_k hl_c')
        if form == 'none':
            valid = z3.BoolVal(True)
        elif form == 'int':
            valid = z3.And(-D <= aux['c'], aux['c'] < D)
        elif form == 'str':
            valid = z3.Exists([cidx], z3.And(0 <= cidx, cidx < D, m.chan(cidx) == aux['s']))
        elif form == 'intlist':
            valid = z3.ForAll([k], z3.Implies(z3.And(0 <= k, k < aux['n']), z3.And(-D <= aux['chf'](k), aux['chf'](k) < D)))
        else:
            valid = z3.ForAll([k], z3.Implies(z3.And(0 <= k, k < aux['n']),
                                              z3.Exists([cidx], z3.And(0 <= cidx, cidx < D, m.chan(cidx) == aux['chf'](k)))))
        if out.kind == 'raise':
            P('raises-only-for-invalid-channel-request', z3.Not(valid))
            P('invalid-channel-error-class', out.raised('ValueError') or out.raised('IndexError'))
            return
        P('valid-request', valid)
        v = out.value
        if case['full']:
            P('full-output-is-namedtuple', isinstance(v, NT) and v.cls.fields == ['gated_data', 'mask'])
            if not isinstance(v, NT):
                return
            gated, mask = v.get('gated_data'), v.get('mask')
        else:
            gated, mask = v, None
        x = data.ufn        # the events as they were handed in

        def within(i_, c_):
            """event i strictly between the thresholds of column c"""
            val = x(i_, c_)
            if aux['high'] is not None:
                hi_ok = val < aux['high']
            elif fcs:
                hi_ok = z3.Or(m.rng_none(c_), val < m.hi(c_))
            else:
                hi_ok = z3.BoolVal(True)
            if aux['low'] is not None:
                lo_ok = val > aux['low']
            elif fcs:
                lo_ok = z3.Or(m.rng_none(c_), val > m.lo(c_))
            else:
                lo_ok = z3.BoolVal(True)
            return z3.And(hi_ok, lo_ok)

        def norm(c_):
            return z3.If(c_ < 0, c_ + D, c_)
        if form == 'none':
            pred = lambda i_: z3.ForAll([cidx], z3.Implies(z3.And(0 <= cidx, cidx < D), within(i_, cidx)))
        elif form == 'int':
            pred = lambda i_: within(i_, norm(aux['c']))
        elif form == 'str':
            pred = lambda i_: z3.ForAll([cidx], z3.Implies(z3.And(0 <= cidx, cidx < D, m.chan(cidx) == aux['s']), within(i_, cidx)))
        elif form == 'intlist':
            pred = lambda i_: z3.ForAll([k], z3.Implies(z3.And(0 <= k, k < aux['n']), within(i_, norm(aux['chf'](k)))))
        else:
            pred = lambda i_: z3.ForAll([k, cidx], z3.Implies(z3.And(0 <= k, k < aux['n'], 0 <= cidx, cidx < D,
                                                                     m.chan(cidx) == aux['chf'](k)), within(i_, cidx)))
        check_gated(I, data, gated, mask, pred, N)


CONTRACTS.append(HighLow())


# ---------------------------------------------------------------------------------------------
from pyvc import interp as M


class Ellipse(Contract):
    target = 'FlowCal.gate.ellipse'
    property_ids = ('C08',)
    config = {'call_contracts': io_specs.summaries()}
    assumptions = ('ellipse: semi-axes a > 0 and b > 0 (division by the semi-axes); A-REAL: cos/sin/log10/exp10 are '
                   'uninterpreted with cos^2+sin^2=1, log10(exp10 x)=x',)

    def cases(self):
        out = []
        for cont in ('ndarray', 'FCSData'):
            forms = ['int2', 'badlen'] + (['str2'] if cont == 'FCSData' else [])
            for ch in forms:
                for log in (False, True):
                    for full in (False, True):
                        if ch == 'badlen' and (log or full):
                            continue
                        out.append({'label': '%s-%s-%s-%s' % (cont, ch, 'log' if log else 'lin', 'full' if full else 'short'),
                                    'container': cont, 'channels': ch, 'log': log, 'full': full})
        return out

    def setup(self, I, case):
        N, D = sym_dims(I, 'N', 'D')
        c = I.ctx
        if case['container'] == 'FCSData':
            data = sym_fcs(I, 'data', N, D)
        else:
            data = sym_array(I, 'data', [N, D], 'float')
        aux = {'N': N, 'D': D, 'data': data}
        form = case['channels']
        if form == 'int2':
            aux['c0'], aux['c1'] = c.fresh_int('ch0'), c.fresh_int('ch1')
            ch = stamp(Seq('list', [SV(aux['c0'], 'int'), SV(aux['c1'], 'int')]))
        elif form == 'str2':
            aux['s0'], aux['s1'] = c.fresh_str('chn0'), c.fresh_str('chn1')
            ch = stamp(Seq('list', [SV(aux['s0'], 'str'), SV(aux['s1'], 'str')]))
        else:
            n = c.fresh_int('n')
            c.assume(z3.And(n >= 0, n != 2))
            ch = sym_int_list(I, 'chs', n)
        for nm in ('cx', 'cy', 'a', 'b', 'theta'):
            aux[nm] = c.fresh_real(nm)
        c.assume(z3.And(aux['a'] > 0, aux['b'] > 0))
        center = stamp(Seq('list', [SV(aux['cx'], 'real'), SV(aux['cy'], 'real')]))
        kw = {'center': center, 'a': SV(aux['a'], 'real'), 'b': SV(aux['b'], 'real'), 'theta': SV(aux['theta'], 'real'),
              'log': case['log'], 'full_output': case['full']}
        return [data, ch], kw, aux

    def expected_outcomes(self, case):
        return ['raise:ValueError'] if case['channels'] == 'badlen' else ['return']

    def small_hints(self, case, aux):
        ex = [aux[k] for k in ('c0', 'c1') if k in aux]
        th = aux['theta']
        generic = z3.And(M.fsin(th) != 0, M.fcos(th) != 0, aux['a'] != aux['b'], M.fsin(th) > 0, M.fcos(th) > 0,
                         M.fcos(th) * M.fcos(th) + M.fsin(th) * M.fsin(th) == 1)
        return [z3.And(h, generic) for h in size_hints(aux, ex)] + size_hints(aux, ex)

    def witness(self, model, case, aux):
        w = data_witness(model, aux['data'], case['container'])
        if case['channels'] == 'int2':
            ch = [mval(model, aux['c0']), mval(model, aux['c1'])]
        elif case['channels'] == 'str2' and w.get('meta'):
            names = [mval(model, aux['data'].meta.chan(z3.IntVal(i))) for i in range(len(w['meta']['channels']))]
            ch = [w['meta']['channels'][names.index(mval(model, aux[k]))] if mval(model, aux[k]) in names else '__unknown__'
                  for k in ('s0', 's1')]
        else:
            ch = None
        w.update({'channels': ch, 'center': [mval(model, aux['cx']), mval(model, aux['cy'])], 'a': mval(model, aux['a']),
                  'b': mval(model, aux['b']), 'theta': mval(model, aux['theta']), 'cos': mval(model, M.fcos(aux['theta'])),
                  'sin': mval(model, M.fsin(aux['theta'])), 'log': case['log'], 'full': case['full']})
        return w

    def check(self, I, case, aux, out):
        P = I.ctx.prove
        N, D, data = aux['N'], aux['D'], aux['data']
        form = case['channels']
        fcs = case['container'] == 'FCSData'
        m = data.meta if fcs else None
        if form == 'badlen':
            P('wrong-number-of-channels-raises-ValueError', out.raised('ValueError'))
            return
        c0, c1 = z3.Ints('el_c0 el_c1')
        if form == 'int2':
            valid = z3.And(-D <= aux['c0'], aux['c0'] < D, -D <= aux['c1'], aux['c1'] < D)
            cols = (z3.If(aux['c0'] < 0, aux['c0'] + D, aux['c0']), z3.If(aux['c1'] < 0, aux['c1'] + D, aux['c1']))
        else:
            valid = z3.Exists([c0, c1], z3.And(0 <= c0, c0 < D, 0 <= c1, c1 < D, m.chan(c0) == aux['s0'], m.chan(c1) == aux['s1']))
        if out.kind == 'raise':
            P('raises-only-for-invalid-channel-request', z3.Not(valid))
            P('invalid-channel-error-class', out.raised('ValueError') or out.raised('IndexError'))
            return
        P('valid-request', valid)
        if form == 'str2':
            # the columns carrying the two names (unique: names are distinct)
            k0, k1 = I.ctx.fresh_int('col0'), I.ctx.fresh_int('col1')
            I.ctx.assume(z3.And(0 <= k0, k0 < D, 0 <= k1, k1 < D, m.chan(k0) == aux['s0'], m.chan(k1) == aux['s1']))
            cols = (k0, k1)
        v = out.value
        fields = ['gated_data', 'mask', 'contour']
        if case['full']:
            P('full-output-is-namedtuple', isinstance(v, NT) and v.cls.fields == fields)
            if not isinstance(v, NT):
                return
            gated, mask, contour = v.get('gated_data'), v.get('mask'), v.get('contour')
        else:
            gated, mask, contour = v, None, None
        cx, cy, a, b, th = aux['cx'], aux['cy'], aux['a'], aux['b'], aux['theta']
        co, si = M.fcos(th), M.fsin(th)
        tr = (lambda e: M.log10(e)) if case['log'] else (lambda e: e)

        def quad(px, py):
            u = co * (px - cx) + si * (py - cy)
            w = -si * (px - cx) + co * (py - cy)
            return (u / a) * (u / a) + (w / b) * (w / b)
        pred = lambda i_: quad(tr(data.ufn(i_, cols[0])), tr(data.ufn(i_, cols[1]))) <= 1
        check_gated(I, data, gated, mask, pred, N)
        if contour is not None:
            ok = isinstance(contour, Seq) and len(contour.items) == 1 and isinstance(contour.items[0], NDArr) \
                and contour.items[0].ndim == 2
            P('contour-is-a-list-of-one-2d-array', ok)
            if ok:
                ci = contour.items[0]
                P('contour-shape', z3.And(I.np.dim_z(ci.shape[0]) >= 3, I.np.dim_z(ci.shape[1]) == 2))
                k = z3.Int('ct_k')
                x = z3.Real('ax_t')
                # trigonometric identity (A-REAL)
                I.ctx.add_axiom(z3.ForAll([x], M.fcos(x) * M.fcos(x) + M.fsin(x) * M.fsin(x) == 1,
                                          patterns=[M.fcos(x)]), 'A-REAL:cos^2+sin^2=1')
                P('contour-points-lie-on-the-same-ellipse',
                  z3.ForAll([k], z3.Implies(z3.And(0 <= k, k < I.np.dim_z(ci.shape[0])),
                                            quad(tr(ci.fn(k, z3.IntVal(0))), tr(ci.fn(k, z3.IntVal(1)))) == 1)))


CONTRACTS.append(Ellipse())


# ---------------------------------------------------------------------------------------------
class Density2dArguments(Contract):
    """C05 (argument validation only): other than two channels / fewer than two events are refused before anything is computed.
    The histogram / smoothing / cumulative cut / event mapping of density2d use object arrays of Python lists, argsort, cumsum and
    scikit-image: outside the prover's subset (stated), decided by the bounded stand-in."""
    target = 'FlowCal.gate.density2d'
    property_ids = ('C05',)
    config = {'call_contracts': io_specs.summaries()}

    def cases(self):
        out = []
        for cont in ('ndarray', 'FCSData'):
            out.append({'label': '%s-wrong-number-of-channels' % cont, 'container': cont, 'kind': 'badlen'})
            out.append({'label': '%s-fewer-than-two-events' % cont, 'container': cont, 'kind': 'fewevents'})
        return out

    def setup(self, I, case):
        c = I.ctx
        N, D = sym_dims(I, 'N', 'D')
        c.assume(D >= 2)
        data = sym_fcs(I, 'data', N, D) if case['container'] == 'FCSData' else sym_array(I, 'data', [N, D], 'float')
        aux = {'N': N, 'D': D, 'data': data}
        if case['kind'] == 'badlen':
            n = c.fresh_int('n')
            c.assume(z3.And(n >= 0, n != 2))
            ch = sym_int_list(I, 'chs', n)
        else:
            c.assume(N <= 1)
            ch = stamp(Seq('list', [0, 1]))
        return [data], {'channels': ch, 'gate_fraction': SV(c.fresh_real('f'), 'real')}, aux

    def expected_outcomes(self, case):
        return ['raise:ValueError']

    def check(self, I, case, aux, out):
        I.ctx.prove('refused-with-ValueError-before-any-gating', out.raised('ValueError'))


CONTRACTS.append(Density2dArguments())
