"""Contracts for FlowCal.io.FCSData helpers (C04, C20, C13 share them)."""
import z3

from pyvc.verify import Contract
from pyvc.values import SV, Seq, SymSeq, NDArr, NT, SliceV, ELLIPSIS, PyExc, Opaque
from pyvc.interp import stamp, EXC, exc_is
from pyvc.ctx import Unsupported
from .common import (sym_array, sym_fcs, sym_dims, struct_eq, zb, FCS_ATTRS, PER_CHANNEL, data_witness, mval, conj)
from . import io_specs
from .gate import sym_int_list, sym_str_list, size_hints


def run_spec(thunk):
    try:
        return 'return', thunk(), None
    except PyExc as e:
        return 'raise', None, e.exc


def agree(I, out, spec_thunk, eq=None, tag='', same_class=True):
    """the real outcome equals the spec function's outcome on this path"""
    P = I.ctx.prove
    kind, ev, eexc = run_spec(spec_thunk)
    P(tag + 'outcome-kind-agrees-with-spec(%s)' % kind, out.kind == kind)
    if out.kind != kind:
        return None
    if kind == 'raise':
        if same_class:
            P(tag + 'exception-class-agrees-with-spec', exc_is(out.exc.cls, eexc.cls) or exc_is(eexc.cls, out.exc.cls))
        return None
    if eq is None:
        I.prove_forked(tag + 'value-agrees-with-spec', lambda: struct_eq(I, out.value, ev))
    else:
        eq(out.value, ev)
    return ev


def clone_fcs(I, d):
    """a second sample with the same (symbolic) events and metadata, for running the spec side by side"""
    c = stamp(NDArr(list(d.shape), d.dtype, (lambda *i, f=d.ufn: f(*i)), 'FCSData'))
    c.attrs = dict(d.attrs)
    c.meta = d.meta
    c.bits = d.bits
    return c


def arrays_same(I, tag, a, b):
    """obligations: a and b are arrays of the same shape/dtype with equal elements (skolem indices)"""
    P = I.ctx.prove
    ok = isinstance(a, NDArr) and isinstance(b, NDArr) and a.ndim == b.ndim
    P(tag + 'both-arrays-same-rank', ok)
    if not ok:
        return
    dims = z3.And(*[I.np.dim_z(x) == I.np.dim_z(y) for x, y in zip(a.shape, b.shape)]) if a.ndim else z3.BoolVal(True)
    P(tag + 'same-shape', dims)
    idx = [I.ctx.fresh_int('ix%d' % k) for k in range(a.ndim)]
    rng = z3.And(*[z3.And(0 <= i, i < I.np.dim_z(s)) for i, s in zip(idx, a.shape)]) if idx else z3.BoolVal(True)
    P(tag + 'same-elements', z3.Implies(rng, a.fn(*idx) == b.fn(*idx)), assume_after=False)
    P(tag + 'same-dtype-and-container', a.dtype == b.dtype and a.cls == b.cls)


# ---------------------------------------------------------------------------------------------
class NameToIndex(Contract):
    target = 'FlowCal.io.FCSData._name_to_index'
    property_ids = ('C04', 'C03', 'C06', 'C12')
    config = {'call_contracts': io_specs.summaries()}

    def cases(self):
        return [{'label': f, 'form': f} for f in ('int', 'bool', 'npint', 'str', 'intlist', 'strlist', 'boollist', 'mixed2',
                                                  'tuple2', 'none', 'float', 'emptylist')]

    def setup(self, I, case):
        N, D = sym_dims(I, 'N', 'D')
        c = I.ctx
        data = sym_fcs(I, 'data', N, D)
        f = case['form']
        aux = {'N': N, 'D': D, 'data': data}
        if f == 'int':
            ch = SV(c.fresh_int('ch'), 'int')
        elif f == 'bool':
            ch = SV(c.fresh_bool('chb'), 'bool')
        elif f == 'npint':
            ch = SV(c.fresh_int('ch'), 'int', True)
        elif f == 'str':
            ch = SV(c.fresh_str('name'), 'str')
        elif f in ('intlist', 'strlist'):
            n = c.fresh_int('n')
            c.assume(n >= 0)
            ch = sym_int_list(I, 'chs', n) if f == 'intlist' else sym_str_list(I, 'names', n)
        elif f == 'boollist':
            n = c.fresh_int('n')
            c.assume(n >= 0)
            bf = c.fresh_fn('flags', z3.IntSort(), z3.BoolSort())
            ch = stamp(SymSeq('list', n, lambda I_, i, bf=bf: SV(bf(i), 'bool')))
        elif f == 'mixed2':
            ch = stamp(Seq('list', [SV(c.fresh_int('ch'), 'int'), SV(c.fresh_str('name'), 'str')]))
        elif f == 'tuple2':
            ch = stamp(Seq('tuple', [SV(c.fresh_str('name'), 'str'), SV(c.fresh_int('ch'), 'int')]))
        elif f == 'none':
            ch = None
        elif f == 'float':
            ch = SV(c.fresh_real('x'), 'real')
        else:
            ch = stamp(Seq('list', []))
        aux['ch'] = ch
        return [data, ch], {}, aux

    def expected_outcomes(self, case):
        return {'none': ['raise:TypeError'], 'float': ['raise:TypeError'], 'npint': ['raise:TypeError'],
                'bool': ['raise:TypeError'], 'boollist': ['raise:TypeError']}.get(
            case['form'], ['return'])

    def check(self, I, case, aux, out):
        agree(I, out, lambda: io_specs.n2i_spec(I, aux['data'], aux['ch']))


class Accessor(Contract):
    """range / resolution / amplification_type / amplifier_gain / detector_voltage / channel_labels"""
    frame_result = None       # accessors hand out stored values (range() returns the stored list itself): reading only
    property_ids = ('C04', 'C03', 'C19', 'C13')
    config = {'call_contracts': io_specs.summaries('FlowCal.io.FCSData._name_to_index',
                                                   'FlowCal.io.FCSData.__array_finalize__')}

    def __init__(self, name, attr):
        self.target = 'FlowCal.io.FCSData.' + name
        self.attr = attr

    def cases(self):
        return [{'label': f, 'form': f} for f in ('none', 'int', 'str', 'intlist', 'strlist')]

    def setup(self, I, case):
        N, D = sym_dims(I, 'N', 'D')
        c = I.ctx
        data = sym_fcs(I, 'data', N, D, range_never_none=False)
        f = case['form']
        if f == 'none':
            ch = None
        elif f == 'int':
            ch = SV(c.fresh_int('ch'), 'int')
        elif f == 'str':
            ch = SV(c.fresh_str('name'), 'str')
        else:
            n = c.fresh_int('n')
            c.assume(n >= 0)
            ch = sym_int_list(I, 'chs', n) if f == 'intlist' else sym_str_list(I, 'names', n)
        aux = {'data': data, 'ch': ch, 'N': N, 'D': D}
        return [data] + ([] if ch is None else [ch]), {}, aux

    def check(self, I, case, aux, out):
        agree(I, out, lambda: io_specs.accessor_spec(self.attr)(I, aux['data'], aux['ch']))
        if out.kind == 'return' and case['form'] in ('int', 'str') and self.attr == '_range' and out.value is not None:
            # the accessor hands out the stored cell itself (alias): callers must not edit it (used by C13/C19)
            I.ctx.note('range() returns the stored list object')


ACCESSORS = [Accessor(n, a) for n, a in (('range', '_range'), ('resolution', '_resolution'),
                                         ('amplification_type', '_amplification_type'),
                                         ('amplifier_gain', '_amplifier_gain'),
                                         ('detector_voltage', '_detector_voltage'),
                                         ('channel_labels', '_channel_labels'))]


class Range(Accessor):
    def __init__(self):
        Accessor.__init__(self, 'range', '_range')


class Resolution(Accessor):
    def __init__(self):
        Accessor.__init__(self, 'resolution', '_resolution')


class AmplificationType(Accessor):
    def __init__(self):
        Accessor.__init__(self, 'amplification_type', '_amplification_type')


class AmplifierGain(Accessor):
    def __init__(self):
        Accessor.__init__(self, 'amplifier_gain', '_amplifier_gain')


class DetectorVoltage(Accessor):
    def __init__(self):
        Accessor.__init__(self, 'detector_voltage', '_detector_voltage')


class ChannelLabels(Accessor):
    def __init__(self):
        Accessor.__init__(self, 'channel_labels', '_channel_labels')


# ---------------------------------------------------------------------------------------------
class ArrayFinalize(Contract):
    """C20/C13/C04: every attribute assigned in __new__ is propagated to a derived array, as a fresh deep copy"""
    target = 'FlowCal.io.FCSData.__array_finalize__'
    property_ids = ('C20', 'C13', 'C04')
    frame_modifies = (0,)     # the new array receives the attributes
    frame_result = None

    def cases(self):
        return [{'label': 'from-sample'}, {'label': 'from-none'}, {'label': 'from-plain-array'}]

    def setup(self, I, case):
        N, D = sym_dims(I, 'N', 'D')
        new = sym_array(I, 'new', [N, D], 'float', 'FCSData')
        new.attrs = {}
        if case['label'] == 'from-sample':
            obj = sym_fcs(I, 'obj', N, D, range_never_none=False)
        elif case['label'] == 'from-none':
            obj = None
        else:
            obj = sym_array(I, 'obj', [N, D], 'float')
        return [new, obj], {}, {'new': new, 'obj': obj}

    def witness(self, model, case, aux):
        return {'kind': 'independence-of-derived-samples'}

    def check(self, I, case, aux, out):
        P = I.ctx.prove
        new, obj = aux['new'], aux['obj']
        P('returns-normally', out.kind == 'return')
        if out.kind != 'return':
            return
        if case['label'] == 'from-none':
            P('nothing-set', len(new.attrs) == 0)
            return
        if case['label'] == 'from-plain-array':
            P('no-metadata-invented', all(k == '_infile' for k in new.attrs) and new.attrs.get('_infile', None) is None)
            return
        # the attribute set is derived from the assignments in FCSData.__new__ (so a new per-sample attribute
        # that is not propagated fails here)
        attrs = new_assigned_attrs(I)
        P('attribute-set-derived-from-__new__', sorted(attrs) == sorted(FCS_ATTRS))
        for a in attrs:
            if a not in new.attrs:
                P('propagated.' + a, False)
                continue
            I.prove_forked('propagated.' + a, lambda a=a: struct_eq(I, new.attrs[a], obj.attrs[a]))
            P('fresh(no shared mutable state).' + a, not shares_mutable(I, new.attrs[a], obj.attrs[a]))


def new_assigned_attrs(I):
    """names assigned as obj._xxx = ... in FCSData.__new__ (from the real AST)"""
    import ast
    from pyvc import loader
    node, _ = loader.find_def('FlowCal.io', 'FCSData.__new__')
    out = []
    for n in ast.walk(node):
        if isinstance(n, ast.Assign):
            for t in n.targets:
                if isinstance(t, ast.Attribute) and isinstance(t.value, ast.Name) and t.value.id == 'obj' and t.attr.startswith('_'):
                    out.append(t.attr)
    return out


def shares_mutable(I, a, b, depth=0):
    """True when some mutable container reachable from a is (by identity) reachable from b"""
    from pyvc.values import PDict, SymDict

    def mutables(v, acc, d=0):
        if isinstance(v, (PDict, SymDict, NDArr)):
            acc.append(v)
        if isinstance(v, Seq):
            if v.kind == 'list':
                acc.append(v)
            for x in v.items:
                mutables(x, acc, d + 1)
        if isinstance(v, SymSeq):
            if v.kind == 'list':
                acc.append(v)
            # mutable elements (range cells) are shared by shallow copies; a deep copy drops the token
            if v.elem_token is not None:
                acc.append(('elements-of', v.elem_token))
        return acc
    ma, mb = mutables(a, []), mutables(b, [])
    for x in ma:
        for y in mb:
            if x is y or (isinstance(x, tuple) and x == y):
                return True
    return False


CONTRACTS = [NameToIndex(), Range(), Resolution(), AmplificationType(), AmplifierGain(), DetectorVoltage(),
             ChannelLabels(), ArrayFinalize()]


# ---------------------------------------------------------------------------------------------
ROWS = ('int', 'slice', 'intlist', 'mask', 'ellipsis', 'full')
COLS = ('int', 'str', 'slice', 'intlist', 'strlist', 'mixed2', 'tuple2', 'ellipsis', 'npint', 'boollist', 'none', 'full')
SINGLE = ('int', 'slice', 'mask', 'ellipsis', 'intlist', 'str', 'triple')


def make_row_key(I, form, N, aux):
    c = I.ctx
    if form == 'int':
        aux['r'] = c.fresh_int('r')
        return SV(aux['r'], 'int')
    if form == 'slice':
        aux['ra'], aux['rb'] = c.fresh_int('ra'), c.fresh_int('rb')
        return SliceV(SV(aux['ra'], 'int'), SV(aux['rb'], 'int'), None)
    if form == 'intlist':
        aux['rn'] = c.fresh_int('rn')
        c.assume(aux['rn'] >= 0)
        s = sym_int_list(I, 'rows', aux['rn'])
        aux['rf'] = s.ufn
        return s
    if form == 'mask':
        m = sym_array(I, 'rowmask', [N], 'bool')
        aux['rm'] = m
        return m
    if form == 'ellipsis':
        return ELLIPSIS
    return SliceV(None, None, None)


def make_col_key(I, form, D, aux):
    c = I.ctx
    if form == 'int':
        aux['c'] = c.fresh_int('c')
        return SV(aux['c'], 'int')
    if form == 'npint':
        aux['c'] = c.fresh_int('c')
        return SV(aux['c'], 'int', True)
    if form == 'str':
        aux['s'] = c.fresh_str('name')
        return SV(aux['s'], 'str')
    if form == 'slice':
        aux['ca'], aux['cb'] = c.fresh_int('ca'), c.fresh_int('cb')
        return SliceV(SV(aux['ca'], 'int'), SV(aux['cb'], 'int'), None)
    if form in ('intlist', 'strlist'):
        aux['cn'] = c.fresh_int('cn')
        c.assume(aux['cn'] >= 0)
        s = sym_int_list(I, 'cols', aux['cn']) if form == 'intlist' else sym_str_list(I, 'names', aux['cn'])
        aux['cf'] = s.ufn
        return s
    if form in ('mixed2', 'tuple2'):
        aux['c'] = c.fresh_int('c')
        aux['s'] = c.fresh_str('name')
        return stamp(Seq('list' if form == 'mixed2' else 'tuple', [SV(aux['c'], 'int'), SV(aux['s'], 'str')]))
    if form == 'boollist':
        f = c.fresh_fn('colflags', z3.IntSort(), z3.BoolSort())
        aux['bf'] = f
        return stamp(SymSeq('list', D, lambda I_, i, f=f: SV(f(i), 'bool')))
    if form == 'ellipsis':
        return ELLIPSIS
    if form == 'none':
        return None
    return SliceV(None, None, None)


class GetItem(Contract):
    """C04: metadata stays aligned with the columns under every indexing expression"""
    target = 'FlowCal.io.FCSData.__getitem__'
    property_ids = ('C04', 'C13')
    frame_result = 'may-view'     # slicing/viewing may share the event buffer (as NumPy views do), never metadata
    config = {'call_contracts': io_specs.summaries('FlowCal.io.FCSData._name_to_index',
                                                   'FlowCal.io.FCSData.__array_finalize__')}
    max_paths = 600

    def cases(self):
        out = []
        for r in ROWS:
            for c in COLS:
                if c == 'none' and r in ('intlist', 'mask'):
                    continue     # newaxis next to an index array: outside the grammar and outside the NumPy model
                out.append({'label': 'rows=%s,cols=%s' % (r, c), 'rows': r, 'cols': c})
        for s in SINGLE:
            out.append({'label': 'single=%s' % s, 'single': s})
        return out

    def setup(self, I, case):
        N, D = sym_dims(I, 'N', 'D')
        data = sym_fcs(I, 'data', N, D, range_never_none=False)
        aux = {'N': N, 'D': D, 'data': data}
        if 'single' in case:
            f = case['single']
            if f == 'str':
                key = SV(I.ctx.fresh_str('name'), 'str')
            elif f == 'triple':
                key = stamp(Seq('tuple', [SliceV(None, None, None)] * 3))
            else:
                key = make_row_key(I, f, N, aux)
        else:
            key = stamp(Seq('tuple', [make_row_key(I, case['rows'], N, aux), make_col_key(I, case['cols'], D, aux)]))
        aux['key'] = key
        return [data, key], {}, aux

    def expected_outcomes(self, case):
        if case.get('cols') in ('npint', 'ellipsis', 'boollist') or case.get('single') in ('str', 'triple'):
            return []
        return ['return']

    def small_hints(self, case, aux):
        ex = [aux[k] for k in ('r', 'ra', 'rb', 'rn', 'c', 'ca', 'cb', 'cn') if k in aux]
        return size_hints(aux, ex)

    def witness(self, model, case, aux):
        w = data_witness(model, aux['data'], 'FCSData')
        names = None
        if w.get('meta'):
            names = [mval(model, aux['data'].meta.chan(z3.IntVal(i))) for i in range(len(w['meta']['channels']))]

        def nm(v):
            if names is not None and v in names:
                return w['meta']['channels'][names.index(v)]
            return '__unknown__'

        def lst(nkey, f, conv=lambda x: x):
            n = mval(model, aux[nkey])
            return [conv(mval(model, f(z3.IntVal(k)))) for k in range(n)] if isinstance(n, int) and n <= 20 else None
        key = {}
        r = case.get('rows') or case.get('single')
        if r == 'int':
            key['rows'] = mval(model, aux['r'])
        elif r == 'slice':
            key['rows'] = {'slice': [mval(model, aux['ra']), mval(model, aux['rb'])]}
        elif r == 'intlist':
            key['rows'] = lst('rn', aux['rf'])
        elif r == 'mask':
            shape0 = w['shape'][0]
            key['rows'] = {'mask': [bool(mval(model, aux['rm'].fn(z3.IntVal(i)))) for i in range(shape0)]} if isinstance(shape0, int) and shape0 <= 40 else None
        elif r == 'ellipsis':
            key['rows'] = 'Ellipsis'
        elif r == 'full':
            key['rows'] = {'slice': [None, None]}
        elif r == 'str':
            key['rows'] = '__unknown__'
        elif r == 'triple':
            key['rows'] = 'triple'
        c = case.get('cols')
        if c is not None:
            if c in ('int', 'npint'):
                key['cols'] = mval(model, aux['c']) if c == 'int' else {'npint': mval(model, aux['c'])}
            elif c == 'str':
                key['cols'] = nm(mval(model, aux['s']))
            elif c == 'slice':
                key['cols'] = {'slice': [mval(model, aux['ca']), mval(model, aux['cb'])]}
            elif c == 'intlist':
                key['cols'] = lst('cn', aux['cf'])
            elif c == 'strlist':
                key['cols'] = lst('cn', aux['cf'], nm)
            elif c in ('mixed2', 'tuple2'):
                key['cols'] = {('list' if c == 'mixed2' else 'tuple'): [mval(model, aux['c']), nm(mval(model, aux['s']))]}
            elif c == 'boollist':
                Dv = w['shape'][1]
                key['cols'] = {'bools': [bool(mval(model, aux['bf'](z3.IntVal(i)))) for i in range(Dv)]} if isinstance(Dv, int) else None
            elif c == 'ellipsis':
                key['cols'] = 'Ellipsis'
            elif c == 'none':
                key['cols'] = 'None'
            else:
                key['cols'] = {'slice': [None, None]}
        w['key'] = key
        w['single'] = 'single' in case
        return w

    def check(self, I, case, aux, out):
        P = I.ctx.prove
        data, D, N = aux['data'], aux['D'], aux['N']
        m = data.meta
        spec_side = clone_fcs(I, data)
        ev = agree(I, out, lambda: io_specs.getitem_spec(I, spec_side, aux['key']), eq=lambda a, b: self.same_result(I, a, b),
                   same_class=False)
        if out.kind == 'raise':
            self.check_refusal(I, case, aux)
            return
        v = out.value
        cform = case.get('cols')
        rform = case.get('rows')
        if cform is None or cform == 'none':
            return
        # ---- property-level clauses (C04), stated on the real result directly
        if rform == 'int' and cform in ('int', 'str'):
            P('single-value-is-a-plain-scalar', isinstance(v, SV) and v.np)
            return
        ok = isinstance(v, NDArr) and v.cls == 'FCSData'
        P('result-is-a-sample', ok)
        if not ok:
            return
        va = I.np.ensure_attrs(v)
        # the column map NumPy applied (assumed contract of ndarray.__getitem__): result column j <- source column
        sels = getattr(v, 'sels', None)
        P('values-come-from-plain-array-indexing-of-this-sample', sels is not None and v.base is data)
        if sels is None:
            return
        csel = sels[1]
        if csel.kind == 'fix':
            ncols = 1
            colmap = lambda j: csel.idx
        else:
            ncols = getattr(csel, 'n_orig', csel.n)      # as listed in the key (a one-entry list may be stretched against the row indices)
            colmap = csel.fn
        nz = I.np.dim_z(ncols)
        # which source column each requested entry denotes, from the property text
        j = I.ctx.fresh_int('col_j')
        inr = z3.And(0 <= j, j < nz)
        if cform in ('int',):
            P('selected-column-is-the-requested-position', colmap(j) == z3.If(aux['c'] < 0, aux['c'] + D, aux['c']))
        elif cform == 'str':
            P('selected-column-carries-the-requested-name', m.chan(colmap(j)) == aux['s'])
        elif cform == 'intlist':
            P('number-of-columns', nz == aux['cn'])
            P('selected-columns-are-the-requested-positions-in-order',
              z3.Implies(inr, colmap(j) == z3.If(aux['cf'](j) < 0, aux['cf'](j) + D, aux['cf'](j))), assume_after=False)
        elif cform == 'strlist':
            P('number-of-columns', nz == aux['cn'])
            P('selected-columns-carry-the-requested-names-in-order', z3.Implies(inr, m.chan(colmap(j)) == aux['cf'](j)),
              assume_after=False)
        elif cform in ('mixed2', 'tuple2'):
            P('number-of-columns', nz == 2)
            P('selected-columns-are-the-requested-position-and-name',
              z3.And(colmap(z3.IntVal(0)) == z3.If(aux['c'] < 0, aux['c'] + D, aux['c']), m.chan(colmap(z3.IntVal(1))) == aux['s']))
        for a in PER_CHANNEL:
            if a not in va:
                P('metadata-present.' + a, False)
                continue
            na = I.seq_len(va[a])
            P('metadata-has-one-entry-per-column.' + a, I.z(na, 'int') == nz)

            def elem(a=a):
                I.ctx.assume(inr)
                x = I.seq_get_sym(va[a], j)
                y = I.seq_get_sym(data.attrs[a], z3.simplify(colmap(j)))
                return struct_eq(I, x, y)
            I.prove_forked('metadata-is-that-of-the-selected-column.' + a, elem)

    def same_result(self, I, a, b):
        P = I.ctx.prove
        if isinstance(a, NDArr) or isinstance(b, NDArr):
            arrays_same(I, 'vs-spec.', a, b)
            if isinstance(a, NDArr) and isinstance(b, NDArr) and a.cls == 'FCSData' and b.cls == 'FCSData':
                aa, ba = I.np.ensure_attrs(a), I.np.ensure_attrs(b)
                for k in FCS_ATTRS:
                    if k not in aa or k not in ba:
                        P('vs-spec.attr-present.' + k, k in aa and k in ba)
                    else:
                        I.prove_forked('vs-spec.metadata.' + k, lambda k=k: struct_eq(I, aa[k], ba[k]))
        else:
            I.prove_forked('vs-spec.value', lambda: struct_eq(I, a, b))

    def check_refusal(self, I, case, aux):
        """an error is only allowed for: unknown names, out-of-range positions/rows, or forms outside the grammar"""
        P = I.ctx.prove
        D, N, m = aux['D'], aux['N'], aux['data'].meta
        cform, rform = case.get('cols'), case.get('rows') or case.get('single')
        if cform in ('npint', 'ellipsis', 'boollist') or case.get('single') in ('str', 'triple'):
            return       # "any other form is either refused or ..."
        k, ci = z3.Ints('rf_k rf_c')
        bad = []
        if rform == 'int':
            bad.append(z3.Not(z3.And(-N <= aux['r'], aux['r'] < N)))
        if rform == 'intlist':
            bad.append(z3.Exists([k], z3.And(0 <= k, k < aux['rn'], z3.Not(z3.And(-N <= aux['rf'](k), aux['rf'](k) < N)))))
        pos_bad = lambda c: z3.Not(z3.And(-D <= c, c < D))
        name_bad = lambda s: z3.Not(z3.Exists([ci], z3.And(0 <= ci, ci < D, m.chan(ci) == s)))
        if cform == 'int':
            bad.append(pos_bad(aux['c']))
        if cform == 'str':
            bad.append(name_bad(aux['s']))
        if cform in ('mixed2', 'tuple2'):
            bad += [pos_bad(aux['c']), name_bad(aux['s'])]
        if cform == 'intlist':
            bad.append(z3.Exists([k], z3.And(0 <= k, k < aux['cn'], pos_bad(aux['cf'](k)))))
        if cform == 'strlist':
            bad.append(z3.Exists([k], z3.And(0 <= k, k < aux['cn'], name_bad(aux['cf'](k)))))
        if rform in ('intlist', 'mask') and cform in ('intlist', 'strlist', 'mixed2', 'tuple2'):
            # two index lists of different lengths cannot be paired (NumPy broadcasting rule)
            n_rows = aux['rn'] if rform == 'intlist' else None
            if n_rows is not None:
                bad.append(n_rows != (aux['cn'] if cform in ('intlist', 'strlist') else 2))
            else:
                return
        P('refused-only-for-unknown-name-or-out-of-range-position', z3.Or(*bad) if bad else z3.BoolVal(False))


CONTRACTS.append(GetItem())


class SetItem(Contract):
    """C04 (last clause): assignment through the same expressions writes exactly the addressed cells"""
    target = 'FlowCal.io.FCSData.__setitem__'
    property_ids = ('C04',)
    frame_modifies = (0,)
    frame_result = None
    config = {'call_contracts': io_specs.summaries('FlowCal.io.FCSData._name_to_index',
                                                   'FlowCal.io.FCSData.__array_finalize__')}

    def cases(self):
        out = []
        for r in ('int', 'slice', 'intlist', 'mask', 'ellipsis', 'full'):
            for c in ('int', 'str', 'slice', 'intlist', 'strlist', 'full'):
                if r in ('intlist', 'mask') and c in ('intlist', 'strlist'):
                    continue      # paired index arrays: covered for reads; for writes the pairing rule is NumPy's
                out.append({'label': 'rows=%s,cols=%s' % (r, c), 'rows': r, 'cols': c})
        for s in ('int', 'slice', 'mask'):
            out.append({'label': 'single=%s' % s, 'single': s})
        return out

    def setup(self, I, case):
        N, D = sym_dims(I, 'N', 'D')
        data = sym_fcs(I, 'data', N, D, range_never_none=False)
        aux = {'N': N, 'D': D, 'data': data}
        if 'single' in case:
            key = make_row_key(I, case['single'], N, aux)
        else:
            key = stamp(Seq('tuple', [make_row_key(I, case['rows'], N, aux), make_col_key(I, case['cols'], D, aux)]))
        aux['key'] = key
        aux['item'] = I.ctx.fresh_real('item')
        return [data, key, SV(aux['item'], 'real')], {}, aux

    def small_hints(self, case, aux):
        ex = [aux[k] for k in ('r', 'ra', 'rb', 'rn', 'c', 'ca', 'cb', 'cn') if k in aux]
        return size_hints(aux, ex)

    def witness(self, model, case, aux):
        w = GetItem.witness(GetItem(), model, case, aux)
        w['item'] = mval(model, aux['item'])
        return w

    def check(self, I, case, aux, out):
        P = I.ctx.prove
        data = aux['data']
        other = clone_fcs(I, data)
        kind, ev, eexc = run_spec(lambda: io_specs.setitem_spec(I, other, aux['key'], SV(aux['item'], 'real')))
        P('outcome-kind-agrees-with-plain-array-assignment(%s)' % kind, out.kind == kind)
        if out.kind != kind or kind == 'raise':
            return
        idx = [I.ctx.fresh_int('ix0'), I.ctx.fresh_int('ix1')]
        rng = z3.And(0 <= idx[0], idx[0] < aux['N'], 0 <= idx[1], idx[1] < aux['D'])
        P('writes-exactly-the-addressed-cells', z3.Implies(rng, data.fn(*idx) == other.fn(*idx)), assume_after=False)
        for a in FCS_ATTRS:
            P('metadata-untouched.' + a, data.attrs.get(a) is other.attrs.get(a))


CONTRACTS.append(SetItem())


# ---------------------------------------------------------------------------------------------
from pyvc.values import NTClass, Obj, SymDict, Builtin
from pyvc import loader


class PickleRoundTrip(Contract):
    """C20: __setstate__(fresh, __reduce__(x)[2]) restores every attribute and the array part"""
    target = 'FlowCal.io.FCSData.__reduce__'
    property_ids = ('C20',)
    frame_result = None       # the pickle state refers to the sample's attributes; pickling serialises them

    def cases(self):
        return [{'label': 'ndarray-state-3-tuple', 'shape': 3}, {'label': 'ndarray-state-2-tuple', 'shape': 2}]

    def setup(self, I, case):
        I.config['nd_reduce_shape'] = case['shape']
        N, D = sym_dims(I, 'N', 'D')
        x = sym_fcs(I, 'x', N, D, range_never_none=False)
        return [x], {}, {'x': x, 'N': N, 'D': D}

    def check(self, I, case, aux, out):
        P = I.ctx.prove
        x = aux['x']
        P('reduce-returns', out.kind == 'return')
        if out.kind != 'return':
            return
        rv = out.value
        ok = isinstance(rv, Seq) and rv.kind == 'tuple' and len(rv.items) == 3
        P('reduce-value-is-a-3-tuple(reconstruct,args,state)', ok)
        if not ok:
            return
        P('reconstructor-and-args-are-the-array-ones',
          isinstance(rv.items[0], Opaque) and rv.items[0].tag == 'ndarray_reconstruct')
        # this contract describes pickling / copying as __reduce__ + __setstate__: that is only what happens while the class
        # defines no other hook of the pickle / copy protocols
        cls_ = I.module_env('FlowCal.io')['FCSData']
        other = [h for h in ('__reduce_ex__', '__getstate__', '__getnewargs__', '__getnewargs_ex__', '__copy__', '__deepcopy__')
                 if h in getattr(cls_, 'members', {})]
        P('pickling-and-copying-go-through-__reduce__-and-__setstate__-only(no other hook defined: %s)' % (', '.join(other) or 'none'), not other)
        # what pickle does on load: reconstruct an empty instance, then __setstate__(state)
        s = sym_array(I, 'restored', [0], 'float', 'FCSData')
        s.attrs = {}
        env = I.module_env('FlowCal.io')
        setstate = I.getattr_(env['FCSData'], '__setstate__')
        try:
            I.call(setstate, [s, rv.items[2]], {})
            P('setstate-returns', True)
        except PyExc as e:
            P('setstate-returns', False)
            return
        attrs = new_assigned_attrs(I)
        ps = env['_FCSDataPickleState']
        P('every-attribute-has-a-pickle-field', isinstance(ps, NTClass) and all(a[1:] in ps.fields for a in attrs))
        for a in attrs:
            if a not in s.attrs:
                P('restored.' + a, False)
            else:
                I.prove_forked('restored.' + a, lambda a=a: struct_eq(I, s.attrs[a], x.attrs[a]))
        if case['shape'] == 3:
            P('array-part-restored-by-the-superclass', getattr(s, 'restored_from', None) is x)


def sym_fcsfile(I, name, cls, N, D):
    c = I.ctx
    hdr = NTClass('FCSHeader', ['version', 'text_begin', 'text_end', 'data_begin', 'data_end', 'analysis_begin',
                                'analysis_end'])
    o = stamp(Obj(cls))
    o.hdr_cls = hdr
    from pyvc.values import NT
    o.attrs = {
        '_infile': SV(c.fresh_str(name + '_infile'), 'str'),
        '_header': NT(hdr, [SV(c.fresh_str(name + '_ver'), 'str')] + [SV(c.fresh_int(name + '_h%d' % k), 'int') for k in range(6)]),
        '_text': SymDict(z3.Array(c.fresh_name(name + '_text_has'), z3.StringSort(), z3.BoolSort()),
                         z3.Array(c.fresh_name(name + '_text_val'), z3.StringSort(), z3.StringSort())),
        '_analysis': SymDict(z3.Array(c.fresh_name(name + '_an_has'), z3.StringSort(), z3.BoolSort()),
                             z3.Array(c.fresh_name(name + '_an_val'), z3.StringSort(), z3.StringSort())),
        '_data': sym_array(I, name + '_data', [N, D], 'float'),
    }
    return o


class FileEq(Contract):
    """C20: FCSFile.__eq__ is the conjunction over infile, header, text, data, analysis"""
    target = 'FlowCal.io.FCSFile.__eq__'
    property_ids = ('C20',)
    assumptions = ('A-REAL: NaN is not modelled (np.array_equal on float data containing NaN is decided by the bounded check)',)

    def cases(self):
        return [{'label': 'same-class', 'other': 'file', 'ne': self.ne}, {'label': 'other-type', 'other': 'str', 'ne': self.ne}]

    ne = False

    def setup(self, I, case):
        env = I.module_env('FlowCal.io')
        cls = env['FCSFile']
        N, D = sym_dims(I, 'N', 'D')
        a = sym_fcsfile(I, 'a', cls, N, D)
        if case['other'] == 'file':
            N2, D2 = sym_dims(I, 'N2', 'D2')
            b = sym_fcsfile(I, 'b', cls, N2, D2)
        else:
            b = SV(I.ctx.fresh_str('other'), 'str')
        return [a, b], {}, {'a': a, 'b': b, 'N': N, 'D': D}

    def small_hints(self, case, aux):
        return [z3.And(aux['N'] <= 3, aux['D'] <= 3, aux['D'] >= 1, aux['N'] >= 1)]

    def witness(self, model, case, aux):
        a, b = aux['a'], aux['b']
        if case['other'] != 'file':
            return None
        wa = data_witness(model, a.attrs['_data'], 'ndarray')
        wb = data_witness(model, b.attrs['_data'], 'ndarray')
        same_meta = all(mval(model, I_ == J_) for I_, J_ in [(a.attrs['_infile'].z, b.attrs['_infile'].z)])
        return {'a': wa['data'], 'b': wb['data'], 'same_name': bool(same_meta), 'ne': self.ne}

    def check(self, I, case, aux, out):
        P = I.ctx.prove
        a, b = aux['a'], aux['b']
        P('returns', out.kind == 'return')
        if out.kind != 'return':
            return
        v = out.value
        if case['other'] != 'file':
            P('other-types-give-NotImplemented', isinstance(v, Opaque) and v.tag == 'NotImplemented')
            return
        res = I.z(I.truth_value(v), 'bool')
        da, db = a.attrs['_data'], b.attrs['_data']
        i, j = z3.Ints('fe_i fe_j')
        k = z3.String('fe_k')

        def deq(x, y):
            return z3.ForAll([k], z3.And(z3.Select(x.present, k) == z3.Select(y.present, k),
                                         z3.Implies(z3.Select(x.present, k), z3.Select(x.val, k) == z3.Select(y.val, k))))
        same_shape = z3.And(I.np.dim_z(da.shape[0]) == I.np.dim_z(db.shape[0]), I.np.dim_z(da.shape[1]) == I.np.dim_z(db.shape[1]))
        same_events = z3.ForAll([i, j], z3.Implies(z3.And(0 <= i, i < I.np.dim_z(da.shape[0]), 0 <= j, j < I.np.dim_z(da.shape[1])),
                                                   da.ufn(i, j) == db.ufn(i, j)))
        hdr = z3.And(*[I.z(x) == I.z(y) for x, y in zip(a.attrs['_header'].values, b.attrs['_header'].values)])
        spec = z3.And(I.z(a.attrs['_infile']) == I.z(b.attrs['_infile']), hdr, deq(a.attrs['_text'], b.attrs['_text']),
                      same_shape, same_events, deq(a.attrs['_analysis'], b.attrs['_analysis']))
        if case.get('ne'):
            P('ne-is-the-negation-of-equality', res == z3.Not(spec))
        else:
            P('equal-iff-same-file-name-header-keywords-events-and-analysis', res == spec)


class FileNe(FileEq):
    target = 'FlowCal.io.FCSFile.__ne__'
    ne = True


CONTRACTS += [PickleRoundTrip(), FileEq(), FileNe()]
