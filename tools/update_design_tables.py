#!/usr/bin/env python3
"""Replaces section 11.8 of DESIGN.md by the tables generated from evidence/, reports/thorough/, seeded/ and known_findings.json."""
import os
import subprocess
V = os.path.dirname(os.path.dirname(os.path.abspath(__file__)))
tables = subprocess.run(['python3', os.path.join(V, 'tools', 'gen_tables.py')], capture_output=True, text=True).stdout
p = os.path.join(V, 'DESIGN.md')
s = open(p).read()
head = '### 11.8 Generated tables (tools/gen_tables.py; from the evidence of the last quick and thorough runs)\n\n'
i = s.find('### 11.8 ')
if i >= 0:
    j = s.find('\n### 11.9', i)
    s = s[:i] + head + tables + (s[j:] if j >= 0 else '')
else:
    j = s.find('### 11.9')
    s = s[:j] + head + tables + '\n' + s[j:] if j >= 0 else s.rstrip('\n') + '\n\n' + head + tables
open(p, 'w').write(s)
print('section 11.8 updated: %d lines' % tables.count('\n'))
