#!/usr/bin/env python3
"""Regenerates MANIFEST.json from props.py (claimed checks) and NOT_APPLICABLE below."""
import json
import os
import sys
sys.path.insert(0, os.path.dirname(os.path.dirname(os.path.abspath(__file__))))
import props

ALL = ['C%02d' % i for i in range(1, 21)]
checks = []
for pid in ALL:
    if pid not in props.PROPS:
        continue
    s = props.PROPS[pid]
    checks.append({
        'property_id': pid,
        'quick_cmd': './vc check %s --tier quick' % pid,
        'thorough_cmd': './vc check %s --tier thorough' % pid,
        'evidence_file': 'evidence/%s.json' % pid,
        'replay_cmd_template': './vc replay {path}',
        'engine': 'pyvc',
        'level_claimed': {'category': s.get('level', 'proof'), 'text': s.get('level_text', s.get('explanation', '')),
                          'design_ref': s.get('design_ref', 'DESIGN.md section 6, ' + pid)},
        'level_note': s.get('level_note', 'Assumed contracts of NumPy/stdlib calls (listed per run in evidence trusted_base), '
                                          'A-INT/A-REAL idealisations, the pyvc engine itself.'),
        'technique': s.get('technique', 'contract-based deductive verification: VCs generated from the real AST by symbolic '
                                        'execution with loop invariants, discharged by z3/cvc5; counterexamples replayed on the real code'),
    })
na = [{'property_id': pid, 'reason': props.NOT_APPLICABLE.get(pid, 'check not built yet in this session (see DESIGN.md section 11)')}
      for pid in ALL if pid not in props.PROPS]
m = {
    'version': 1,
    'setup_cmd': 'python3-vt -c "import z3, ast" && /venv/bin/python -c "import numpy, scipy, FlowCal" && mkdir -p evidence replays',
    'hooks': {'guard': 'FLOWCAL_VERIF', 'enable': 'none needed: contracts are sidecar files under /verif/contracts; no instrumentation in /repo',
              'baseline_off_cmd': 'cd /repo && /venv/bin/python -m pytest -ra -q -p no:cacheprovider --timeout=900 --continue-on-collection-errors',
              'source_commits': [], 'add_only': True},
    'engines': [{'name': 'pyvc', 'path': 'pyvc/', 'serves_properties': [c['property_id'] for c in checks],
                 'kind_free_text': 'AST->SMT verification-condition generator (symbolic execution of the real FlowCal sources, '
                                   'loop invariants, sidecar contracts) + z3 5.1 / cvc5 back ends + replay worker'}],
    'checks': checks,
    'not_applicable': na,
    'notes': 'See DESIGN.md. Exit codes: 0 held, 1 violation (VIOLATION line), 2 undecided, 3 checker error.',
}
json.dump(m, open(os.path.join(os.path.dirname(os.path.dirname(os.path.abspath(__file__))), 'MANIFEST.json'), 'w'), indent=1)
print('claimed', [c['property_id'] for c in checks])
