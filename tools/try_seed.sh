#!/bin/bash
# usage: try_seed.sh <dir with patch.diff> <property id> [tier]
# Runs the property's check against a scratch worktree of /repo with the patch applied (neither /repo nor /verif/evidence is touched).
set -u
SRC=$1; PID=$2; TIER=${3:-quick}
WT=$(mktemp -d /tmp/try.XXXXXX)
git -C /repo worktree add -q --detach "$WT/wt" HEAD || exit 2
( cd "$WT/wt" && git apply "$SRC/patch.diff" ) || { echo "patch does not apply"; git -C /repo worktree remove --force "$WT/wt"; rm -rf "$WT"; exit 2; }
mkdir -p "$WT/out"
( cd /verif && FLOWCAL_REPO="$WT/wt" PYVC_OUT="$WT/out" ./vc check "$PID" --tier "$TIER" > "$WT/log.txt" 2>&1; echo "exit=$?" >> "$WT/log.txt" )
grep -v '^KNOWN' "$WT/log.txt" | cut -c1-300 | tail -7
git -C /repo worktree remove --force "$WT/wt"; rm -rf "$WT"
