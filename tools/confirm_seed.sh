#!/bin/bash
# usage: confirm_seed.sh <src_dir with patch.diff demo.py notes.txt> <dest name e.g. C08-1> <property id>
# Confirms in a scratch worktree: patch applies, suite results identical to baseline, demo fails with / passes without.
set -u
SRC=$1; NAME=$2; PID=$3
WT=$(mktemp -d /tmp/confirm.XXXXXX)
git -C /repo worktree add -q --detach "$WT/wt" HEAD || exit 2
cd "$WT/wt"
run_suite() { /venv/bin/python -m pytest -q -p no:cacheprovider --timeout=900 -rA 2>&1 | grep -E '^(PASSED|FAILED|ERROR)' | sed 's/ - .*//' | sort; }
if [ ! -f /tmp/baseline_suite_$(git -C /repo rev-parse --short HEAD).txt ]; then run_suite > /tmp/baseline_suite_$(git -C /repo rev-parse --short HEAD).txt; fi
cp "$SRC/demo.py" ./_demo.py
/venv/bin/python _demo.py > "$WT/demo_without.log" 2>&1; RC0=$?
git apply "$SRC/patch.diff" || { echo "$NAME: patch does not apply"; cd /; git -C /repo worktree remove --force "$WT/wt"; rm -rf "$WT"; exit 2; }
/venv/bin/python _demo.py > "$WT/demo_with.log" 2>&1; RC1=$?
run_suite > "$WT/suite_with.txt"
if diff -q /tmp/baseline_suite_$(git -C /repo rev-parse --short HEAD).txt "$WT/suite_with.txt" >/dev/null; then SUITE=same; else SUITE=DIFFERENT; fi
NP=$(grep -c '^PASSED' "$WT/suite_with.txt"); NF=$(grep -c '^FAILED' "$WT/suite_with.txt")
echo "$NAME: demo_without_rc=$RC0 demo_with_rc=$RC1 suite=$SUITE passed=$NP failed=$NF"
if [ "$RC0" = 0 ] && [ "$RC1" != 0 ] && [ "$SUITE" = same ]; then
  D=/verif/seeded/$NAME; mkdir -p "$D"
  cp "$SRC/patch.diff" "$D/patch.diff"; cp "$SRC/demo.py" "$D/demo.py"; cp "$SRC/notes.txt" "$D/notes.txt" 2>/dev/null
  tail -5 "$WT/demo_with.log" > "$D/demo_with_change.log"
  python3 - "$D" "$NAME" "$PID" "$NP" "$NF" "$RC0" "$RC1" <<'P'
import json,sys,os
d,name,pid,np_,nf,rc0,rc1=sys.argv[1:]
notes=open(os.path.join(d,'notes.txt')).read() if os.path.exists(os.path.join(d,'notes.txt')) else ''
old={}
if os.path.exists(os.path.join(d,'meta.json')):
    try: old=json.load(open(os.path.join(d,'meta.json')))
    except Exception: old={}
json.dump({"id":name,"property":pid,"breaks":pid,"needs_to_manifest":notes.strip(),
 "confirmed":{"how":"tools/confirm_seed.sh in a scratch worktree of /repo HEAD: git apply patch.diff; full pytest suite compared test-by-test with the unchanged tree; demo.py run from the worktree root with and without the change",
 "suite_with_change":{"passed":int(np_),"failed":int(nf),"same_as_baseline":True},"demo_rc_without_change":int(rc0),"demo_rc_with_change":int(rc1)},
 "detected_by":old.get('detected_by'), "rebased":old.get('rebased'), "repo_head":os.popen('git -C /repo rev-parse --short HEAD').read().strip()},open(os.path.join(d,'meta.json'),'w'),indent=1)
P
  echo "$NAME: KEPT"
else
  echo "$NAME: REJECTED"; tail -3 "$WT/demo_without.log"
fi
cd /; git -C /repo worktree remove --force "$WT/wt"; rm -rf "$WT"
