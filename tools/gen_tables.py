#!/usr/bin/env python3
"""Prints markdown tables for DESIGN.md section 11 from evidence/*.json, seeded/*/meta.json and known_findings.json."""
import glob
import json
import os
V = os.path.dirname(os.path.dirname(os.path.abspath(__file__)))
print('| property | level (run) | functions under contract | obligations | discharged | back ends | bounded cases | wall s |')
print('|---|---|---|---|---|---|---|---|')
for f in sorted(glob.glob(os.path.join(V, 'evidence', 'C*.json'))):
    e = json.load(open(f))
    c = e['coverage']
    fns = ', '.join(sorted(k.replace('FlowCal.', '') for k in c.get('functions_under_contract', {})))
    be = ', '.join('%s:%d' % (k, v) for k, v in sorted(c.get('backends', {}).items()))
    b = c.get('bounded') or {}
    print('| %s | %s | %s | %d | %d | %s | %s | %.0f |' % (e['property_id'], e['level'], fns, c['obligations'], c['discharged'], be, b.get('cases', '-'), e['wall_s']))
# thorough-tier record (engine cross-check, must-fail mutants): copies of the thorough evidence kept in reports/thorough/
tfiles = sorted(glob.glob(os.path.join(V, 'reports', 'thorough', 'C*.json')))
if tfiles:
    print()
    print('| property (thorough) | obligations | discharged | bounded cases | cross-check: paths sampled / models / replayed / agree / disagree | '
          'mutants: tried / killed / left subset / survived / not decisive | wall s |')
    print('|---|---|---|---|---|---|---|')
    for f in tfiles:
        e = json.load(open(f))
        c = e['coverage']
        x = c.get('engine_crosscheck') or {}
        m = c.get('must_fail_mutants') or {}
        b = c.get('bounded') or {}
        print('| %s | %d | %d | %s | %s / %s / %s / %s / %d | %s / %s / %s / %s / %s | %.0f |' % (
            e['property_id'], c['obligations'], c['discharged'], b.get('cases', '-'),
            x.get('sampled_paths', '-'), x.get('models_found', '-'), x.get('replayed', '-'), x.get('agree', '-'), len(x.get('disagreements') or []),
            m.get('tried', '-'), m.get('killed', '-'), m.get('left_subset', '-'), m.get('survived', '-'), m.get('not_decisive', '-'), e['wall_s']))
print()
print('| seed | property | detected by |')
print('|---|---|---|')
for d in sorted(glob.glob(os.path.join(V, 'seeded', '*'))):
    m = json.load(open(os.path.join(d, 'meta.json')))
    print('| %s | %s | %s |' % (m['id'], m['property'], (m.get('detected_by') or 'NOT YET RUN').replace('|', '/')))
print()
k = json.load(open(os.path.join(V, 'known_findings.json')))
print('| kind | property | commit | what |')
print('|---|---|---|---|')
for e in k['entries']:
    print('| %s | %s | %s | %s |' % (e['kind'], e['property'], e.get('commit', ''), e['what'].replace('|', '/')[:300]))
