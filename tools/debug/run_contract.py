import sys, time, faulthandler; sys.path.insert(0,'/verif')
faulthandler.dump_traceback_later(3000, exit=True)
from pyvc.verify import verify
import importlib, json
from pyvc import runner as _r
facts=_r.envfacts()
mod, cls = sys.argv[1].split(':')
c=getattr(importlib.import_module(mod), cls)(); c.config=dict(c.config); c.config['envfacts']=facts
flt = sys.argv[2] if len(sys.argv)>2 else ''
rep = verify(c, timeout_ms=int(__import__("os").environ.get("TMO","20000")), verbose=bool(__import__("os").environ.get("VERB")), case_filter=lambda l: flt in l)
print([ (x['label'], x.get('paths'), x.get('outcomes'), x.get('unsupported')) for x in rep.cases])
print([e[-1500:] for e in rep.errors[:2]], [k for k,v in rep.covers.items() if not v])
print(rep.obligations, rep.discharged, round(rep.wall_s,1), rep.branch_queries, round(rep.solver_s,1))
seen=set()
for r in rep.results:
    if r.status!='unsat' and (r.name,r.case) not in seen:
        seen.add((r.name,r.case)); print(r.name, r.status, r.case, r.reason, (getattr(r,'model_text','') or '')[:300].replace('\n',' '))
