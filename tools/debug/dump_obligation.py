import sys, time; sys.path.insert(0,'/verif')
from pyvc import verify as V
import importlib, json, z3
from pyvc import runner as _r
facts=_r.envfacts()
mod, cls = sys.argv[1].split(':')
c=getattr(importlib.import_module(mod), cls)(); c.config=dict(c.config); c.config['envfacts']=facts
orig=V.solve_obligation
def patched(ob, timeout_ms=20000, want_smt2=False, hints=()):
    if ob.name==sys.argv[3]:
        print('GOAL', z3.simplify(ob.goal))
        for h in ob.hyps: print('HYP', str(h)[:400])
        open('/tmp/ob.smt2','w').write(V._fresh_smt2(ob))
        sys.exit(0)
    return orig(ob, timeout_ms, want_smt2, hints)
V.solve_obligation=patched
rep = V.verify(c, case_filter=lambda l: l==sys.argv[2])
