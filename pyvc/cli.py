import argparse
import json
import os
import sys

VERIF = os.path.dirname(os.path.dirname(os.path.abspath(__file__)))
sys.path.insert(0, VERIF)


def main():
    ap = argparse.ArgumentParser()
    sub = ap.add_subparsers(dest='cmd')
    c = sub.add_parser('check')
    c.add_argument('pid')
    c.add_argument('--tier', default=os.environ.get('VERIF_TIER', 'quick'))
    c.add_argument('--seed', type=int, default=int(os.environ.get('VERIF_SEED', '0') or 0))
    c.add_argument('--write-baseline', action='store_true')
    r = sub.add_parser('replay')
    r.add_argument('path')
    a = ap.parse_args()
    from pyvc import runner
    import props
    if a.cmd == 'check':
        if a.pid not in props.PROPS:
            print('unknown or unclaimed property %s' % a.pid, file=sys.stderr)
            sys.exit(3)
        tier = a.tier if a.tier in ('quick', 'thorough') else 'quick'
        sys.exit(runner.check_property(a.pid, props.PROPS[a.pid], tier, a.seed, write_baseline=a.write_baseline))
    if a.cmd == 'replay':
        v = runner.run_replay(os.path.abspath(a.path))
        print(json.dumps(v, indent=1))
        sys.exit(1 if v.get('violates') else 0)
    ap.print_help()
    sys.exit(3)


if __name__ == '__main__':
    main()
