"""Python builtins and standard-library models (assumed contracts, listed by name when used)."""
import z3

from .ctx import Unsupported, PathAbort
from .values import (SV, Seq, SymSeq, RangeV, NDArr, PDict, SymDict, Obj, NT, NTClass, ClassObj, ExcClass,
                     ExcObj, PyExc, Closure, Builtin, BoundMethod, ModuleObj, TypeObj, SliceV, ELLIPSIS,
                     EllipsisV, Partial, Opaque, Poison, Inf)

NOATTR = object()


def make_builtins(I):
    from .interp import raise_py, stamp, ZipV, EnumV, EXC, exc_is
    b = {}

    def reg(name):
        def deco(f):
            b[name] = Builtin(name, f)
            return f
        return deco

    for t in ('int', 'float', 'str', 'bool', 'list', 'tuple', 'dict', 'slice', 'object', 'type', 'bytes', 'set', 'frozenset'):
        b[t] = TypeObj(t)
    b['True'] = True
    b['False'] = False
    b['None'] = None
    b['NotImplemented'] = Opaque('NotImplemented')
    b['Ellipsis'] = ELLIPSIS

    @reg('len')
    def _len(I, a, k):
        return I.seq_len(a[0])

    @reg('range')
    def _range(I, a, k):
        if len(a) == 1:
            s, e = 0, a[0]
        elif len(a) == 2:
            s, e = a
        else:
            s, e, st = a
            if st != 1:
                if all(isinstance(x, int) for x in a):
                    return stamp(Seq('list', list(range(s, e, st))))   # concrete: materialised
                raise Unsupported('range with symbolic step')
        for x in (s, e):
            if I.kind(x) != 'int':
                raise_py('TypeError', "'%s' object cannot be interpreted as an integer" % I.kind(x))
        return RangeV(s, e)

    @reg('zip')
    def _zip(I, a, k):
        return ZipV(list(a))

    @reg('enumerate')
    def _enum(I, a, k):
        return EnumV(a[0], a[1] if len(a) > 1 else k.get('start', 0))

    @reg('reversed')
    def _reversed(I, a, k):
        items = I.iterate_concrete(a[0])
        return stamp(Seq('list', list(reversed(items))))

    @reg('sorted')
    def _sorted(I, a, k):
        items = I.iterate_concrete(a[0])
        if all(isinstance(x, int) for x in items) or all(isinstance(x, str) for x in items):
            return stamp(Seq('list', sorted(items)))
        raise Unsupported('sorted on symbolic items')

    @reg('isinstance')
    def _isinstance(I, a, k):
        return isinstance_(I, a[0], a[1])

    @reg('hasattr')
    def _hasattr(I, a, k):
        return I.hasattr_(a[0], a[1])

    @reg('getattr')
    def _getattr(I, a, k):
        if len(a) == 3:
            try:
                return I.getattr_(a[0], a[1])
            except PyExc as e:
                if exc_is(e.exc.cls, EXC['AttributeError']):
                    return a[2]
                raise
        return I.getattr_(a[0], a[1])

    @reg('setattr')
    def _setattr(I, a, k):
        return I.setattr_(a[0], a[1], a[2])

    @reg('callable')
    def _callable(I, a, k):
        return isinstance(a[0], (Closure, Builtin, BoundMethod, Partial, ClassObj, TypeObj, ExcClass))

    @reg('all')
    def _all(I, a, k):
        it = a[0]
        if isinstance(it, SymSeq) and not isinstance(it.n, int):
            return quant_seq(I, it, True)
        for x in I.iterate_concrete(it):
            if not I.truth(x):
                return False
        return True

    @reg('any')
    def _any(I, a, k):
        it = a[0]
        if isinstance(it, SymSeq) and not isinstance(it.n, int):
            return quant_seq(I, it, False)
        for x in I.iterate_concrete(it):
            if I.truth(x):
                return True
        return False

    @reg('abs')
    def _abs(I, a, k):
        x = a[0]
        if isinstance(x, NDArr):
            return I.np.ufunc1('abs', x)
        if isinstance(x, int):
            return abs(x)
        kd = I.kind(x)
        if kd in ('int', 'real'):
            e = I.z(x)
            return I.mk(z3.If(e < 0, -e, e), kd, getattr(x, 'np', False))
        raise Unsupported('abs of %s' % kd)

    @reg('min')
    def _min(I, a, k):
        return minmax(I, a, True)

    @reg('max')
    def _max(I, a, k):
        return minmax(I, a, False)

    @reg('sum')
    def _sum(I, a, k):
        acc = a[1] if len(a) > 1 else 0
        for x in I.iterate_concrete(a[0]):
            acc = I.binop('Add', acc, x)
        return acc

    @reg('print')
    def _print(I, a, k):
        return None

    @reg('repr')
    def _repr(I, a, k):
        return to_str(I, a[0])

    @reg('id')
    def _id(I, a, k):
        return id(a[0])

    @reg('iter')
    def _iter(I, a, k):
        raise Unsupported('iter()')

    @reg('next')
    def _next(I, a, k):
        raise Unsupported('next()')

    @reg('super')
    def _super(I, a, k):
        if len(a) == 2:
            return Opaque('super', (a[0], a[1]))
        raise Unsupported('zero-argument super')

    @reg('open')
    def _open(I, a, k):
        hook = I.config.get('open_hook')
        if hook is None:
            raise Unsupported('open() without an I/O model')
        return hook(I, a, k)

    @reg('hash')
    def _hash(I, a, k):
        raise Unsupported('hash()')

    @reg('map')
    def _map(I, a, k):
        items = I.iterate_concrete(a[1])
        return stamp(Seq('list', [I.call(a[0], [x], {}) for x in items]))

    @reg('round')
    def _round(I, a, k):
        raise Unsupported('round()')

    @reg('divmod')
    def _divmod(I, a, k):
        return stamp(Seq('tuple', [I.binop('FloorDiv', a[0], a[1]), I.binop('Mod', a[0], a[1])]))
    return b


def quant_seq(I, it, universal):
    """all()/any() over an element-wise closure of symbolic length (no forking inside elements)."""
    k = I.ctx.fresh_int('q_k')
    n = I.z(it.n, 'int')
    res = I.sub_explore(lambda: I.truth(I.seq_get_sym(it, k)), [0 <= k, k < n])
    conds_true = []
    for r in res:
        if r.outcome == 'raise':
            raise Unsupported('all/any over elements that may raise')
        c = z3.And(*r.pc_suffix) if r.pc_suffix else z3.BoolVal(True)
        if r.value:
            conds_true.append(c)
    tr = z3.Or(*conds_true) if conds_true else z3.BoolVal(False)
    rng = z3.And(0 <= k, k < n)
    if universal:
        f = z3.ForAll([k], z3.Implies(rng, tr))
    else:
        f = z3.Exists([k], z3.And(rng, tr))
    return I.truth(I.mk(f, 'bool'))


def minmax(I, a, ismin):
    from .interp import raise_py
    if len(a) == 1:
        items = I.iterate_concrete(a[0])
    else:
        items = list(a)
    if not items:
        raise_py('ValueError', 'min()/max() arg is an empty sequence')
    acc = items[0]
    for x in items[1:]:
        if isinstance(acc, (int, str)) and isinstance(x, type(acc)) and not isinstance(acc, bool):
            acc = min(acc, x) if ismin else max(acc, x)
            continue
        c = I.compare('Lt' if ismin else 'Gt', x, acc)
        if isinstance(c, bool):
            acc = x if c else acc
        else:
            isreal = I.kind(x) == 'real' or I.kind(acc) == 'real'
            # python returns the original object; types may differ (int vs float): value-level merge
            w = 'real' if isreal else 'int'
            acc = I.mk(z3.If(c.z, I.z(x, w), I.z(acc, w)), w)
    return acc


def isinstance_(I, v, t):
    from .interp import raise_py, exc_is
    v = I.force(v)
    if isinstance(t, Seq):
        return any(isinstance_(I, v, x) for x in t.items)
    if isinstance(t, TypeObj):
        n = t.name
        k = I.kind(v)
        npflag = isinstance(v, SV) and v.np
        if n == 'int':
            return k in ('int', 'bool') and not npflag
        if n == 'bool':
            return k == 'bool' and not npflag
        if n == 'float':
            # np.float64 is a float subclass; np.float32 is not (dtype tracked by 'f32' attr)
            return k == 'real' and not getattr(v, 'f32', False)
        if n == 'str':
            return k == 'str'
        if n == 'list':
            return isinstance(v, (Seq, SymSeq)) and v.kind == 'list'
        if n == 'tuple':
            return (isinstance(v, (Seq, SymSeq)) and v.kind == 'tuple') or isinstance(v, NT)
        if n == 'dict':
            return isinstance(v, (PDict, SymDict))
        if n == 'slice':
            return isinstance(v, SliceV)
        if n == 'object':
            return True
        if n == 'ndarray':
            return isinstance(v, NDArr)
        if n == 'bytes':
            return False
        raise Unsupported('isinstance with %s' % n)
    if isinstance(t, ClassObj):
        if isinstance(v, NDArr):
            return v.cls == t.name
        if isinstance(v, Obj):
            stack = [v.cls]
            while stack:
                c = stack.pop()
                if c is t:
                    return True
                stack.extend(b for b in c.bases if isinstance(b, ClassObj))
            return False
        return False
    if isinstance(t, ExcClass):
        return isinstance(v, ExcObj) and exc_is(v.cls, t)
    if isinstance(t, NTClass):
        return isinstance(v, NT) and v.cls is t
    if isinstance(t, Opaque) and t.tag == 'abc':
        return abc_instance(I, v, t.payload)
    if isinstance(t, Opaque) and t.tag == 'pyclass':
        from . import dtmodel
        r = dtmodel.isinstance_hook(I, v, t)
        if r is not None:
            return r
    raise Unsupported('isinstance with %r' % (t,))


def abc_instance(I, v, name):
    if name == 'Iterable':
        return I.hasattr_(v, '__iter__')
    raise Unsupported('abc %s' % name)


def to_str(I, v):
    """str(v) / '{}'.format(v)"""
    v = I.force(v)
    if isinstance(v, str):
        return v
    if isinstance(v, bool) or v is None:
        return str(v)
    if isinstance(v, int):
        return str(v)
    if isinstance(v, SV):
        if v.kind == 'str':
            return v
        if v.kind == 'int':
            I.ctx.use_axiom('A-STR:str(int) = z3 int.to.str for non-negative ints')
            r = SV(z3.If(v.z >= 0, z3.IntToStr(v.z), z3.Concat(z3.StringVal('-'), z3.IntToStr(-v.z))), 'str')
            r.from_int = v.z
            return r
        if v.kind == 'real':
            f = I.ctx.fresh_str('fmt_real')
            I.ctx.use_axiom('A-STR:str(float) opaque')
            return SV(f, 'str')
        if v.kind == 'bool':
            return SV(z3.If(v.z, z3.StringVal('True'), z3.StringVal('False')), 'str')
    if isinstance(v, ExcObj):
        if len(v.args) == 0:
            return ''
        if len(v.args) == 1:
            if v.cls.name == 'KeyError':
                return opaque_str(I, 'repr')
            return to_str(I, v.args[0])
        return opaque_str(I, 'exc_args')
    # containers and other objects: an opaque string (content never inspected by verified code)
    return opaque_str(I, 'str_of_' + type(v).__name__)


_FMT = {}


def fmt_fn(I, tmpl, iz):
    """template.format(i) for a symbolic int i as F_template(i); F is injective (distinct ints print differently)"""
    if tmpl not in _FMT:
        _FMT[tmpl] = z3.Function('fmt_%d' % len(_FMT), z3.IntSort(), z3.StringSort())
    f = _FMT[tmpl]
    key = '_fmt_ax_' + tmpl
    if not getattr(I.ctx, key, False):
        setattr(I.ctx, key, True)
        a, b = z3.Ints('fmt_a fmt_b')
        I.ctx.add_axiom(z3.ForAll([a, b], z3.Implies(f(a) == f(b), a == b), patterns=[z3.MultiPattern(f(a), f(b))]),
                        'A-STR:literal.format(int) is injective in the int')
    return SV(f(iz), 'str')


def opaque_str(I, tag):
    I.ctx.use_axiom('A-STR:str(%s) opaque' % tag)
    return SV(I.ctx.fresh_str(tag), 'str')


def str_format(I, fmt, args, kwargs):
    """'...{}...{0}...{:02d}'.format(...): concrete format string, possibly symbolic arguments."""
    import string
    from .interp import raise_py
    if not isinstance(fmt, str):
        raise Unsupported('format on a symbolic format string')
    parts = []
    auto = 0
    for lit, field, spec, conv in string.Formatter().parse(fmt):
        if lit:
            parts.append(lit)
        if field is None:
            continue
        if field == '':
            idx = auto
            auto += 1
            if idx >= len(args):
                raise_py('IndexError', 'Replacement index %d out of range' % idx)
            v = args[idx]
        elif field.isdigit():
            if int(field) >= len(args):
                raise_py('IndexError', 'Replacement index out of range')
            v = args[int(field)]
        else:
            if field not in kwargs:
                raise_py('KeyError', field)
            v = kwargs[field]
        if conv:
            raise Unsupported('format conversion !%s' % conv)
        if spec:
            if isinstance(v, int) and not isinstance(v, bool):
                parts.append(format(v, spec))
                continue
            if spec in ('02d', '06d') and I.kind(v) == 'int':
                w = int(spec[1])
                s = to_str(I, v)
                I.ctx.use_axiom('A-STR:zero padded int format')
                sz = I.z(s)
                pad = z3.StringVal('0' * w)
                ln = z3.Length(sz)
                padded = z3.If(ln >= w, sz, z3.Concat(z3.SubString(pad, 0, w - ln), sz))
                if I.ctx.branch(I.z(v, 'int') < 0):
                    parts.append(opaque_str(I, 'padded_negative_int'))
                    continue
                pv = SV(padded, 'str')
                pv.from_int = I.z(v, 'int')
                pv.fmt_spec = spec
                parts.append(pv)
                continue
            if I.kind(v) not in ('int', 'real'):
                raise_py('ValueError', 'Unknown format code for object of type %s' % I.kind(v))
            parts.append(opaque_str(I, 'fmt_' + spec))
            continue
        parts.append(to_str(I, v))
    if all(isinstance(p, str) for p in parts):
        return ''.join(parts)
    # one symbolic integer inside a literal template (e.g. '$P{}B'.format(p)): an uninterpreted injective function of
    # the integer (A-STR) instead of string arithmetic, which the solvers handle badly
    sym = [(i_, p_) for i_, p_ in enumerate(parts) if not isinstance(p_, str)]
    if len(sym) == 1 and getattr(sym[0][1], 'from_int', None) is not None:
        tmpl = ''.join(p_ if isinstance(p_, str) else '\x00' + getattr(p_, 'fmt_spec', '') for p_ in parts)
        return fmt_fn(I, tmpl, sym[0][1].from_int)
    e = None
    for p in parts:
        pz = I.z(p)
        e = pz if e is None else z3.Concat(e, pz)
    return I.mk(e, 'str')


# uninterpreted parsers (A-STR / A-LIB): float(str), int(str)
float_ok = z3.Function('float_ok', z3.StringSort(), z3.BoolSort())
float_val = z3.Function('float_val', z3.StringSort(), z3.RealSort())
int_ok = z3.Function('int_ok', z3.StringSort(), z3.BoolSort())
int_val = z3.Function('int_val', z3.StringSort(), z3.IntSort())


def call_type(I, t, args, kwargs):
    from .interp import raise_py, stamp, fceil, ffloor
    args = [I.force(a) for a in args]
    n = t.name
    if n == 'int':
        if not args:
            return 0
        v = args[0]
        if isinstance(v, NDArr):
            if v.ndim == 0 or all(isinstance(s, int) and s == 1 for s in v.shape):
                v = I.mk(v.fn(*[z3.IntVal(0)] * v.ndim), {'bool': 'bool', 'int': 'int', 'uint': 'int'}.get(v.dtype, 'real'))
            else:
                raise_py('TypeError', 'only length-1 arrays can be converted to Python scalars')
        k = I.kind(v)
        if k == 'bool':
            return int(v) if isinstance(v, bool) else I.mk(I.z(v, 'int'), 'int')
        if k == 'int':
            return v if not isinstance(v, SV) else I.mk(v.z, 'int')
        if k == 'real':
            iv = getattr(v, 'int_valued', None)
            if iv is not None:
                return I.mk(iv, 'int')
            e = v.z
            I.ctx.use_axiom('A-REAL:int(x) truncates toward zero')
            tr = z3.If(e >= 0, z3.ToInt(e), -z3.ToInt(-e))
            return I.mk(tr, 'int')
        if k == 'str':
            if isinstance(v, str):
                try:
                    return int(v)
                except ValueError:
                    raise_py('ValueError', 'invalid literal for int()')
            I.ctx.use_axiom('A-STR:int(str) partial uninterpreted (int_ok/int_val)')
            if not I.ctx.branch(int_ok(v.z)):
                raise_py('ValueError', 'invalid literal for int() with base 10')
            return I.mk(int_val(v.z), 'int')
        if v is None or isinstance(v, (Seq, SymSeq, PDict)):
            raise_py('TypeError', "int() argument must be a string, a bytes-like object or a real number, not '%s'" % k)
        raise Unsupported('int(%s)' % k)
    if n == 'float':
        if not args:
            return I.real(0.0)
        v = args[0]
        if isinstance(v, NDArr):
            if v.ndim == 0:
                v = I.mk(v.fn(), 'real')
            else:
                raise_py('TypeError', 'only length-1 arrays can be converted to Python scalars')
        k = I.kind(v)
        if k in ('int', 'bool', 'real'):
            return I.mk(I.z(v, 'real'), 'real')
        if k == 'str':
            if isinstance(v, str):
                try:
                    f = float(v)
                except ValueError:
                    raise_py('ValueError', 'could not convert string to float')
                if f != f or f in (float('inf'), float('-inf')):
                    raise Unsupported('float() of nan/inf literal')
                import fractions
                try:
                    return I.mk(z3.RealVal(str(fractions.Fraction(v.strip().replace('_', '')))), 'real')
                except Exception:
                    return I.real(f)
            I.ctx.use_axiom('A-STR:float(str) partial uninterpreted (float_ok/float_val)')
            if not I.ctx.branch(float_ok(v.z)):
                raise_py('ValueError', 'could not convert string to float')
            return I.mk(float_val(v.z), 'real')
        if v is None or isinstance(v, (Seq, SymSeq, PDict)):
            raise_py('TypeError', "float() argument must be a string or a real number, not '%s'" % k)
        if isinstance(v, Inf):
            return v
        raise Unsupported('float(%s)' % k)
    if n == 'str':
        if not args:
            return ''
        return to_str(I, args[0])
    if n == 'bool':
        if not args:
            return False
        return I.truth(args[0])
    if n == 'list' or n == 'tuple':
        if not args:
            return stamp(Seq(n, []))
        v = args[0]
        if isinstance(v, Opaque) and v.tag == 'symset':
            # list(set(a)) for a 1-d array a of symbolic length: the U distinct values of a in an unspecified order
            fa, na, kind_ = v.payload
            c = I.ctx
            U = c.fresh_int('n_unique')
            uq = c.fresh_fn('unique', z3.IntSort(), z3.IntSort() if kind_ == 'int' else z3.RealSort())
            wit = c.fresh_fn('unique_at', z3.IntSort(), z3.IntSort())
            pos = c.fresh_fn('unique_pos', z3.IntSort(), z3.IntSort())
            j, j2, i_ = z3.Ints('uq_j uq_j2 uq_i')
            c.assume(z3.And(0 <= U, U <= na, z3.Implies(na >= 1, U >= 1)))
            c.assume(z3.ForAll([j], z3.Implies(z3.And(0 <= j, j < U), z3.And(0 <= wit(j), wit(j) < na, fa(wit(j)) == uq(j))), patterns=[uq(j)]))
            c.assume(z3.ForAll([i_], z3.Implies(z3.And(0 <= i_, i_ < na), z3.And(0 <= pos(i_), pos(i_) < U, uq(pos(i_)) == fa(i_))), patterns=[pos(i_)]))
            c.assume(z3.ForAll([j, j2], z3.Implies(z3.And(0 <= j, j < j2, j2 < U), uq(j) != uq(j2)), patterns=[z3.MultiPattern(uq(j), uq(j2))]))
            c.use_axiom('set(a) of an array: its distinct values (iteration order unspecified)')
            r = stamp(SymSeq(n, I.mk(U, 'int'), lambda I_, k_, uq=uq, kind_=kind_: SV(uq(k_), kind_, True)))
            r.no_raise = True
            r.unique_of = (uq, wit, pos, U)
            return r
        if isinstance(v, SymSeq) and not isinstance(v.n, int):
            r = stamp(SymSeq(n, v.n, v.fn, list(v.overlays)))
            r.map_of = getattr(v, 'map_of', None)
            r.elem_token = v.elem_token
            r.no_raise = getattr(v, 'no_raise', False)
            return r
        if isinstance(v, RangeV) and not I.is_concrete_iter(v):
            r = I.range_to_symseq(v)
            r.kind = n
            return stamp(r)
        return stamp(Seq(n, I.iterate_concrete(v)))
    if n == 'dict':
        d = stamp(PDict())
        if args:
            src = args[0]
            if isinstance(src, PDict):
                for k_, v_ in zip(src.keys, src.vals):
                    d.set(k_, v_)
            else:
                for pair in I.iterate_concrete(src):
                    kv = I.iterate_concrete(pair)
                    # symbolic keys may coincide: decided (by a fork) like any other item assignment
                    if isinstance(kv[0], SV) or any(isinstance(x_, SV) for x_ in d.keys):
                        stamp(d)
                        I.setitem(d, kv[0], kv[1])
                    else:
                        d.set(kv[0], kv[1])
        for k_, v_ in kwargs.items():
            d.set(k_, v_)
        return d
    if n == 'slice':
        a = list(args) + [None] * (3 - len(args))
        if len(args) == 1:
            return SliceV(None, a[0], None)
        return SliceV(a[0], a[1], a[2])
    if n == 'type':
        return type_of(I, args[0])
    if n == 'object':
        return Opaque('object')
    if n in ('set', 'frozenset'):
        if args and isinstance(args[0], NDArr) and args[0].ndim == 1 and not isinstance(args[0].shape[0], int) \
                and args[0].dtype in ('int', 'uint', 'float'):
            a0 = args[0]
            return Opaque('symset', (a0.fn, I.np.dim_z(a0.shape[0]), 'int' if a0.dtype != 'float' else 'real'))
        items = I.iterate_concrete(args[0]) if args else []
        out = []
        for x in items:
            if not any(I.truth(I.equals(x, y)) for y in out):
                out.append(x)
        o = Opaque('set', out)
        return o
    raise Unsupported('constructor %s' % n)


def type_of(I, v):
    k = I.kind(v)
    if k in ('int', 'bool', 'str') and not (isinstance(v, SV) and v.np):
        return TypeObj(k)
    if k == 'real':
        return TypeObj('float')
    if isinstance(v, (Seq, SymSeq)):
        return TypeObj(v.kind)
    if isinstance(v, Obj):
        return v.cls
    if isinstance(v, ExcObj):
        return v.cls
    if isinstance(v, NDArr):
        if v.cls == 'FCSData':
            return I.fcs_class()
        return TypeObj('ndarray')
    raise Unsupported('type() of %s' % k)


# ---------------------------------------------------------------------------------------------
def value_attr(I, obj, name):
    """attributes / methods of builtin value types"""
    from .interp import raise_py, stamp
    k = I.kind(obj)
    if name == '__class__':
        return type_of(I, obj)
    if isinstance(obj, (Seq, SymSeq, RangeV)):
        if name == '__iter__':
            return Builtin('__iter__', lambda I, a, kw: obj)
        kind = getattr(obj, 'kind', 'range')
        if name == '__len__' or name == '__getitem__':
            return Builtin(name, lambda I, a, kw: None)
        if name == 'index' and kind in ('list', 'tuple'):
            return Builtin('index', lambda I, a, kw: seq_index(I, obj, a[0]))
        if name == 'count' and kind in ('list', 'tuple'):
            def _count(I, a, kw):
                c = 0
                for x in I.iterate_concrete(obj):
                    if I.truth(I.equals(x, a[0])):
                        c += 1
                return c
            return Builtin('count', _count)
        if kind == 'list':
            if name == 'append':
                def _append(I, a, kw):
                    I.check_write(obj)
                    if isinstance(obj, Seq):
                        obj.items.append(a[0])
                    else:
                        n = I.z(obj.n, 'int')
                        obj.overlays.append((I.mk(n, 'int'), a[0]))
                        obj.n = I.mk(n + 1, 'int')
                    return None
                return Builtin('append', _append)
            if name == 'extend':
                def _extend(I, a, kw):
                    I.check_write(obj)
                    if not isinstance(obj, Seq):
                        raise Unsupported('extend on a symbolic list')
                    obj.items.extend(I.iterate_concrete(a[0]))
                return Builtin('extend', _extend)
            if name == 'pop':
                def _pop(I, a, kw):
                    I.check_write(obj)
                    if not isinstance(obj, Seq):
                        raise Unsupported('pop on a symbolic list')
                    if not obj.items:
                        raise_py('IndexError', 'pop from empty list')
                    i = a[0] if a else -1
                    if not isinstance(i, int):
                        raise Unsupported('pop with symbolic index')
                    try:
                        return obj.items.pop(i)
                    except IndexError:
                        raise_py('IndexError', 'pop index out of range')
                return Builtin('pop', _pop)
            if name == 'insert':
                def _insert(I, a, kw):
                    I.check_write(obj)
                    if not isinstance(obj, Seq) or not isinstance(a[0], int):
                        raise Unsupported('insert on symbolic list/index')
                    obj.items.insert(a[0], a[1])
                return Builtin('insert', _insert)
            if name == 'copy':
                return Builtin('copy', lambda I, a, kw: call_type(I, TypeObj('list'), [obj], {}))
            if name in ('sort', 'reverse', 'remove', 'clear'):
                def _mut(I, a, kw):
                    I.check_write(obj)
                    if name == 'reverse' and isinstance(obj, Seq):
                        obj.items.reverse()
                        return None
                    raise Unsupported('list.%s' % name)
                return Builtin(name, _mut)
        return NOATTR
    if k == 'str':
        if name == '__iter__':
            return Builtin('__iter__', lambda I, a, kw: obj)
        if name == 'format':
            return Builtin('format', lambda I, a, kw: str_format(I, obj, a, kw))
        if name in STR_METHODS:
            f = STR_METHODS[name]
            return Builtin(name, lambda I, a, kw: f(I, obj, a, kw))
        if name in ('__len__', '__getitem__'):
            return Builtin(name, lambda I, a, kw: None)
        return NOATTR
    if isinstance(obj, (PDict, SymDict)):
        if name == '__iter__':
            return Builtin('__iter__', lambda I, a, kw: obj)
        if name == 'get':
            def _get(I, a, kw):
                d = a[1] if len(a) > 1 else kw.get('default')
                if isinstance(obj, PDict):
                    return I.dict_get(obj, a[0], False, d)
                return I.symdict_get(obj, a[0], False, d)
            return Builtin('get', _get)
        if isinstance(obj, PDict):
            if name == 'keys':
                return Builtin('keys', lambda I, a, kw: stamp(Seq('list', list(obj.keys))))
            if name == 'values':
                return Builtin('values', lambda I, a, kw: stamp(Seq('list', list(obj.vals))))
            if name == 'items':
                return Builtin('items', lambda I, a, kw: stamp(Seq('list', [stamp(Seq('tuple', [k_, v_])) for k_, v_ in zip(obj.keys, obj.vals)])))
            if name == 'copy':
                return Builtin('copy', lambda I, a, kw: stamp(PDict(list(zip(obj.keys, obj.vals)), obj.ordered)))
            if name == 'pop':
                def _pop(I, a, kw):
                    I.check_write(obj)
                    i = obj.find(a[0])
                    if i < 0:
                        if len(a) > 1:
                            return a[1]
                        raise_py('KeyError', a[0])
                    obj.keys.pop(i)
                    return obj.vals.pop(i)
                return Builtin('pop', _pop)
            if name == 'setdefault':
                def _sd(I, a, kw):
                    i = obj.find(a[0])
                    if i >= 0:
                        return obj.vals[i]
                    I.check_write(obj)
                    obj.set(a[0], a[1] if len(a) > 1 else None)
                    return obj.vals[obj.find(a[0])]
                return Builtin('setdefault', _sd)
        if name == 'update':
            def _update(I, a, kw):
                I.check_write(obj)
                src = a[0] if a else None
                if isinstance(obj, PDict):
                    if isinstance(src, PDict):
                        for k_, v_ in zip(src.keys, src.vals):
                            I.setitem(obj, k_, v_)
                    elif src is not None:
                        raise Unsupported('dict.update from %s' % type(src).__name__)
                    for k_, v_ in kw.items():
                        obj.set(k_, v_)
                    return None
                if isinstance(src, PDict):
                    for k_, v_ in zip(src.keys, src.vals):
                        I.setitem(obj, k_, v_)
                    return None
                if isinstance(src, SymDict) and not src.overlay.keys and not obj.overlay.keys:
                    kx = z3.String('upd_k')
                    p1, v1, p2, v2 = obj.present, obj.val, src.present, src.val
                    obj.present = z3.Lambda([kx], z3.Or(z3.Select(p1, kx), z3.Select(p2, kx)))
                    obj.val = z3.Lambda([kx], z3.If(z3.Select(p2, kx), z3.Select(v2, kx), z3.Select(v1, kx)))
                    I.ctx.use_axiom('A-LIB:dict.update = right-biased union')
                    return None
                raise Unsupported('update of a symbolic dict from a symbolic dict')
            return Builtin('update', _update)
        return NOATTR
    if isinstance(obj, SliceV):
        if name in ('start', 'stop', 'step'):
            return getattr(obj, name)
        return NOATTR
    if isinstance(obj, SV) and obj.np:
        # numpy scalar: a few ndarray-like attributes
        if name == 'ndim':
            return 0
        if name == 'shape':
            return Seq('tuple', [])
        if name in ('astype', 'item'):
            return Builtin(name, lambda I, a, kw: obj)
        return NOATTR
    if isinstance(obj, Opaque):
        return opaque_attr(I, obj, name)
    if isinstance(obj, TypeObj):
        if obj.name == 'ndarray':
            return I.np.ndarray_unbound(name)
        if obj.name == 'str' and name in STR_METHODS:
            f = STR_METHODS[name]
            return Builtin(name, lambda I, a, kw: f(I, a[0], a[1:], kw))
        if name == '__name__':
            return obj.name
        return NOATTR
    if isinstance(obj, ExcClass):
        if name == '__name__':
            return obj.name
        return NOATTR
    return NOATTR


def seq_index(I, s, item):
    from .interp import raise_py
    if isinstance(s, Seq):
        for i, x in enumerate(s.items):
            if I.truth(I.equals(x, item)):
                return i
        raise_py('ValueError', 'x not in sequence')
    # symbolic sequence of scalars: least index with equality
    if s.overlays:
        raise Unsupported('index() on an updated symbolic sequence')
    n = I.z(s.n, 'int')
    k = I.ctx.fresh_int('idx_k')
    eq = I.z(I.equals(I.pure_elem(s, k), item), 'bool')
    ex = z3.Exists([k], z3.And(0 <= k, k < n, eq))
    if not I.ctx.branch(ex):
        raise_py('ValueError', 'x not in sequence')
    r = I.ctx.fresh_int('idx')
    j = I.ctx.fresh_int('idx_j')
    I.ctx.assume(z3.And(0 <= r, r < n, z3.substitute(eq, (k, r))))
    I.ctx.assume(z3.ForAll([j], z3.Implies(z3.And(0 <= j, j < r), z3.Not(z3.substitute(eq, (k, j))))))
    return I.mk(r, 'int')


# -- strings ----------------------------------------------------------------------------------
def _s_lower(I, s, a, kw):
    if isinstance(s, str):
        return s.lower()
    I.ctx.use_axiom('A-STR:lower uninterpreted')
    return SV(z3.Function('str_lower', z3.StringSort(), z3.StringSort())(s.z), 'str')


def _s_upper(I, s, a, kw):
    if isinstance(s, str):
        return s.upper()
    I.ctx.use_axiom('A-STR:upper uninterpreted')
    return SV(z3.Function('str_upper', z3.StringSort(), z3.StringSort())(s.z), 'str')


def _s_strip(fn):
    def f(I, s, a, kw):
        if isinstance(s, str) and all(isinstance(x, str) for x in a):
            return getattr(s, fn)(*a)
        I.ctx.use_axiom('A-STR:%s uninterpreted' % fn)
        return SV(z3.Function('str_' + fn, z3.StringSort(), z3.StringSort())(I.z(s)), 'str')
    return f


def _s_startswith(I, s, a, kw):
    if isinstance(s, str) and isinstance(a[0], str):
        return s.startswith(a[0])
    return I.mk(z3.PrefixOf(I.z(a[0]), I.z(s)), 'bool')


def _s_endswith(I, s, a, kw):
    if isinstance(s, str) and isinstance(a[0], str):
        return s.endswith(a[0])
    return I.mk(z3.SuffixOf(I.z(a[0]), I.z(s)), 'bool')


def _s_split(I, s, a, kw):
    from .interp import stamp
    if isinstance(s, str) and all(isinstance(x, str) for x in a):
        return stamp(Seq('list', s.split(*a)))
    hook = I.config.get('split_hook')
    if hook is not None:
        return hook(I, s, a, kw)
    # symbolic: list of symbolic length whose pieces are uninterpreted (A-STR)
    I.ctx.use_axiom('A-STR:split uninterpreted (count/pieces)')
    sep = I.z(a[0]) if a else z3.StringVal(' ')
    cnt = z3.Function('split_count', z3.StringSort(), z3.StringSort(), z3.IntSort())
    piece = z3.Function('split_piece', z3.StringSort(), z3.StringSort(), z3.IntSort(), z3.StringSort())
    n = cnt(I.z(s), sep)
    I.ctx.assume(n >= 1)
    sz = I.z(s)
    return stamp(SymSeq('list', I.mk(n, 'int'), lambda I_, i, sz=sz, sep=sep: I_.mk(piece(sz, sep, i), 'str')))


def _s_join(I, s, a, kw):
    seq = I.force(a[0])
    if isinstance(seq, SymSeq) and not isinstance(seq.n, int):
        return opaque_str(I, 'join_of_symbolic_list')       # content never inspected by verified code (messages)
    items = I.iterate_concrete(seq)
    for x in items:
        if I.kind(x) != 'str':
            from .interp import raise_py
            raise_py('TypeError', 'sequence item: expected str instance')
    if isinstance(s, str) and all(isinstance(x, str) for x in items):
        return s.join(items)
    e = None
    for i, x in enumerate(items):
        if i:
            e = z3.Concat(e, I.z(s))
        e = I.z(x) if e is None else z3.Concat(e, I.z(x))
    return I.mk(e, 'str') if e is not None else ''


def _s_replace(I, s, a, kw):
    if isinstance(s, str) and isinstance(a[0], str) and isinstance(a[1], str):
        return s.replace(a[0], a[1])
    I.ctx.use_axiom('A-STR:replace (all occurrences) uninterpreted')
    f = z3.Function('str_replace_all', z3.StringSort(), z3.StringSort(), z3.StringSort(), z3.StringSort())
    return SV(f(I.z(s), I.z(a[0]), I.z(a[1])), 'str')


def _s_rfind(I, s, a, kw):
    if isinstance(s, str) and isinstance(a[0], str):
        return s.rfind(a[0])
    hook = I.config.get('rfind_hook')
    if hook is not None:
        return hook(I, s, a, kw)
    raise Unsupported('rfind on a symbolic string')


def _s_find(I, s, a, kw):
    if isinstance(s, str) and isinstance(a[0], str):
        return s.find(a[0])
    return I.mk(z3.IndexOf(I.z(s), I.z(a[0]), 0), 'int')


def _s_rstrip(I, s, a, kw):
    return _s_strip('rstrip')(I, s, a, kw)


def _s_isdigit(I, s, a, kw):
    if isinstance(s, str):
        return s.isdigit()
    # uninterpreted; what is known: a string whose stripped form consists of digits is accepted by int()
    isd = z3.Function('str_isdigit', z3.StringSort(), z3.BoolSort())
    strip = z3.Function('str_strip', z3.StringSort(), z3.StringSort())
    x = z3.String('ax_ds')
    I.ctx.add_axiom(z3.ForAll([x], z3.Implies(isd(strip(x)), int_ok(x)), patterns=[isd(strip(x))]),
                    'A-STR:str.isdigit uninterpreted; s.strip().isdigit() implies int(s) succeeds')
    return I.mk(isd(I.z(s)), 'bool')


def _s_encode(I, s, a, kw):
    return s


STR_METHODS = {
    'lower': _s_lower, 'upper': _s_upper, 'strip': _s_strip('strip'), 'rstrip': _s_strip('rstrip'),
    'lstrip': _s_strip('lstrip'), 'startswith': _s_startswith, 'endswith': _s_endswith, 'split': _s_split,
    'join': _s_join, 'replace': _s_replace, 'rfind': _s_rfind, 'find': _s_find, 'isdigit': _s_isdigit,
    'encode': _s_encode, 'decode': _s_encode,
}


# ---------------------------------------------------------------------------------------------
# library objects
def make_libs(I):
    from .interp import raise_py, stamp
    L = {}

    def reg(name):
        def deco(f):
            L[name] = Builtin(name, f)
            return f
        return deco

    L['six.string_types'] = TypeObj('str')
    L['six.PY2'] = False
    L['six.PY3'] = True

    @reg('six.iteritems')
    def _iteritems(I, a, k):
        return I.call(I.getattr_(a[0], 'items'), [], {})

    @reg('collections.namedtuple')
    def _namedtuple(I, a, k):
        name = a[0] if a else k['typename']
        fields = a[1] if len(a) > 1 else k['field_names']
        if isinstance(fields, str):
            fields = fields.replace(',', ' ').split()
        else:
            fields = I.iterate_concrete(fields)
        return NTClass(name, fields)

    @reg('collections.OrderedDict')
    def _od(I, a, k):
        d = call_type(I, TypeObj('dict'), a, k)
        d.ordered = True
        return d

    @reg('copy.deepcopy')
    def _deepcopy(I, a, k):
        I.ctx.use_axiom('A-LIB:copy.deepcopy returns a fresh structurally equal object')
        return deepcopy(I, a[0], {})

    @reg('copy.copy')
    def _copy(I, a, k):
        I.ctx.use_axiom('A-LIB:copy.copy returns a fresh shallow copy')
        return shallowcopy(I, a[0])

    @reg('functools.partial')
    def _partial(I, a, k):
        return Partial(a[0], list(a[1:]), dict(k))

    @reg('warnings.warn')
    def _warn(I, a, k):
        I.warned = getattr(I, 'warned', []) + [a[0] if a else None]
        return None

    @reg('os.path.basename')
    def _basename(I, a, k):
        if isinstance(a[0], str):
            import os
            return os.path.basename(a[0])
        return opaque_str(I, 'basename')

    @reg('scipy.ndimage.filters.gaussian_filter')
    def _gaussian(I, a, k):
        H = I.np.as_array(a[0])
        SH = I.ctx.fresh_fn('smoothed', *([z3.IntSort()] * H.ndim + [z3.RealSort()]))
        I.ctx.use_axiom('A-LIB:scipy.ndimage gaussian_filter: an uninterpreted array of the same shape (a function of the histogram and sigma)')
        out = I.np.new(list(H.shape), 'float', lambda *idx: SH(*idx))
        out.smooth_of = (H, k.get('sigma'))
        return out
    L['scipy.ndimage.gaussian_filter'] = L['scipy.ndimage.filters.gaussian_filter']

    @reg('skimage.measure.find_contours')
    def _find_contours(I, a, k):
        # contour geometry is outside the model (C05: stated): no contour is produced, so the code mapping contours to data space is not exercised
        I.ctx.use_axiom('A-LIB:skimage.measure.find_contours abstracted to "no contours" (contour geometry is not modelled)')
        return stamp(Seq('list', []))

    @reg('scipy.stats.gmean')
    def _gmean(I, a, k):
        return I.np.col_stat('gmean', a[0], k.get('axis', a[1] if len(a) > 1 else 0))

    @reg('scipy.stats.mode')
    def _mode(I, a, k):
        # result object: [0] are the modal values; whether the reduced axis is kept depends on the installed scipy
        m = I.np.col_stat('mode', a[0], k.get('axis', a[1] if len(a) > 1 else 0))
        keep = I.envfacts.get('scipy_mode_result_ndim_2d_input', 1) == 2
        if keep:
            if isinstance(m, NDArr):
                f = m.fn
                m = I.np.finish([1] + list(m.shape), 'float', lambda r, *rest, f=f: f(*rest), [m])
            else:
                e = I.z(m, 'real')
                m = I.np.new([1], 'float', lambda r, e=e: e)
        I.ctx.use_axiom('A-LIB:scipy.stats.mode result layout as measured on the installed scipy (envfacts)')
        return stamp(Seq('tuple', [m, Opaque('mode_counts')]))

    L['collections.abc.Iterable'] = Opaque('abc', 'Iterable')
    L['collections.Iterable'] = Opaque('abc', 'Iterable')
    from . import dtmodel
    L.update(dtmodel.libs(I))

    extra = I.config.get('libs')
    if extra:
        for kx, vx in extra(I).items():
            L[kx] = vx
    return L


def deepcopy(I, v, memo):
    from .interp import stamp
    from .values import OptVal
    if isinstance(v, OptVal):
        return OptVal(v.isnone, deepcopy(I, v.val, memo))
    if id(v) in memo:
        return memo[id(v)]
    if v is None or isinstance(v, (int, str, bool, SV, Inf, Closure, Builtin, ExcClass, TypeObj, NTClass)):
        return v
    if isinstance(v, Seq):
        r = stamp(Seq(v.kind, []))
        memo[id(v)] = r
        r.items = [deepcopy(I, x, memo) for x in v.items]
        if v.kind == 'tuple' and all(a is b for a, b in zip(r.items, v.items)):
            return v      # CPython returns the same tuple when nothing inside was copied
        return r
    if isinstance(v, SymSeq):
        base = v
        r = stamp(SymSeq(v.kind, v.n, lambda I_, i, base=base: deepcopy_elem(I_, base, i), []))
        r.deepcopy_of = base
        # freeze: later writes to `base` must not be seen through the copy -> snapshot overlays/fn
        snap = SymSeq(v.kind, v.n, v.fn, list(v.overlays))
        r.fn = lambda I_, i, snap=snap: deepcopy(I_, I_.seq_get_sym(snap, i), {})
        return r
    if isinstance(v, PDict):
        r = stamp(PDict(ordered=v.ordered))
        memo[id(v)] = r
        for k_, x in zip(v.keys, v.vals):
            r.set(deepcopy(I, k_, memo), deepcopy(I, x, memo))
        return r
    if isinstance(v, SymDict):
        r = stamp(SymDict(v.present, v.val, v.name))
        for k_, x in zip(v.overlay.keys, v.overlay.vals):
            r.overlay.set(k_, x)
        return r
    if isinstance(v, NT):
        return NT(v.cls, [deepcopy(I, x, memo) for x in v.values])
    if isinstance(v, NDArr):
        return I.np.copy_array(v, deep=True)
    if isinstance(v, Opaque):
        return v     # immutable library values (datetime ...) are treated as values
    if isinstance(v, Obj):
        r = stamp(Obj(v.cls))
        memo[id(v)] = r
        r.attrs = dict((k_, deepcopy(I, x, memo)) for k_, x in v.attrs.items())
        return r
    raise Unsupported('deepcopy of %s' % type(v).__name__)


def deepcopy_elem(I, base, i):
    return deepcopy(I, I.seq_get_sym(base, i), {})


def shallowcopy(I, v):
    from .interp import stamp
    if isinstance(v, Seq):
        return stamp(Seq(v.kind, list(v.items))) if v.kind == 'list' else v
    if isinstance(v, SymSeq):
        if v.kind != 'list':
            return v
        r = stamp(SymSeq(v.kind, v.n, v.fn, list(v.overlays)))
        r.elem_token = v.elem_token
        return r
    if isinstance(v, PDict):
        return stamp(PDict(list(zip(v.keys, v.vals)), v.ordered))
    if isinstance(v, NDArr):
        return I.np.copy_array(v, deep=False)
    if isinstance(v, SymDict):
        r = stamp(SymDict(v.present, v.val, v.name))
        for k_, x in zip(v.overlay.keys, v.overlay.vals):
            r.overlay.set(k_, x)
        return r
    if v is None or isinstance(v, (int, str, bool, SV, Opaque, NT)):
        return v
    raise Unsupported('copy.copy of %s' % type(v).__name__)


def opaque_attr(I, obj, name):
    if obj.tag == 'havoc':
        if name in ('add', 'append', 'extend', 'update', 'remove', 'insert', 'clear', 'discard'):
            return Builtin('havoc.' + name, lambda I_, a, k: None)
        raise Unsupported('read of loop state that the invariant does not describe (%s.%s)' % (obj.payload, name))
    if obj.tag == 'file':
        from . import iomodel
        r1 = iomodel.file_attr(I, obj, name)
        if r1 is not NOATTR:
            return r1
    if obj.tag == 'bytes':
        from . import iomodel
        r1 = iomodel.bytes_attr(I, obj, name)
        if r1 is not NOATTR:
            return r1
    if obj.tag == 'set':
        if name == 'add':
            def _add(I_, a, k):
                if not any(I_.truth(I_.equals(a[0], y)) for y in obj.payload):
                    obj.payload.append(a[0])
            return Builtin('set.add', _add)
    from . import dtmodel
    r0 = dtmodel.opaque_attr(I, obj, name)
    if r0 is not NOATTR:
        return r0
    h = I.config.get('opaque_attr')
    if h is not None:
        r = h(I, obj, name)
        if r is not NOATTR:
            return r
    if obj.tag == 'super':
        cls, inst = obj.payload
        if isinstance(inst, NDArr):
            return I.np.super_method(inst, name)
    return NOATTR


def opaque_binop(I, op, a, b):
    if isinstance(a, Opaque) and isinstance(b, Opaque) and a.tag in ('datetime', 'time') and b.tag in ('datetime', 'time'):
        from . import dtmodel
        return dtmodel.opaque_binop(I, op, a, b)
    h = I.config.get('opaque_binop')
    if h is not None:
        return h(I, op, a, b)
    raise Unsupported('operator %s on library objects' % op)


def opaque_eq(I, a, b):
    if a is b:
        return True
    h = I.config.get('opaque_eq')
    if h is not None:
        return h(I, a, b)
    raise Unsupported('== on library objects')


def opaque_getitem(I, obj, key):
    h = I.config.get('opaque_getitem')
    if h is not None:
        return h(I, obj, key)
    raise Unsupported('subscript of library object %s' % obj.tag)


def opaque_setitem(I, obj, key, val):
    h = I.config.get('opaque_setitem')
    if h is not None:
        return h(I, obj, key, val)
    raise Unsupported('item assignment on library object %s' % obj.tag)


def opaque_setattr(I, obj, name, val):
    if obj.tag == 'flags' and name == 'writeable':
        obj.payload.writeable = bool(I.truth(val))
        return None
    h = I.config.get('opaque_setattr')
    if h is not None:
        return h(I, obj, name, val)
    raise Unsupported('attribute assignment on library object %s' % obj.tag)


def opaque_len(I, obj):
    h = I.config.get('opaque_len')
    if h is not None:
        return h(I, obj)
    raise Unsupported('len of library object')
