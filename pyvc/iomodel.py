"""File model for the I/O axioms (A-IO): a byte string of symbolic content and size."""
import z3

from .values import Opaque, SV, Builtin
from .ctx import Unsupported


class FileModel(object):
    def __init__(self, ctx, name='file'):
        self.name = name
        self.byte = ctx.fresh_fn(name + '_byte', z3.IntSort(), z3.IntSort())
        self.size = ctx.fresh_int(name + '_size')
        self.pos = 0
        self._ieee = {}
        self._facts_done = False
        self.closed = False
        ctx.assume(self.size >= 0)

    def facts(self, I):
        if self._facts_done:
            return
        self._facts_done = True
        p = z3.Int('fm_p')
        I.ctx.assume(z3.ForAll([p], z3.And(0 <= self.byte(p), self.byte(p) <= 255), patterns=[self.byte(p)]))

    def ieee(self, bits):
        if bits not in self._ieee:
            n = bits // 8
            self._ieee[bits] = z3.Function('ieee%d' % bits, *([z3.IntSort()] * n + [z3.RealSort()]))
        return self._ieee[bits]


def make_file(I, name='file'):
    return Opaque('file', FileModel(I.ctx, name))


CONTENT = z3.Function('file_content', z3.IntSort(), z3.IntSort(), z3.IntSort(), z3.StringSort())   # (file id, pos, n) -> decoded text


def file_attr(I, obj, name):
    """seek / read / close of a modelled binary file (A-IO): read(n) after seek(p) returns bytes[p : min(p+n, size)]"""
    from . import pybuiltins as PB
    from .interp import raise_py
    fm = obj.payload
    if not isinstance(fm, FileModel):
        return PB.NOATTR
    if name == 'seek':
        def seek(I_, a, k):
            fm.pos = a[0]
            return None
        return Builtin('file.seek', seek)
    if name == 'read':
        def read(I_, a, k):
            n = I_.z(a[0], 'int')
            p = I_.z(fm.pos, 'int')
            I_.ctx.use_axiom('A-IO:read(n) after seek(p) returns bytes[p:min(p+n,size)] (n >= 0)')
            if I_.ctx.branch(n < 0):
                raise Unsupported('read with a negative count (reads to the end of the file)')
            avail = z3.If(fm.size - p < 0, z3.IntVal(0), fm.size - p)
            ln = z3.If(n < avail, n, avail)
            txt = CONTENT(z3.IntVal(id(fm) % 100000), p, n)
            I_.ctx.assume(z3.Length(txt) == ln)
            # consistency of overlapping reads from the same position: the shorter one is a prefix of the longer one
            for (p0, n0, t0) in getattr(fm, 'reads', []):
                I_.ctx.assume(z3.Implies(z3.And(p0 == p, n0 <= n), z3.PrefixOf(t0, txt)))
                I_.ctx.assume(z3.Implies(z3.And(p0 == p, n <= n0), z3.PrefixOf(txt, t0)))
            fm.reads = getattr(fm, 'reads', []) + [(p, n, txt)]
            fm.pos = I_.mk(p + ln, 'int')
            return Opaque('bytes', txt)
        return Builtin('file.read', read)
    if name == 'close':
        return Builtin('file.close', lambda I_, a, k: None)
    return PB.NOATTR


def bytes_attr(I, obj, name):
    from . import pybuiltins as PB
    if obj.tag == 'bytes' and name == 'decode':
        return Builtin('bytes.decode', lambda I_, a, k: I_.mk(obj.payload, 'str'))
    return PB.NOATTR
