"""File model for the I/O axioms (A-IO): a byte string of symbolic content and size."""
import z3

from .values import Opaque, SV, Builtin
from .ctx import Unsupported


class FileModel(object):
    def __init__(self, ctx, name='file'):
        self.name = name
        self.byte = ctx.fresh_fn(name + '_byte', z3.IntSort(), z3.IntSort())
        self.size = ctx.fresh_int(name + '_size')
        self.pos = 0
        self._ieee = {}
        self._facts_done = False
        self.closed = False
        ctx.assume(self.size >= 0)

    def facts(self, I):
        if self._facts_done:
            return
        self._facts_done = True
        p = z3.Int('fm_p')
        I.ctx.assume(z3.ForAll([p], z3.And(0 <= self.byte(p), self.byte(p) <= 255), patterns=[self.byte(p)]))

    def ieee(self, bits):
        if bits not in self._ieee:
            n = bits // 8
            self._ieee[bits] = z3.Function('ieee%d' % bits, *([z3.IntSort()] * n + [z3.RealSort()]))
        return self._ieee[bits]


def make_file(I, name='file'):
    return Opaque('file', FileModel(I.ctx, name))
