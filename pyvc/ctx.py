"""Path context, decision trail and path explorer (re-execution based)."""
import itertools
import os
import time
import z3


class Unsupported(Exception):
    """The interpreted code left the supported subset: the function is out of reach."""


class PathAbort(Exception):
    """Current path is infeasible or was cut (assume False, end of invariant branch)."""


class Budget(Exception):
    pass


class Obligation(object):
    __slots__ = ('name', 'hyps', 'goal', 'path_id', 'fn', 'meta', 'kind')

    def __init__(self, name, hyps, goal, path_id, fn, meta=None, kind='ensures'):
        self.name = name
        self.hyps = hyps
        self.goal = goal
        self.path_id = path_id
        self.fn = fn
        self.meta = meta or {}
        self.kind = kind


_fresh_counter = itertools.count()


def has_quantifier(f):
    stack = [f]
    seen = set()
    while stack:
        x = stack.pop()
        i = x.get_id()
        if i in seen:
            continue
        seen.add(i)
        if z3.is_quantifier(x):
            return True
        stack.extend(x.children())
    return False


class Ctx(object):
    """One path of symbolic execution.

    Decisions (solver-checked branches and free n-way choices) are recorded in a
    trail; the explorer re-executes the function with a longer prefix for every
    alternative that is still open.
    """

    def __init__(self, explorer, prefix):
        self.explorer = explorer
        self.prefix = list(prefix)
        self.trail = []
        self.pc = []
        self.labels = []
        self.solver = z3.Solver()
        self.solver.set('timeout', explorer.branch_timeout_ms)
        self.obligations = []
        self.names = {}
        self.notes = []
        self.axioms_used = set()
        self.pure_depth = 0
        self.fn_name = explorer.fn_name
        self.global_hyps = []
        self.quant_mode = 0

    # -- fresh symbols (deterministic per path so that re-execution reproduces names)
    def fresh_name(self, base):
        k = self.names.get(base, 0)
        self.names[base] = k + 1
        return '%s!%d' % (base, k) if k else base

    def fresh_int(self, base):
        return z3.Int(self.fresh_name(base))

    def fresh_real(self, base):
        return z3.Real(self.fresh_name(base))

    def fresh_bool(self, base):
        return z3.Bool(self.fresh_name(base))

    def fresh_str(self, base):
        return z3.String(self.fresh_name(base))

    def fresh_fn(self, base, *sorts):
        return z3.Function(self.fresh_name(base), *sorts)

    def mention(self, term):
        """make `term` a ground term of every later query (a trigger for E-matching): asserts MENTIONED(term) for an
        uninterpreted predicate, which no preprocessing step removes (a defining equation of a fresh constant would be
        solved away) and which constrains nothing"""
        srt = term.sort()
        f = z3.Function('mentioned_%s' % srt.name().lower(), srt, z3.BoolSort())
        self.assume(f(term))

    # -- path condition
    def assume(self, f, label=None):
        if isinstance(f, bool):
            if not f:
                raise PathAbort('assume False')
            return
        f = z3.simplify(f)
        if z3.is_true(f):
            return
        if z3.is_false(f):
            raise PathAbort('assume false')
        self.pc.append(f)
        if not has_quantifier(f):
            # quantified facts are kept for the obligations only: feasibility checks stay cheap
            # (a weaker feasibility test explores more paths, never fewer)
            self.solver.add(f)

    def add_axiom(self, f, name=None):
        """A hypothesis that comes from an assumed library contract (recorded by name)."""
        if name:
            self.axioms_used.add(name)
        self.assume(f)

    def use_axiom(self, name):
        self.axioms_used.add(name)

    def _check(self, extra):
        self.explorer.n_branch_queries += 1
        t0 = time.time()
        r = self.solver.check(extra)
        self.explorer.branch_solver_s += time.time() - t0
        return r

    def feasible(self, f):
        r = self._check(f)
        # unknown is treated as feasible (sound: we explore the path; obligations decide)
        return r != z3.unsat

    def _next_decision(self):
        i = len(self.trail)
        if i < len(self.prefix):
            return self.prefix[i]
        return None

    def feasible_full(self, f):
        """second opinion with the quantified hypotheses included (short timeout); only 'unsat' counts"""
        if not any(has_quantifier(h) for h in self.pc):
            return True
        s = z3.Solver()
        s.set('timeout', self.explorer.full_timeout_ms)
        for h in self.pc:
            s.add(h)
        s.add(f)
        self.explorer.n_branch_queries += 1
        t0 = time.time()
        r = s.check()
        self.explorer.branch_solver_s += time.time() - t0
        if r != z3.unsat and os.environ.get('PYVC_DEBUG'):
            import sys
            print('feasible_full: %s in %.2fs for %s' % (r, time.time() - t0, str(f)[:300]), file=sys.stderr)
            if os.environ.get('PYVC_DEBUG') == 'dump':
                open('/verif/scratch/last_full.smt2', 'w').write(s.to_smt2())
        return r != z3.unsat

    def branch(self, cond, label=None, safety=None):
        """Decide a symbolic condition; forks the exploration when both sides are feasible.
        safety=True/False names the side that raises a built-in exception: that side is double-checked
        against the full path condition (quantified facts included) before it is explored."""
        if isinstance(cond, bool):
            return cond
        cond = z3.simplify(cond)
        if z3.is_true(cond):
            return True
        if z3.is_false(cond):
            return False
        if self.quant_mode:
            # building a term over a bound variable: range checks were established when the sequence
            # was created (the term is only used under its guard); anything else cannot be decided here
            if safety is not None:
                return safety is False
            raise Unsupported('fork on a bound variable')
        forced = self._next_decision()
        if forced is not None:
            d = forced
        else:
            can_t = self.feasible(cond)
            can_f = self.feasible(z3.Not(cond))
            if safety is True and can_t and can_f:
                can_t = self.feasible_full(cond)
            elif safety is False and can_t and can_f:
                can_f = self.feasible_full(z3.Not(cond))
            if can_t and can_f:
                d = True
                self.explorer.push(self.trail + [False])
            elif can_t:
                d = True
            elif can_f:
                d = False
            else:
                raise PathAbort('infeasible path')
        self.trail.append(d)
        f = cond if d else z3.Not(cond)
        self.pc.append(f)
        if not has_quantifier(f):
            self.solver.add(f)
        if len(self.trail) > self.explorer.max_decisions:
            raise Unsupported('decision budget exceeded (%d)' % self.explorer.max_decisions)
        return d

    def choice(self, n, label=None):
        """Free n-way choice (no solver): used for invariant-cut loops and type alternatives."""
        forced = self._next_decision()
        if forced is not None:
            d = forced
        else:
            d = 0
            for k in range(n - 1, 0, -1):
                self.explorer.push(self.trail + [k])
        self.trail.append(d)
        return d

    # -- obligations
    def prove(self, name, goal, kind='ensures', meta=None, assume_after=True):
        if isinstance(goal, bool):
            goal = z3.BoolVal(goal)
        ob = Obligation(name, list(self.pc), goal, None, self.fn_name, meta, kind)
        self.obligations.append(ob)
        if assume_after:
            # standard: once asserted, the fact may be used downstream
            g = z3.simplify(goal)
            if not z3.is_false(g) and not z3.is_true(g):
                self.pc.append(goal)
                if not has_quantifier(goal):
                    self.solver.add(goal)

    def note(self, s):
        self.notes.append(s)


class PathResult(object):
    def __init__(self, ctx, outcome, value, exc=None, aborted=None, extra=None):
        self.pc = list(ctx.pc)
        self.trail = list(ctx.trail)
        self.outcome = outcome      # 'return' | 'raise' | 'cut' | 'abort'
        self.value = value
        self.exc = exc
        self.obligations = ctx.obligations
        self.aborted = aborted
        self.notes = ctx.notes
        self.axioms_used = set(ctx.axioms_used)
        self.names = dict(ctx.names)
        self.extra = extra or {}


class Explorer(object):
    def __init__(self, fn_name, max_paths=4000, max_decisions=400, branch_timeout_ms=4000):
        self.fn_name = fn_name
        self.work = []
        self.max_paths = max_paths
        self.max_decisions = max_decisions
        self.branch_timeout_ms = branch_timeout_ms
        self.full_timeout_ms = 1500
        self.n_branch_queries = 0
        self.branch_solver_s = 0.0
        self.paths = []

    def push(self, prefix):
        self.work.append(list(prefix))

    def run(self, runner):
        """runner(ctx) -> ('return', value) | raises.  Explores every path."""
        from .values import PyExc
        self.work = [[]]
        results = []
        while self.work:
            prefix = self.work.pop()
            if len(results) >= self.max_paths:
                raise Unsupported('path budget exceeded (%d paths)' % self.max_paths)
            ctx = Ctx(self, prefix)
            try:
                kind, val = runner(ctx)
                results.append(PathResult(ctx, kind, val))
            except PyExc as e:
                # a raising path whose condition contradicts the quantified facts is not a path
                if not ctx.feasible_full(z3.BoolVal(True)):
                    results.append(PathResult(ctx, 'abort', None, aborted='infeasible raise path'))
                else:
                    results.append(PathResult(ctx, 'raise', None, exc=e.exc))
            except PathAbort as e:
                results.append(PathResult(ctx, 'abort', None, aborted=str(e)))
        self.paths = results
        return results
