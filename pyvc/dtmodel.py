"""Assumed contract of the datetime functions FlowCal uses (A-LIB): strptime is a partial uninterpreted function."""
import z3

from .values import Opaque, SV, Builtin, PyExc, ExcObj
from .ctx import Unsupported

S, Z, B = z3.StringSort(), z3.IntSort(), z3.BoolSort()
STRP_OK = z3.Function('strptime_ok', S, S, B)
STRP = z3.Function('strptime', S, S, Z)          # datetime value ids
TIME_OF = z3.Function('time_of', Z, Z)
COMBINE = z3.Function('dt_combine', Z, Z, Z)
DIFF_SECONDS = z3.Function('dt_diff_seconds', Z, Z, z3.RealSort())
DATE_MIN = z3.Int('date_min')


def libs(I):
    from .interp import raise_py, stamp

    def strptime(I_, a, k):
        s, fmt = I_.force(a[0]), I_.force(a[1])
        if I_.kind(s) != 'str':
            raise_py('TypeError', 'strptime() argument 1 must be str')
        I_.ctx.use_axiom('A-LIB:datetime.strptime partial uninterpreted (raises ValueError outside its domain)')
        sz, fz = I_.z(s), I_.z(fmt)
        if not I_.ctx.branch(STRP_OK(sz, fz)):
            raise_py('ValueError', 'time data does not match format')
        return Opaque('datetime', STRP(sz, fz))

    def combine(I_, a, k):
        d, t = I_.force(a[0]), I_.force(a[1])
        dz = DATE_MIN if (isinstance(d, Opaque) and d.tag == 'date.min') else d.payload
        return Opaque('datetime', COMBINE(dz, t.payload))
    cls = Opaque('pyclass', 'datetime.datetime')
    cls.members = {'strptime': Builtin('datetime.strptime', strptime), 'combine': Builtin('datetime.combine', combine)}
    datecls = Opaque('pyclass', 'datetime.date')
    datecls.members = {'min': Opaque('date.min')}
    timecls = Opaque('pyclass', 'datetime.time')
    timecls.members = {}
    return {'datetime.datetime': cls, 'datetime.date': datecls, 'datetime.time': timecls}


def opaque_attr(I, obj, name):
    from . import pybuiltins as PB
    if obj.tag == 'pyclass' and name in getattr(obj, 'members', {}):
        return obj.members[name]
    if obj.tag == 'datetime' and name == 'time':
        return Builtin('datetime.time', lambda I_, a, k: Opaque('time', TIME_OF(obj.payload)))
    if obj.tag == 'timedelta' and name == 'total_seconds':
        return Builtin('timedelta.total_seconds', lambda I_, a, k: SV(obj.payload, 'real'))
    return PB.NOATTR


def opaque_binop(I, op, a, b):
    from .interp import raise_py
    if op == 'Sub' and a.tag == 'datetime' and b.tag == 'datetime':
        return Opaque('timedelta', DIFF_SECONDS(a.payload, b.payload))
    if op == 'Sub' and a.tag == 'time' and b.tag == 'time':
        raise_py('TypeError', "unsupported operand type(s) for -: 'datetime.time' and 'datetime.time'")
    raise Unsupported('operator %s on %s and %s' % (op, a.tag, b.tag))


def isinstance_hook(I, v, t):
    """isinstance(v, datetime.time / datetime.datetime)"""
    if isinstance(t, Opaque) and t.tag == 'pyclass':
        if not isinstance(v, Opaque):
            return False
        return {'datetime.time': v.tag == 'time', 'datetime.datetime': v.tag == 'datetime', 'datetime.date': v.tag in ('datetime', 'date.min')}[t.payload]
    return None
