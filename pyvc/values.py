"""Symbolic value classes."""
import fractions
import z3

from .ctx import Unsupported


class SV(object):
    """Symbolic scalar. kind in int|real|bool|str.  np=True marks a NumPy scalar."""
    def __init__(self, z, kind, np=False):
        self.z = z
        self.kind = kind
        self.np = np

    def __repr__(self):
        return 'SV<%s%s %s>' % ('np.' if self.np else '', self.kind, self.z)


def real_const(x):
    if isinstance(x, float):
        if x != x or x in (float('inf'), float('-inf')):
            raise Unsupported('non-finite float constant')
        fr = fractions.Fraction(repr(x))
    else:
        fr = fractions.Fraction(x)
    return z3.RealVal(str(fr))


class Inf(object):
    """+/- infinity as a top/bottom element of the extended order (A-REAL: nothing more)."""
    __slots__ = ('sign',)

    def __init__(self, sign):
        self.sign = sign

    def __repr__(self):
        return '%sinf' % ('-' if self.sign < 0 else '+')


class Seq(object):
    """Python list / tuple with concrete length; items are arbitrary values."""

    def __init__(self, kind, items):
        self.kind = kind           # 'list' | 'tuple'
        self.items = list(items)
        self.origin = None         # (container, index) when read out of a symbolic sequence
        self.prov = None

    def __repr__(self):
        return '%s%r' % (self.kind, self.items)


class SymSeq(object):
    """Sequence of symbolic length n: element i is fn(i) (a value built on demand),
    overlaid by point updates."""

    def __init__(self, kind, n, fn, overlays=None, name=None):
        self.kind = kind           # 'list' | 'tuple' | 'range'
        self.n = n                 # z3 Int (or python int)
        self.fn = fn               # fn(interp, iz3) -> value
        self.overlays = list(overlays or [])   # [(iz3, value)] most recent last
        self.name = name
        self.prov = None
        self.elem_token = None     # identity of the (mutable) element objects; shared by shallow copies


class RangeV(object):
    """range(start, stop) with step 1 (start/stop int or z3)."""

    def __init__(self, start, stop):
        self.start = start
        self.stop = stop


class NDArr(object):
    """NumPy array / FCSData: shape (ints or z3 Int exprs), element function over z3 indices.

    Contents are immutable function objects: a write replaces `_fn` of the owning buffer.  A view has no
    contents of its own: `to_base` maps view indices to base indices, `from_base` maps a base index to
    (in-image condition, view indices); reads and writes go to the base."""

    def __init__(self, shape, dtype, fn, cls='ndarray', attrs=None, name=None):
        self.shape = list(shape)
        self.dtype = dtype          # 'bool' | 'int' | 'uint' | 'float' | 'object' | 'xfloat'
        self.bits = None            # for fixed-width unsigned ints
        self._fn = fn               # fn(*z3 indices) -> z3 expr
        self.cls = cls
        self.attrs = attrs if attrs is not None else {}
        self.name = name
        self.term = None            # how this array was produced, e.g. ('filter', base, mask)
        self.view_of = None
        self.to_base = None
        self.from_base = None
        self.prov = None
        self.writeable = True
        self.nanfn = None           # for float arrays that may hold NaN: nanfn(*idx) -> z3 Bool (None: no NaN anywhere)

    @property
    def fn(self):
        """current contents as a frozen function (later writes are not seen through the returned object)"""
        if self.view_of is None:
            return self._fn
        bf = self.view_of.fn
        tb = self.to_base
        return lambda *idx, bf=bf, tb=tb: bf(*tb(*idx))

    @fn.setter
    def fn(self, f):
        if self.view_of is not None:
            raise RuntimeError('internal: direct store into a view')
        self._fn = f

    def root(self):
        a = self
        while a.view_of is not None:
            a = a.view_of
        return a

    @property
    def ndim(self):
        return len(self.shape)

    def __repr__(self):
        return 'NDArr<%s %s %s%s>' % (self.cls, self.dtype, self.shape, ' view' if self.view_of is not None else '')


class PDict(object):
    def __init__(self, items=None, ordered=False):
        self.keys = []
        self.vals = []
        self.ordered = ordered
        self.prov = None
        for k, v in (items or []):
            self.set(k, v)

    def find(self, k):
        for i, kk in enumerate(self.keys):
            if type(kk) is type(k) and kk == k:
                return i
        return -1

    def set(self, k, v):
        i = self.find(k)
        if i >= 0:
            self.vals[i] = v
        else:
            self.keys.append(k)
            self.vals.append(v)


class SymDict(object):
    """dict[str,str] with symbolic content: present: String->Bool, val: String->String."""

    def __init__(self, present, val, name=None):
        self.present = present
        self.val = val
        self.name = name
        self.overlay = PDict()
        self.prov = None


class Obj(object):
    def __init__(self, cls, attrs=None):
        self.cls = cls
        self.attrs = attrs if attrs is not None else {}
        self.prov = None


class NT(object):
    """namedtuple instance."""

    def __init__(self, cls, values):
        self.cls = cls
        self.values = list(values)

    def get(self, name):
        return self.values[self.cls.fields.index(name)]


class NTClass(object):
    def __init__(self, name, fields):
        self.name = name
        self.fields = list(fields)


class ClassObj(object):
    def __init__(self, name, node, module, bases):
        self.name = name
        self.node = node
        self.module = module
        self.bases = bases
        self.members = {}


class ExcClass(object):
    def __init__(self, name, parents):
        self.name = name
        self.parents = parents


class ExcObj(object):
    def __init__(self, cls, args):
        self.cls = cls      # ExcClass
        self.args = list(args)
        self.attrs = {}

    def __repr__(self):
        return 'ExcObj<%s %r>' % (self.cls.name, self.args)


class PyExc(Exception):
    """A Python exception raised by the interpreted program."""

    def __init__(self, exc):
        Exception.__init__(self, repr(exc))
        self.exc = exc


class Closure(object):
    def __init__(self, node, env, module, qualname=None, defaults=None, kwdefaults=None, cls=None):
        self.node = node
        self.env = env
        self.module = module
        self.qualname = qualname
        self.defaults = defaults or []
        self.kwdefaults = kwdefaults or {}
        self.cls = cls
        self.is_staticmethod = False
        self.is_property = False


class Builtin(object):
    def __init__(self, name, fn):
        self.name = name
        self.fn = fn      # fn(interp, args, kwargs) -> value

    def __repr__(self):
        return 'Builtin<%s>' % self.name


class BoundMethod(object):
    def __init__(self, self_obj, func):
        self.self_obj = self_obj
        self.func = func


class ModuleObj(object):
    def __init__(self, name):
        self.name = name

    def __repr__(self):
        return 'Module<%s>' % self.name


class TypeObj(object):
    """A builtin type used in isinstance / as constructor: int, float, str, list, tuple, slice, bool..."""

    def __init__(self, name):
        self.name = name

    def __repr__(self):
        return 'Type<%s>' % self.name


class SliceV(object):
    def __init__(self, start, stop, step):
        self.start = start
        self.stop = stop
        self.step = step


class EllipsisV(object):
    pass


ELLIPSIS = EllipsisV()


class Partial(object):
    def __init__(self, func, args, kwargs):
        self.func = func
        self.args = args
        self.kwargs = kwargs


class Opaque(object):
    """An uninterpreted library object (datetime, matplotlib figure, ...) identified by a tag."""

    def __init__(self, tag, payload=None):
        self.tag = tag
        self.payload = payload

    def __repr__(self):
        return 'Opaque<%s>' % self.tag


class Poison(object):
    """Value of a variable havocked by a loop cut; any use leaves the supported subset."""

    def __init__(self, why):
        self.why = why


class OptVal(object):
    """Deferred optional: None when `isnone` holds, else `val`.  Forced (by a branch) only when inspected,
    so that moving it between containers does not fork the path."""

    def __init__(self, isnone, val):
        self.isnone = isnone
        self.val = val
