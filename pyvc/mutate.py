"""Deliberately broken bodies: small syntactic mutations of the function under contract, applied in memory to the AST the
engine executes (the repository is not touched).  Used by the thorough tier to check that the contracts have teeth: a mutant
is killed when some obligation is no longer discharged (or the explored outcome set changes)."""
import ast
import copy

CMP_SWAP = {ast.Lt: ast.LtE, ast.LtE: ast.Lt, ast.Gt: ast.GtE, ast.GtE: ast.Gt, ast.Eq: ast.NotEq, ast.NotEq: ast.Eq,
            ast.Is: ast.IsNot, ast.IsNot: ast.Is, ast.In: ast.NotIn, ast.NotIn: ast.In}


def _sites(fn):
    """deterministic list of (kind, node) in the function's own body (nested function definitions excluded)"""
    out = []

    def walk(n, top=False):
        if not top and isinstance(n, (ast.FunctionDef, ast.Lambda, ast.ClassDef)):
            return
        if isinstance(n, ast.Compare) and len(n.ops) == 1 and type(n.ops[0]) in CMP_SWAP:
            out.append(('compare', n))
        if isinstance(n, ast.BoolOp):
            out.append(('boolop', n))
        if isinstance(n, ast.If):
            out.append(('negate-if', n))
        if isinstance(n, ast.Constant) and isinstance(n.value, int) and not isinstance(n.value, bool) and abs(n.value) <= 4:
            out.append(('const+1', n))
        if isinstance(n, ast.BinOp) and isinstance(n.op, (ast.Add, ast.Sub)):
            out.append(('add-sub', n))
        if isinstance(n, ast.UnaryOp) and isinstance(n.op, (ast.Not, ast.Invert)):
            out.append(('drop-not', n))
        for c in ast.iter_child_nodes(n):
            walk(c)
    for st in fn.body:
        # skip the docstring
        if isinstance(st, ast.Expr) and isinstance(st.value, ast.Constant) and isinstance(st.value.value, str):
            continue
        walk(st, top=False)
    return out


def count_sites(fn):
    return len(_sites(fn))


def mutant(fn, index):
    """-> (mutated copy of fn, one-line description) for site `index`"""
    fn2 = copy.deepcopy(fn)
    sites = _sites(fn2)
    kind, n = sites[index % len(sites)]
    line = getattr(n, 'lineno', 0)
    if kind == 'compare':
        old = type(n.ops[0]).__name__
        n.ops[0] = CMP_SWAP[type(n.ops[0])]()
        what = 'line %d: comparison %s -> %s' % (line, old, type(n.ops[0]).__name__)
    elif kind == 'boolop':
        old = type(n.op).__name__
        n.op = ast.Or() if isinstance(n.op, ast.And) else ast.And()
        what = 'line %d: %s -> %s' % (line, old, type(n.op).__name__)
    elif kind == 'negate-if':
        n.test = ast.UnaryOp(op=ast.Not(), operand=n.test)
        ast.copy_location(n.test, n)
        ast.fix_missing_locations(n.test)
        what = 'line %d: if-condition negated' % line
    elif kind == 'const+1':
        n.value = n.value + 1
        what = 'line %d: constant %d -> %d' % (line, n.value - 1, n.value)
    elif kind == 'add-sub':
        old = type(n.op).__name__
        n.op = ast.Sub() if isinstance(n.op, ast.Add) else ast.Add()
        what = 'line %d: %s -> %s' % (line, old, type(n.op).__name__)
    else:
        # drop-not: replace "not x" by "x" (in place: turn the node into a no-op double negation is not possible; rewrite fields)
        inner = n.operand
        n.operand = ast.UnaryOp(op=type(n.op)(), operand=inner)
        ast.copy_location(n.operand, n)
        ast.fix_missing_locations(n.operand)
        what = 'line %d: negation dropped (doubled)' % line
    return fn2, what, line
