"""AST interpreter over symbolic values (forward symbolic execution, one path per run)."""
import ast
import fractions
import itertools
import z3

from .ctx import Unsupported, PathAbort, Ctx, Explorer
from .values import (SV, Seq, SymSeq, RangeV, NDArr, PDict, SymDict, Obj, NT, NTClass, ClassObj, ExcClass,
                     ExcObj, PyExc, Closure, Builtin, BoundMethod, ModuleObj, TypeObj, SliceV, ELLIPSIS,
                     EllipsisV, Partial, Opaque, Poison, Inf, real_const, OptVal)
from . import loader


class _Return(Exception):
    def __init__(self, v):
        self.v = v


class _Break(Exception):
    pass


class _Continue(Exception):
    pass


# ---------------------------------------------------------------------------------------------
# exception hierarchy
EXC = {}


def _exc(name, *parents):
    EXC[name] = ExcClass(name, [EXC[p] for p in parents])


_exc('BaseException')
_exc('Exception', 'BaseException')
_exc('ArithmeticError', 'Exception')
_exc('ZeroDivisionError', 'ArithmeticError')
_exc('OverflowError', 'ArithmeticError')
_exc('LookupError', 'Exception')
_exc('IndexError', 'LookupError')
_exc('KeyError', 'LookupError')
_exc('ValueError', 'Exception')
_exc('TypeError', 'Exception')
_exc('AttributeError', 'Exception')
_exc('RuntimeError', 'Exception')
_exc('NotImplementedError', 'RuntimeError')
_exc('OSError', 'Exception')
_exc('IOError', 'OSError')          # alias in py3; kept as a subclass for matching both names
_exc('FileNotFoundError', 'OSError')
_exc('StopIteration', 'Exception')
_exc('AssertionError', 'Exception')
_exc('UnicodeDecodeError', 'ValueError')


def exc_is(cls, other):
    if cls is other:
        return True
    # IOError and OSError are the same class in Python 3
    if {cls.name, other.name} == {'IOError', 'OSError'}:
        return True
    return any(exc_is(p, other) for p in cls.parents)


def raise_py(name, *args):
    raise PyExc(ExcObj(EXC[name], list(args)))


_stamp = itertools.count(1)


MUT_LINES = set()       # lines of the function under mutation that were executed on some explored path (per process)


def stamp(o):
    o.birth = next(_stamp)
    return o


# ---------------------------------------------------------------------------------------------
# uninterpreted real functions shared by the whole run (A-REAL)
R = z3.RealSort()
I = z3.IntSort()
exp10 = z3.Function('u_exp10', R, R)
log10 = z3.Function('u_log10', R, R)
fexp = z3.Function('u_exp', R, R)
flog = z3.Function('u_log', R, R)
fsqrt = z3.Function('u_sqrt', R, R)
fcos = z3.Function('u_cos', R, R)
fsin = z3.Function('u_sin', R, R)
fceil = z3.Function('u_ceil', R, I)
ffloor = z3.Function('u_floor', R, I)
fpow = z3.Function('u_pow', R, R, R)
pow2 = z3.Function('u_pow2', I, I)
flog2 = z3.Function('u_log2', R, R)
str_of_int = None


def ca_is_minus_one(I, a):
    c = I.const_of(a)
    return c is not None and c == -1


def sort_kind(e):
    s = e.sort()
    if s == z3.IntSort():
        return 'int'
    if s == z3.RealSort():
        return 'real'
    if s == z3.BoolSort():
        return 'bool'
    if s == z3.StringSort():
        return 'str'
    raise Unsupported('solver term of sort %s' % s)


class Interp(object):
    def __init__(self, ctx, config=None):
        self.ctx = ctx
        self.config = config or {}
        self.modules = {}
        self.loop_specs = self.config.get('loop_specs', {})
        self.call_contracts = self.config.get('call_contracts', {})
        self.envfacts = self.config.get('envfacts', {})
        self.inline_depth = 0
        self.fn_stack = []
        self.loop_counters = {}
        self.comp_index_stack = []
        self.pure_since = None
        self.hoist = None
        self.writes = []           # log of heap writes: (obj, what)
        self.trace_calls = []
        from . import pybuiltins, npmodel
        self.builtins = pybuiltins.make_builtins(self)
        self.np = npmodel.NumpyModel(self)
        self.libs = pybuiltins.make_libs(self)

    # ------------------------------------------------------------------ helpers
    def unsupported(self, node, why):
        ln = getattr(node, 'lineno', '?')
        raise Unsupported('%s (line %s in %s)' % (why, ln, self.fn_stack[-1] if self.fn_stack else '?'))

    def z(self, v, want=None):
        """value -> z3 expression"""
        v = self.force(v)
        if isinstance(v, SV):
            e = v.z
            k = v.kind
        elif isinstance(v, bool):
            e = z3.BoolVal(v)
            k = 'bool'
        elif isinstance(v, int):
            e = z3.IntVal(v)
            k = 'int'
        elif isinstance(v, str):
            e = z3.StringVal(v)
            k = 'str'
        elif isinstance(v, fractions.Fraction):
            e = z3.RealVal(str(v))
            k = 'real'
        elif isinstance(v, z3.ExprRef):
            e = v
            k = sort_kind(v)
        else:
            raise Unsupported('cannot convert %r to a solver term' % (type(v).__name__,))
        if want == 'real':
            if k == 'int':
                e = z3.ToReal(e)
            elif k == 'bool':
                e = z3.If(e, z3.RealVal(1), z3.RealVal(0))
            elif k != 'real':
                raise Unsupported('expected number, got %s' % k)
        elif want == 'int':
            if k == 'bool':
                e = z3.If(e, z3.IntVal(1), z3.IntVal(0))
            elif k != 'int':
                raise Unsupported('expected int, got %s' % k)
        elif want == 'bool':
            if k == 'int':
                e = e != 0
            elif k == 'real':
                e = e != 0
            elif k != 'bool':
                raise Unsupported('expected bool, got %s' % k)
        elif want == 'str' and k != 'str':
            raise Unsupported('expected str, got %s' % k)
        return e

    def kind(self, v):
        if isinstance(v, OptVal):
            raise Unsupported('internal: unforced optional value')
        if isinstance(v, SV):
            return v.kind
        if isinstance(v, z3.ExprRef):
            return sort_kind(v)
        if isinstance(v, bool):
            return 'bool'
        if isinstance(v, int):
            return 'int'
        if isinstance(v, str):
            return 'str'
        if v is None:
            return 'none'
        return type(v).__name__

    def is_number(self, v):
        return self.kind(v) in ('int', 'real', 'bool')

    def mk(self, e, kind, np=False):
        """z3 expr -> value, concretising literals."""
        e = z3.simplify(e)
        if kind == 'bool':
            if z3.is_true(e):
                return True
            if z3.is_false(e):
                return False
        elif kind == 'int':
            if z3.is_int_value(e) and not np:
                return e.as_long()
        elif kind == 'str':
            if z3.is_string_value(e):
                return e.as_string()
        return SV(e, kind, np)

    def real(self, x):
        return SV(real_const(x), 'real')

    def const_of(self, v):
        """python number if v is a literal, else None"""
        if isinstance(v, (bool, int)):
            return v
        if isinstance(v, SV) and v.kind in ('int', 'real'):
            e = z3.simplify(v.z)
            if z3.is_int_value(e):
                return e.as_long()
            if z3.is_rational_value(e):
                return fractions.Fraction(e.numerator_as_long(), e.denominator_as_long())
        return None

    def force(self, v):
        while isinstance(v, OptVal):
            v = None if self.ctx.branch(v.isnone) else v.val
        if isinstance(v, z3.ExprRef):
            v = self.mk(v, sort_kind(v))       # raw solver terms never flow as values
        return v

    # ------------------------------------------------------------------ truthiness
    def truth(self, v):
        v = self.force(v)
        if isinstance(v, bool):
            return v
        if v is None:
            return False
        if isinstance(v, int):
            return v != 0
        if isinstance(v, str):
            return len(v) > 0
        if isinstance(v, SV):
            if v.kind == 'bool':
                return self.ctx.branch(v.z)
            if v.kind in ('int', 'real'):
                return self.ctx.branch(v.z != 0)
            if v.kind == 'str':
                return self.ctx.branch(z3.Length(v.z) > 0)
        if isinstance(v, Seq):
            return len(v.items) > 0
        if isinstance(v, SymSeq):
            return self.ctx.branch(self.z(v.n) > 0)
        if isinstance(v, RangeV):
            return self.ctx.branch(self.z(v.stop) > self.z(v.start))
        if isinstance(v, PDict):
            return len(v.keys) > 0
        if isinstance(v, NDArr):
            if v.ndim == 0:
                return self.truth(self.mk(v.fn(), 'bool' if v.dtype == 'bool' else 'real'))
            raise Unsupported('truth value of an array')
        if isinstance(v, (Obj, Closure, Builtin, BoundMethod, ClassObj, Opaque, NT, ExcObj, ModuleObj)):
            return True
        if isinstance(v, Poison):
            raise Unsupported('use of a havocked loop variable: ' + v.why)
        raise Unsupported('truth of %s' % type(v).__name__)

    # ------------------------------------------------------------------ scalar arithmetic
    def binop(self, op, a, b):
        from .values import NDArr
        a, b = self.force(a), self.force(b)
        if isinstance(a, Poison) or isinstance(b, Poison):
            raise Unsupported('use of a havocked loop variable')
        if isinstance(a, NDArr) or isinstance(b, NDArr):
            return self.np.binop(op, a, b)
        ka, kb = self.kind(a), self.kind(b)
        # sequences
        if isinstance(a, Seq) and isinstance(b, Seq) and op == 'Add':
            if a.kind != b.kind:
                raise_py('TypeError', 'can only concatenate %s to %s' % (a.kind, a.kind))
            return stamp(Seq(a.kind, a.items + b.items))
        if op == 'Mult' and (isinstance(a, Seq) or isinstance(b, Seq)):
            s, n = (a, b) if isinstance(a, Seq) else (b, a)
            if isinstance(n, bool) or not (isinstance(n, int) or (isinstance(n, SV) and n.kind == 'int')):
                raise_py('TypeError', "can't multiply sequence by non-int")
            if isinstance(n, int):
                return stamp(Seq(s.kind, s.items * n))
            if len(s.items) == 1:
                item = s.items[0]
                if not (item is None or isinstance(item, (int, str, SV, bool))):
                    raise Unsupported('repetition of a mutable element with symbolic count')
                nz = z3.If(n.z < 0, z3.IntVal(0), n.z)
                return stamp(SymSeq(s.kind, z3.simplify(nz), lambda interp, i, item=item: item))
            raise Unsupported('sequence repetition with symbolic count')
        if ka == 'str' or kb == 'str':
            if ka == 'str' and kb == 'str' and op == 'Add':
                if isinstance(a, str) and isinstance(b, str):
                    return a + b
                return self.mk(z3.Concat(self.z(a), self.z(b)), 'str')
            if op == 'Mult':
                s, n = (a, b) if ka == 'str' else (b, a)
                if isinstance(s, str) and isinstance(n, int):
                    return s * n
                if isinstance(n, int) and n >= 0:
                    if n == 0:
                        return ''
                    e = self.z(s)
                    r = e
                    for _ in range(n - 1):
                        r = z3.Concat(r, e)
                    return self.mk(r, 'str')
                raise Unsupported('string repetition with symbolic count')
            if op == 'Add':
                raise_py('TypeError', 'can only concatenate str to str')
            raise Unsupported('string operator %s' % op)
        if isinstance(a, Inf) or isinstance(b, Inf):
            return self.inf_binop(op, a, b)
        if a is None or b is None:
            raise_py('TypeError', 'unsupported operand type(s) for %s: %s and %s' % (op, ka, kb))
        if not (self.is_number(a) and self.is_number(b)):
            if isinstance(a, Opaque) or isinstance(b, Opaque):
                return self.libs_opaque_binop(op, a, b)
            raise Unsupported('binary %s on %s and %s' % (op, ka, kb))
        # concrete fast path (ints / bools only)
        if isinstance(a, int) and isinstance(b, int):
            r = self.concrete_int_op(op, int(a), int(b))
            if r is not NotImplemented:
                return r
        npres = (isinstance(a, SV) and a.np) or (isinstance(b, SV) and b.np)
        isreal = ka == 'real' or kb == 'real'
        if op in ('Add', 'Sub', 'Mult'):
            if isreal:
                x, y = self.z(a, 'real'), self.z(b, 'real')
            else:
                x, y = self.z(a, 'int'), self.z(b, 'int')
            e = {'Add': lambda: x + y, 'Sub': lambda: x - y, 'Mult': lambda: x * y}[op]()
            return self.mk(e, 'real' if isreal else 'int', npres)
        if op == 'Div':
            x, y = self.z(a, 'real'), self.z(b, 'real')
            if not npres:
                if self.ctx.branch(y == 0):
                    raise_py('ZeroDivisionError', 'division by zero')
            return self.mk(x / y, 'real', npres)
        if op in ('FloorDiv', 'Mod'):
            if isreal:
                raise Unsupported('floor division / modulo on reals')
            x, y = self.z(a, 'int'), self.z(b, 'int')
            if not npres:
                if self.ctx.branch(y == 0):
                    raise_py('ZeroDivisionError', 'integer division or modulo by zero')
            cb = self.const_of(b)
            if cb is not None and cb > 0:
                e = x / y if op == 'FloorDiv' else x % y
            else:
                # python floor semantics for arbitrary sign
                q = z3.If(y > 0, x / y, (-x) / (-y))
                e = q if op == 'FloorDiv' else x - q * y
            return self.mk(e, 'int', npres)
        if op == 'Pow':
            return self.pow(a, b, npres)
        if op == 'LShift':
            cb = self.const_of(b)
            if isreal:
                raise_py('TypeError', 'unsupported operand for <<')
            if cb is not None and cb >= 0:
                return self.mk(self.z(a, 'int') * z3.IntVal(2 ** cb), 'int', npres)
            self.pow2_axioms()
            if not npres and self.ctx.branch(self.z(b, 'int') < 0, safety=True):
                raise_py('ValueError', 'negative shift count')
            r = self.mk(self.z(a, 'int') * pow2(self.z(b, 'int')), 'int', npres)
            if ca_is_minus_one(self, a) and isinstance(r, SV):
                r.neg_pow2_bits = self.z(b, 'int')        # (~0) << k  ==  -(2^k)
            return r
        if op == 'BitAnd':
            if ka == 'bool' and kb == 'bool':
                return self.mk(z3.And(self.z(a), self.z(b)), 'bool')
            return self.bitand(a, b, npres)
        if op == 'BitOr':
            if ka == 'bool' and kb == 'bool':
                return self.mk(z3.Or(self.z(a), self.z(b)), 'bool')
            raise Unsupported('bitwise or on integers')
        raise Unsupported('operator %s' % op)

    def concrete_int_op(self, op, a, b):
        try:
            if op == 'Add':
                return a + b
            if op == 'Sub':
                return a - b
            if op == 'Mult':
                return a * b
            if op == 'FloorDiv':
                if b == 0:
                    raise_py('ZeroDivisionError', 'integer division or modulo by zero')
                return a // b
            if op == 'Mod':
                if b == 0:
                    raise_py('ZeroDivisionError', 'integer division or modulo by zero')
                return a % b
            if op == 'Div':
                if b == 0:
                    raise_py('ZeroDivisionError', 'division by zero')
                return SV(z3.RealVal(str(fractions.Fraction(a, b))), 'real')
            if op == 'Pow':
                if b >= 0 and abs(a) <= 2 ** 16 and b <= 4096:
                    return a ** b
                return NotImplemented
            if op == 'LShift':
                if b < 0:
                    raise_py('ValueError', 'negative shift count')
                return a << b
            if op == 'RShift':
                return a >> b
            if op == 'BitAnd':
                return a & b
            if op == 'BitOr':
                return a | b
            if op == 'BitXor':
                return a ^ b
        except PyExc:
            raise
        return NotImplemented

    def inf_binop(self, op, a, b):
        if op == 'Mult' and isinstance(a, Inf) and isinstance(b, int):
            return Inf(a.sign * (1 if b > 0 else -1)) if b != 0 else self.unsupported(None, 'inf*0')
        raise Unsupported('arithmetic on infinity')

    def pow2_axioms(self):
        if getattr(self.ctx, '_pow2_ax', False):
            return
        self.ctx._pow2_ax = True
        for k in range(0, 70):
            self.ctx.add_axiom(pow2(z3.IntVal(k)) == z3.IntVal(2 ** k), 'A-INT:pow2-table(0..69)')
        kk = z3.Int('ax_pk')
        self.ctx.add_axiom(z3.ForAll([kk], z3.Implies(kk >= 0, pow2(kk) >= 1), patterns=[pow2(kk)]), 'A-INT:2^k >= 1 for k >= 0')
        xx = z3.Real('ax_lx')
        self.ctx.add_axiom(z3.ForAll([xx], z3.Implies(xx >= 1, flog2(xx) >= 0), patterns=[flog2(xx)]), 'A-REAL:log2(x) >= 0 for x >= 1')

    def bitand(self, a, b, npres):
        # x & (2^k - 1) == x mod 2^k for x >= 0 (axiom on &), mask given as literal or as pow2(k)-1
        cb = self.const_of(b)
        if cb is not None and cb >= 0 and (cb + 1) & cb == 0:
            x = self.z(a, 'int')
            self.ctx.use_axiom('A-INT:x&(2^k-1)==x mod 2^k for x>=0')
            return self.mk(z3.If(x >= 0, x % z3.IntVal(cb + 1), self.ctx.fresh_int('bitand_neg')), 'int', npres)
        m = getattr(b, 'mask_bits', None)
        if m is not None:
            x = self.z(a, 'int')
            self.pow2_axioms()
            self.ctx.use_axiom('A-INT:x&(2^k-1)==x mod 2^k for x>=0')
            return self.mk(z3.If(x >= 0, x % pow2(m), self.ctx.fresh_int('bitand_neg')), 'int', npres)
        raise Unsupported('bitwise and with a non-mask operand')

    def pow(self, a, b, npres=False):
        ca, cb = self.const_of(a), self.const_of(b)
        if cb is not None and cb == int(cb) and 0 <= cb <= 8 and not isinstance(a, Inf):
            n = int(cb)
            isreal = self.kind(a) == 'real' or self.kind(b) == 'real'
            if n == 0:
                return self.mk(z3.RealVal(1), 'real', npres) if isreal else 1
            r = a
            for _ in range(n - 1):
                r = self.binop('Mult', r, a)
            if isreal and self.kind(r) != 'real':
                r = self.mk(self.z(r, 'real'), 'real', npres)
            return r
        if ca is not None and ca == 10:
            self.real_axioms()
            return self.mk(exp10(self.z(b, 'real')), 'real', npres)
        if ca is not None and ca == 2 and self.kind(b) == 'int':
            self.pow2_axioms()
            return self.mk(pow2(self.z(b, 'int')), 'int', npres)
        if ca is not None and ca == 2 and self.kind(b) == 'real':
            bi = getattr(b, 'int_valued', None)
            if bi is not None:
                self.pow2_axioms()
                return SV(z3.ToReal(pow2(bi)), 'real', npres)
        self.real_axioms()
        self.pow_axioms()
        return self.mk(fpow(self.z(a, 'real'), self.z(b, 'real')), 'real', npres)

    def pow_axioms(self):
        if getattr(self.ctx, '_pow_ax', False):
            return
        self.ctx._pow_ax = True
        a, b, m, u, v = z3.Reals('ax_pa ax_pb ax_pm ax_pu ax_pv')
        ax = self.ctx.add_axiom
        ax(z3.ForAll([a, m], z3.Implies(a > 0, fpow(a, m) == fexp(m * flog(a))), patterns=[fpow(a, m)]), 'A-REAL:x**m = exp(m*log x) for x>0')
        ax(z3.ForAll([u, v], fexp(u + v) == fexp(u) * fexp(v), patterns=[fexp(u + v)]), 'A-REAL:exp(u+v)=exp(u)exp(v)')
        ax(z3.ForAll([u], fexp(u) > 0, patterns=[fexp(u)]), 'A-REAL:exp positive')
        ax(z3.ForAll([a, b, m], z3.Implies(z3.And(0 < a, a < b, m > 0), fpow(a, m) < fpow(b, m)),
                     patterns=[z3.MultiPattern(fpow(a, m), fpow(b, m))]), 'A-REAL:x**m increasing in x>0 for m>0')

    def real_axioms(self):
        """Algebraic facts about exp10/log10 used by obligations (A-REAL)."""
        if getattr(self.ctx, '_real_ax', False):
            return
        self.ctx._real_ax = True
        x, y = z3.Reals('ax_x ax_y')
        ax = self.ctx.add_axiom
        ax(z3.ForAll([x, y], z3.Implies(x < y, exp10(x) < exp10(y)), patterns=[z3.MultiPattern(exp10(x), exp10(y))]),
           'A-REAL:exp10 strictly increasing')
        ax(z3.ForAll([x], exp10(x) > 0, patterns=[exp10(x)]), 'A-REAL:exp10 positive')
        ax(exp10(z3.RealVal(0)) == 1, 'A-REAL:exp10(0)=1')
        ax(z3.ForAll([x], z3.Implies(x > 0, exp10(log10(x)) == x), patterns=[log10(x)]), 'A-REAL:exp10(log10 x)=x')
        ax(z3.ForAll([x], log10(exp10(x)) == x, patterns=[exp10(x)]), 'A-REAL:log10(exp10 x)=x')

    def unop(self, op, a):
        a = self.force(a)
        if isinstance(a, NDArr):
            return self.np.unop(op, a)
        if op == 'Not':
            t = self.truth_value(a)
            if isinstance(t, bool):
                return not t
            return self.mk(z3.Not(t.z), 'bool')
        if isinstance(a, Inf):
            if op == 'USub':
                return Inf(-a.sign)
            if op == 'UAdd':
                return a
        if op == 'USub':
            if isinstance(a, bool):
                return -int(a)
            if isinstance(a, int):
                return -a
            if self.is_number(a):
                k = 'real' if self.kind(a) == 'real' else 'int'
                return self.mk(-self.z(a, k), k, getattr(a, 'np', False))
            if a is None:
                raise_py('TypeError', 'bad operand type for unary -: NoneType')
        if op == 'UAdd' and self.is_number(a):
            return a
        if op == 'Invert':
            if isinstance(a, bool):
                return ~int(a)
            if isinstance(a, int):
                return ~a
            if self.kind(a) == 'int':
                sh = getattr(a, 'neg_pow2_bits', None)
                if sh is not None:
                    r = SV(pow2(sh) - 1, 'int')            # ~(-(2^k)) == 2^k - 1
                else:
                    r = self.mk(-self.z(a, 'int') - 1, 'int')
                if sh is not None and isinstance(r, SV):
                    r.mask_bits = sh
                return r
            if self.kind(a) == 'bool':
                if getattr(a, 'np', False):
                    return self.mk(z3.Not(a.z), 'bool', True)
                raise Unsupported('~ on python bool')
        raise Unsupported('unary %s on %s' % (op, self.kind(a)))

    def truth_value(self, v):
        """like truth() but returns a symbolic bool without forking when possible"""
        if isinstance(v, bool):
            return v
        if isinstance(v, SV) and v.kind == 'bool':
            return v
        if isinstance(v, SV) and v.kind in ('int', 'real'):
            return self.mk(v.z != 0, 'bool')
        return self.truth(v)

    # ------------------------------------------------------------------ comparison
    def compare(self, op, a, b):
        a, b = self.force(a), self.force(b)
        if isinstance(a, Poison) or isinstance(b, Poison):
            raise Unsupported('use of a havocked loop variable')
        if op == 'Is':
            return self.is_(a, b)
        if op == 'IsNot':
            r = self.is_(a, b)
            return (not r) if isinstance(r, bool) else self.mk(z3.Not(r.z), 'bool')
        if op == 'In':
            return self.contains(b, a)
        if op == 'NotIn':
            r = self.contains(b, a)
            return (not r) if isinstance(r, bool) else self.mk(z3.Not(r.z), 'bool')
        if isinstance(a, NDArr) or isinstance(b, NDArr):
            return self.np.compare(op, a, b)
        if op in ('Eq', 'NotEq'):
            r = self.equals(a, b)
            if op == 'NotEq':
                r = (not r) if isinstance(r, bool) else self.mk(z3.Not(r.z), 'bool')
            return r
        # ordering
        if isinstance(a, Inf) or isinstance(b, Inf):
            return self.inf_compare(op, a, b)
        if self.is_number(a) and self.is_number(b):
            if not isinstance(a, SV) and not isinstance(b, SV):
                return {'Lt': a < b, 'LtE': a <= b, 'Gt': a > b, 'GtE': a >= b}[op]
            isreal = self.kind(a) == 'real' or self.kind(b) == 'real'
            w = 'real' if isreal else 'int'
            x, y = self.z(a, w), self.z(b, w)
            e = {'Lt': x < y, 'LtE': x <= y, 'Gt': x > y, 'GtE': x >= y}[op]
            return self.mk(e, 'bool', getattr(a, 'np', False) or getattr(b, 'np', False))
        if isinstance(a, str) and isinstance(b, str):
            return {'Lt': a < b, 'LtE': a <= b, 'Gt': a > b, 'GtE': a >= b}[op]
        if a is None or b is None or self.kind(a) == 'str' or self.kind(b) == 'str':
            if self.kind(a) == 'str' and self.kind(b) == 'str':
                raise Unsupported('ordering of symbolic strings')
            raise_py('TypeError', "'%s' not supported between instances of %s and %s" % (op, self.kind(a), self.kind(b)))
        raise Unsupported('comparison %s on %s, %s' % (op, self.kind(a), self.kind(b)))

    def inf_compare(self, op, a, b):
        def ext(v):
            if isinstance(v, Inf):
                return v.sign
            if self.is_number(v):
                return 0
            raise Unsupported('comparison of infinity with %s' % self.kind(v))
        sa, sb = ext(a), ext(b)
        if sa == 0 or sb == 0 or sa != sb:
            # one side finite, or opposite infinities: order decided by signs
            return {'Lt': sa < sb, 'LtE': sa < sb, 'Gt': sa > sb, 'GtE': sa > sb}[op]
        return {'Lt': False, 'LtE': True, 'Gt': False, 'GtE': True}[op]

    def is_(self, a, b):
        if a is None or b is None:
            return a is None and b is None
        if isinstance(a, EllipsisV) or isinstance(b, EllipsisV):
            return a is b
        if isinstance(a, bool) and isinstance(b, bool):
            return a == b
        if isinstance(a, (Seq, SymSeq, NDArr, PDict, Obj, SymDict)) or isinstance(b, (Seq, SymSeq, NDArr, PDict, Obj, SymDict)):
            return a is b
        if a is b:
            return True
        raise Unsupported("'is' on %s and %s" % (self.kind(a), self.kind(b)))

    def equals(self, a, b):
        """== on non-array values -> bool | SV bool"""
        a, b = self.force(a), self.force(b)
        if a is None or b is None:
            if a is None and b is None:
                return True
            other = b if a is None else a
            if isinstance(other, NDArr):
                raise Unsupported('array == None')
            return False
        ka, kb = self.kind(a), self.kind(b)
        if isinstance(a, Inf) or isinstance(b, Inf):
            if isinstance(a, Inf) and isinstance(b, Inf):
                return a.sign == b.sign
            return False
        if self.is_number(a) and self.is_number(b):
            if not isinstance(a, SV) and not isinstance(b, SV):
                return a == b
            isreal = ka == 'real' or kb == 'real'
            w = 'real' if isreal else 'int'
            return self.mk(self.z(a, w) == self.z(b, w), 'bool')
        if ka == 'str' and kb == 'str':
            if isinstance(a, str) and isinstance(b, str):
                return a == b
            return self.mk(self.z(a) == self.z(b), 'bool')
        if (ka == 'str') != (kb == 'str') and (self.is_number(a) or self.is_number(b)):
            return False
        if isinstance(a, Seq) and isinstance(b, Seq):
            if a.kind != b.kind or len(a.items) != len(b.items):
                return False
            acc = True
            for x, y in zip(a.items, b.items):
                r = self.equals(x, y)
                acc = self.and_(acc, r)
                if acc is False:
                    return False
            return acc
        if isinstance(a, Seq) != isinstance(b, Seq) and (isinstance(a, Seq) or isinstance(b, Seq)):
            other = b if isinstance(a, Seq) else a
            if self.is_number(other) or self.kind(other) == 'str' or isinstance(other, (PDict, Obj, Opaque)):
                return False
        if isinstance(a, NT) and isinstance(b, NT):
            return self.equals(Seq('tuple', a.values), Seq('tuple', b.values))
        if isinstance(a, PDict) and isinstance(b, PDict):
            if len(a.keys) != len(b.keys):
                return False
            acc = True
            for k, v in zip(a.keys, a.vals):
                i = b.find(k)
                if i < 0:
                    return False
                acc = self.and_(acc, self.equals(v, b.vals[i]))
            return acc
        if isinstance(a, Opaque) and isinstance(b, Opaque):
            return self.libs_opaque_eq(a, b)
        if isinstance(a, SymDict) and isinstance(b, SymDict):
            if a.overlay.keys or b.overlay.keys:
                raise Unsupported('== on updated symbolic dicts')
            k = z3.String('deq_k')
            return self.mk(z3.ForAll([k], z3.And(z3.Select(a.present, k) == z3.Select(b.present, k),
                                                 z3.Implies(z3.Select(a.present, k),
                                                            z3.Select(a.val, k) == z3.Select(b.val, k)))), 'bool')
        if a is b:
            return True
        if isinstance(a, Obj) and isinstance(b, Obj):
            m = self.find_method(a, '__eq__')
            if m is not None:
                return self.call(m, [b], {})
            return a is b
        raise Unsupported('== on %s and %s' % (ka, kb))

    def and_(self, a, b):
        if a is False or b is False:
            return False
        if a is True:
            return b
        if b is True:
            return a
        return self.mk(z3.And(a.z, b.z), 'bool')

    def or_(self, a, b):
        if a is True or b is True:
            return True
        if a is False:
            return b
        if b is False:
            return a
        return self.mk(z3.Or(a.z, b.z), 'bool')

    def not_(self, a):
        if isinstance(a, bool):
            return not a
        return self.mk(z3.Not(a.z), 'bool')

    def contains(self, container, item):
        if isinstance(container, Seq):
            acc = False
            for x in container.items:
                try:
                    r = self.equals(x, item)
                except Unsupported:
                    raise
                acc = self.or_(acc, r)
                if acc is True:
                    return True
            return acc
        if isinstance(container, SymSeq):
            return self.symseq_contains(container, item)
        if isinstance(container, RangeV):
            if self.kind(item) != 'int':
                return False
            x = self.z(item, 'int')
            return self.mk(z3.And(self.z(container.start) <= x, x < self.z(container.stop)), 'bool')
        if isinstance(container, PDict):
            return container.find(item) >= 0 if not isinstance(item, SV) else self.pdict_has_sym(container, item)
        if isinstance(container, SymDict):
            return self.symdict_has(container, item)
        if self.kind(container) == 'str':
            if self.kind(item) != 'str':
                raise_py('TypeError', "'in <string>' requires string as left operand")
            if isinstance(container, str) and isinstance(item, str):
                return item in container
            return self.mk(z3.Contains(self.z(container), self.z(item)), 'bool')
        if container is None or self.is_number(container):
            raise_py('TypeError', 'argument of type %s is not iterable' % self.kind(container))
        if isinstance(container, NDArr):
            return self.np.contains(container, item)
        if isinstance(container, Opaque) and container.tag == 'havoc':
            return self.mk(self.ctx.fresh_bool('in_prior_state_' + str(container.payload)), 'bool')
        if isinstance(container, Opaque) and container.tag == 'set':
            acc = False
            for x in container.payload:
                acc = self.or_(acc, self.equals(x, item))
            return acc
        if isinstance(container, Opaque):
            h = self.config.get('opaque_contains')
            if h is not None:
                return h(self, container, item)
        raise Unsupported("'in' on %s" % self.kind(container))

    def pdict_has_sym(self, d, item):
        acc = False
        for k in d.keys:
            acc = self.or_(acc, self.equals(k, item))
        return acc

    def symdict_has(self, d, item):
        if self.kind(item) != 'str':
            return False
        i = d.overlay.find(item) if not isinstance(item, SV) else -1
        if i >= 0:
            return True
        if isinstance(item, SV) and d.overlay.keys:
            raise Unsupported('symbolic key lookup in an updated symbolic dict')
        return self.mk(z3.Select(d.present, self.z(item)), 'bool')

    def symseq_contains(self, s, item):
        if s.overlays:
            raise Unsupported("'in' on an updated symbolic sequence")
        k = self.ctx.fresh_int('in_k')
        n = self.z(s.n)
        elem = self.pure_elem(s, k)
        eq = self.equals(elem, item)
        eqz = self.z(eq, 'bool')
        return self.mk(z3.Exists([k], z3.And(0 <= k, k < n, eqz)), 'bool')

    def pure_elem_nofork(self, s, k):
        """element k of a symbolic sequence of scalars as one term (overlays become an ite chain)"""
        if isinstance(s, Seq):
            if not s.items:
                raise Unsupported('element of an empty sequence')
            v = s.items[-1]
            kd = self.kind(v)
            for i in range(len(s.items) - 2, -1, -1):
                if self.kind(s.items[i]) != kd:
                    raise Unsupported('mixed element kinds in a quantified context')
                v = self.mk(z3.If(k == i, self.z(s.items[i]), self.z(v)), kd)
            return v
        if isinstance(s, RangeV):
            return self.mk(self.z(s.start, 'int') + k, 'int')
        self.ctx.quant_mode += 1
        try:
            v = s.fn(self, k)
        finally:
            self.ctx.quant_mode -= 1
        if not isinstance(v, (SV, int, str, bool)):
            raise Unsupported('structured element in a quantified context')
        for (oi, ov) in s.overlays:
            if not isinstance(ov, (SV, int, str, bool)):
                raise Unsupported('structured element in a quantified context')
            kd = self.kind(ov)
            v = self.mk(z3.If(self.z(oi, 'int') == k, self.z(ov), self.z(v)), kd)
        return v

    def pure_elem(self, s, k):
        """element k of a symbolic sequence without forking (must be a scalar)"""
        return self.pure_elem_nofork(s, k)
        v = s.fn(self, k)
        if not (isinstance(v, (SV, int, str, bool))):
            raise Unsupported('quantified use of a structured sequence element')
        return v

    # ------------------------------------------------------------------ modules / names
    def module_env(self, modname):
        if modname in self.modules:
            return self.modules[modname]
        env = {}
        self.modules[modname] = env
        tree, src, path = loader.load_module_ast(modname)
        env['__name__'] = modname
        self.fn_stack.append(modname + '.<module>')
        try:
            for st in loader.strip_docstring(tree.body):
                self.exec_module_stmt(st, env, modname)
        finally:
            self.fn_stack.pop()
        return env

    def exec_module_stmt(self, st, env, modname):
        if isinstance(st, (ast.Import, ast.ImportFrom)):
            self.exec_import(st, env)
        elif isinstance(st, ast.FunctionDef):
            try:
                env[st.name] = self.make_closure(st, env, modname, st.name)
            except (Unsupported, PyExc) as e:
                env[st.name] = Poison('definition of %s not modelled: %s' % (st.name, e))
        elif isinstance(st, ast.ClassDef):
            try:
                env[st.name] = self.make_class(st, env, modname)
            except (Unsupported, PyExc) as e:
                env[st.name] = Poison('definition of class %s not modelled: %s' % (st.name, e))
        elif isinstance(st, (ast.Assign, ast.Expr, ast.If, ast.Try)):
            try:
                self.exec_stmt(st, env)
            except Unsupported:
                # module-level statement outside the subset: names it defines stay undefined
                for n in ast.walk(st):
                    if isinstance(n, ast.Name) and isinstance(n.ctx, ast.Store):
                        env.setdefault(n.id, Poison('module-level statement not modelled: line %d' % st.lineno))
        else:
            pass

    def exec_import(self, st, env):
        if isinstance(st, ast.Import):
            for a in st.names:
                full = a.name
                if a.asname:
                    env[a.asname] = ModuleObj(full)
                else:
                    env[full.split('.')[0]] = ModuleObj(full.split('.')[0])
        else:
            mod = st.module or ''
            for a in st.names:
                try:
                    env[a.asname or a.name] = self.getattr_(ModuleObj(mod), a.name)
                except Unsupported as e:
                    env[a.asname or a.name] = Poison('import not modelled: %s' % e)

    def make_closure(self, node, env, modname, qualname, cls=None):
        defaults = [self.eval(d, env) for d in node.args.defaults]
        kwdefaults = {}
        for a, d in zip(node.args.kwonlyargs, node.args.kw_defaults):
            if d is not None:
                kwdefaults[a.arg] = self.eval(d, env)
        c = Closure(node, env, modname, qualname, defaults, kwdefaults, cls)
        for dec in node.decorator_list:
            if isinstance(dec, ast.Name) and dec.id == 'staticmethod':
                c.is_staticmethod = True
            elif isinstance(dec, ast.Name) and dec.id == 'property':
                c.is_property = True
            else:
                raise Unsupported('decorator on %s' % qualname)
        return c

    def make_class(self, node, env, modname):
        bases = []
        for b in node.bases:
            try:
                bases.append(self.eval(b, env))
            except Unsupported:
                bases.append(Opaque('libclass', ast.unparse(b)))     # a library base class: its methods are not modelled
        for b in bases:
            if isinstance(b, ExcClass):
                ec = ExcClass(node.name, [b])
                EXC.setdefault(node.name, ec)
                return EXC[node.name]
        c = ClassObj(node.name, node, modname, bases)
        for st in loader.strip_docstring(node.body):
            if isinstance(st, ast.FunctionDef):
                try:
                    c.members[st.name] = self.make_closure(st, env, modname, node.name + '.' + st.name, cls=c)
                except (Unsupported, PyExc) as e:
                    c.members[st.name] = Poison('method %s not modelled: %s' % (st.name, e))
            elif isinstance(st, ast.Assign) and len(st.targets) == 1 and isinstance(st.targets[0], ast.Name):
                try:
                    c.members[st.targets[0].id] = self.eval(st.value, env)
                except Unsupported as e:
                    c.members[st.targets[0].id] = Poison('class attribute not modelled: %s' % e)
            elif isinstance(st, ast.Pass):
                pass
            else:
                raise Unsupported('class body statement %s' % type(st).__name__)
        return c

    def lookup(self, name, env, node=None):
        e = env
        while e is not None:
            if name in e:
                v = e[name]
                return v
            e = e.get('__parent__') if '__parent__' in e else None
            if e is None:
                break
        genv = env.get('__globals__')
        if genv is not None and name in genv:
            return genv[name]
        if name in self.builtins:
            return self.builtins[name]
        if name in EXC:
            return EXC[name]
        raise PyExc(ExcObj(EXC.setdefault('NameError', ExcClass('NameError', [EXC['Exception']])),
                           ["name '%s' is not defined" % name]))

    # ------------------------------------------------------------------ expressions
    def eval(self, node, env):
        if self.hoist is not None:
            h = self.hoist.get(id(node))
            if h is not None:
                return h[0]
        m = getattr(self, 'eval_' + type(node).__name__, None)
        if m is None:
            self.unsupported(node, 'expression %s' % type(node).__name__)
        return m(node, env)

    def eval_Constant(self, node, env):
        v = node.value
        if isinstance(v, float):
            return self.real(v)
        if v is Ellipsis:
            return ELLIPSIS
        if isinstance(v, bytes):
            raise Unsupported('bytes literal')
        return v

    def eval_Name(self, node, env):
        v = self.lookup(node.id, env, node)
        if isinstance(v, Poison):
            self.unsupported(node, 'use of %s: %s' % (node.id, v.why))
        return v

    def eval_Tuple(self, node, env):
        return stamp(Seq('tuple', self.eval_elts(node.elts, env)))

    def eval_List(self, node, env):
        return stamp(Seq('list', self.eval_elts(node.elts, env)))

    def eval_elts(self, elts, env):
        out = []
        for e in elts:
            if isinstance(e, ast.Starred):
                out.extend(self.iterate_concrete(self.eval(e.value, env)))
            else:
                out.append(self.eval(e, env))
        return out

    def eval_Dict(self, node, env):
        d = stamp(PDict())
        for k, v in zip(node.keys, node.values):
            if k is None:
                raise Unsupported('dict unpacking')
            d.set(self.eval(k, env), self.eval(v, env))
        return d

    def eval_BinOp(self, node, env):
        a = self.eval(node.left, env)
        b = self.eval(node.right, env)
        return self.binop(type(node.op).__name__, a, b)

    def eval_UnaryOp(self, node, env):
        return self.unop(type(node.op).__name__, self.eval(node.operand, env))

    def eval_BoolOp(self, node, env):
        isand = isinstance(node.op, ast.And)
        v = None
        for i, e in enumerate(node.values):
            v = self.eval(e, env)
            if i == len(node.values) - 1:
                return v
            t = self.truth(v)
            if isand and not t:
                return v
            if not isand and t:
                return v
        return v

    def eval_Compare(self, node, env):
        left = self.eval(node.left, env)
        acc = True
        for op, rnode in zip(node.ops, node.comparators):
            right = self.eval(rnode, env)
            r = self.compare(type(op).__name__, left, right)
            if len(node.ops) == 1:
                return r
            if isinstance(r, NDArr):
                raise Unsupported('chained comparison on arrays')
            if not self.truth(r):
                return False
            left = right
        return True

    def eval_IfExp(self, node, env):
        if self.truth(self.eval(node.test, env)):
            return self.eval(node.body, env)
        return self.eval(node.orelse, env)

    def eval_Lambda(self, node, env):
        return self.make_closure_lambda(node, env)

    def make_closure_lambda(self, node, env):
        defaults = [self.eval(d, env) for d in node.args.defaults]
        return Closure(node, env, env.get('__module__'), '<lambda>', defaults)

    def eval_Attribute(self, node, env):
        obj = self.eval(node.value, env)
        return self.getattr_(obj, node.attr, node)

    def eval_Subscript(self, node, env):
        obj = self.eval(node.value, env)
        key = self.eval_index(node.slice, env)
        return self.getitem(obj, key)

    def eval_index(self, node, env):
        if isinstance(node, ast.Slice):
            return self.eval_Slice(node, env)
        if isinstance(node, ast.Tuple):
            return stamp(Seq('tuple', [self.eval_index(e, env) for e in node.elts]))
        return self.eval(node, env)

    def eval_Slice(self, node, env):
        f = lambda n: None if n is None else self.eval(n, env)
        return SliceV(f(node.lower), f(node.upper), f(node.step))

    def eval_Call(self, node, env):
        fv = self.eval(node.func, env)
        args = []
        for a in node.args:
            if isinstance(a, ast.Starred):
                args.extend(self.iterate_concrete(self.eval(a.value, env)))
            elif isinstance(a, ast.GeneratorExp):
                args.append(self.eval_comp(a, env, 'gen'))
            else:
                args.append(self.eval(a, env))
        kwargs = {}
        for kw in node.keywords:
            if kw.arg is None:
                d = self.eval(kw.value, env)
                if not isinstance(d, PDict):
                    raise Unsupported('** of a non-dict')
                for k, v in zip(d.keys, d.vals):
                    kwargs[k] = v
            else:
                kwargs[kw.arg] = self.eval(kw.value, env)
        self.cur_node = node
        return self.call(fv, args, kwargs, node)

    def eval_ListComp(self, node, env):
        return self.eval_comp(node, env, 'list')

    def eval_GeneratorExp(self, node, env):
        return self.eval_comp(node, env, 'gen')

    def eval_JoinedStr(self, node, env):
        raise Unsupported('f-string')

    def eval_Starred(self, node, env):
        raise Unsupported('starred expression')

    # ------------------------------------------------------------------ comprehensions
    def eval_comp(self, node, env, kind):
        gens = node.generators
        for g in gens:
            if g.is_async:
                raise Unsupported('async comprehension')
        out = []
        res = self.comp_rec(node, gens, 0, env, out)
        if res is not None:
            return res
        return stamp(Seq('list', out))

    def comp_rec(self, node, gens, gi, env, out):
        g = gens[gi]
        it = self.eval(g.iter, env)
        if isinstance(it, NDArr) and it.ndim == 1 and not isinstance(it.shape[0], int):
            # a 1-d array of symbolic length is iterated element by element
            arr_ = it
            fn_ = arr_.fn
            snap = NDArr(list(arr_.shape), arr_.dtype, fn_)
            it = stamp(SymSeq('list', self.mk(self.np.dim_z(arr_.shape[0]), 'int'),
                              lambda I_, k_, snap=snap: I_.np.elem_sv(snap, k_)))
            it.no_raise = True
        if isinstance(it, Opaque) and it.tag == 'gridsel' and gi == 0:
            # [item for sublist in G[mask] for item in sublist]: the members of the selected cells
            ok = (len(gens) == 2 and not g.ifs and not gens[1].ifs and isinstance(g.target, ast.Name)
                  and isinstance(gens[1].iter, ast.Name) and gens[1].iter.id == g.target.id
                  and isinstance(gens[1].target, ast.Name) and isinstance(node.elt, ast.Name) and node.elt.id == gens[1].target.id)
            G, bm = it.payload
            mem = G.grid.members
            if not ok or mem is None:
                raise Unsupported('comprehension over selected cells of an object array (only the flattening form is modelled)')
            nz, ev, af, bf = mem
            kq = z3.Int('fl_k')
            self.ctx.use_axiom('flattening the selected cells lists exactly the events stored in cells where the mask holds')
            return Opaque('indexlist', lambda t, nz=nz, ev=ev, af=af, bf=bf, bm=bm, kq=kq:
                          z3.Exists([kq], z3.And(0 <= kq, kq < nz, ev(kq) == t, bm(af(kq), bf(kq))), patterns=[ev(kq)]))
        if isinstance(it, (SymSeq, RangeV)) and not self.is_concrete_iter(it):
            if len(gens) != 1:
                raise Unsupported('nested comprehension over a symbolic sequence')
            return self.map_symbolic(node, g, it, env)
        for item in self.iterate_concrete(it):
            scope = {'__parent__': env, '__globals__': env.get('__globals__'), '__module__': env.get('__module__')}
            self.assign_target(g.target, item, scope)
            ok = True
            for cond in g.ifs:
                if not self.truth(self.eval(cond, scope)):
                    ok = False
                    break
            if not ok:
                continue
            if gi + 1 < len(gens):
                self.comp_rec(node, gens, gi + 1, scope, out)
            else:
                out.append(self.eval(node.elt, scope))
        return None

    def is_concrete_iter(self, it):
        if isinstance(it, NDArr):
            return isinstance(it.shape[0], int)
        if isinstance(it, RangeV):
            return isinstance(it.start, int) and isinstance(it.stop, int)
        if isinstance(it, SymSeq):
            return isinstance(it.n, int)
        return True

    def map_symbolic(self, node, g, it, env):
        """[elt for target in it (if ...)] over a symbolic-length iterable: element-wise closure.
        The element expression is evaluated on demand for a symbolic index (forking the current
        path there).  Exceptions of the body are hoisted: the comprehension raises iff some element
        raises, which is decided by exploring the body once for a fresh index."""
        if g.ifs:
            # a filtered sub-sequence: unknown length <= n, elements not modelled (only ever joined into messages)
            m = self.ctx.fresh_int('filtered_n')
            self.ctx.assume(z3.And(0 <= m, m <= self.z(self.seq_len(it), 'int')))

            def nofn(interp_, i):
                raise Unsupported('element of a filtered comprehension over a symbolic sequence')
            return stamp(SymSeq('list', self.mk(m, 'int'), nofn))
        n = self.seq_len(it)
        nz = self.z(n, 'int')
        # explore the body for a fresh index to find out whether it can raise
        k = self.ctx.fresh_int('comp_k')
        results = self.sub_explore(lambda: self.comp_body(node, g, it, env, k),
                                   [0 <= k, k < nz])
        exc_conds = []
        for r in results:
            if r.outcome == 'raise':
                cond = z3.And(*r.pc_suffix) if r.pc_suffix else z3.BoolVal(True)
                exc_conds.append((cond, r.exc))
        if exc_conds:
            anyexc = z3.Or(*[c for c, _ in exc_conds])
            some = z3.Exists([k], z3.And(0 <= k, k < nz, anyexc))
            if self.ctx.branch(some):
                # pick the first failing index
                k0 = self.ctx.fresh_int('comp_k0')
                self.ctx.assume(z3.And(0 <= k0, k0 < nz, z3.substitute(anyexc, (k, k0))))
                j = self.ctx.fresh_int('comp_j')
                self.ctx.assume(z3.ForAll([j], z3.Implies(z3.And(0 <= j, j < k0),
                                                          z3.Not(z3.substitute(anyexc, (k, j))))))
                # re-run the body at k0: it must raise
                self.comp_body(node, g, it, env, k0)
                raise PathAbort('comprehension body did not raise at the failing index')
        hoisted = self.hoist_invariants(node.elt, g.target, env)
        it_snap = self.snapshot(it)

        def fn(interp_, i, node=node, g=g, it=it_snap, env=env, hoisted=hoisted):
            saved = interp_.hoist
            interp_.hoist = hoisted
            try:
                return interp_.comp_body(node, g, it, env, i)
            finally:
                interp_.hoist = saved
        res = stamp(SymSeq('list', n, fn))
        res.map_of = it
        res.no_raise = True
        return res

    def snapshot(self, v):
        """value as it is now (later in-place changes of the original are not seen through the copy)"""
        if isinstance(v, SymSeq):
            c = SymSeq(v.kind, v.n, v.fn, list(v.overlays), v.name)
            c.elem_token = v.elem_token
            c.birth = getattr(v, 'birth', 0)
            return c
        if isinstance(v, Seq) and v.kind == 'list':
            c = Seq(v.kind, list(v.items))
            c.birth = getattr(v, 'birth', 0)
            return c
        if isinstance(v, ZipV):
            return ZipV([self.snapshot(p) for p in v.parts])
        if isinstance(v, EnumV):
            return EnumV(self.snapshot(v.seq), v.start)
        return v

    def hoist_invariants(self, elt, target, env):
        """The element expression of a comprehension over a symbolic sequence is evaluated on demand.
        Sub-expressions that do not depend on the loop variable (names, attribute and constant-subscript
        chains) are evaluated now, so that later assignments cannot leak into the elements."""
        tnames = set(n.id for n in ast.walk(target) if isinstance(n, ast.Name))
        out = {}

        def depends(n):
            return any(isinstance(x, ast.Name) and x.id in tnames for x in ast.walk(n))

        def simple(n):
            if isinstance(n, ast.Name):
                return True
            if isinstance(n, ast.Attribute):
                return simple(n.value)
            if isinstance(n, ast.Subscript):
                return simple(n.value) and isinstance(n.slice, ast.Constant)
            return False

        def visit(n):
            if isinstance(n, ast.expr) and simple(n) and not depends(n):
                try:
                    v = self.eval(n, env)
                except (PyExc, Unsupported):
                    return
                out[id(n)] = (self.snapshot(v), n)
                return
            if isinstance(n, (ast.Lambda, ast.ListComp, ast.GeneratorExp, ast.DictComp, ast.SetComp)):
                return
            for ch in ast.iter_child_nodes(n):
                visit(ch)
        visit(elt)
        return out

    def comp_body(self, node, g, it, env, k):
        item = self.seq_get_sym(it, k)
        scope = {'__parent__': env, '__globals__': env.get('__globals__'), '__module__': env.get('__module__')}
        self.assign_target(g.target, item, scope)
        # the index of the element being computed (callables supplied by a contract key their results on it)
        self.comp_index_stack.append(k)
        try:
            return self.eval(node.elt, scope)
        finally:
            self.comp_index_stack.pop()

    def sub_explore(self, thunk, assumptions):
        """Explore every path of thunk() under the current path condition plus assumptions, without
        disturbing the current path.  Heap writes to pre-existing objects are not allowed."""
        outer = self.ctx
        sub = Explorer(outer.fn_name, max_paths=200, max_decisions=outer.explorer.max_decisions,
                       branch_timeout_ms=outer.explorer.branch_timeout_ms)
        base_len = [0]
        saved_pure = self.pure_since
        mark = next(_stamp)
        self.pure_since = mark if saved_pure is None else saved_pure

        def runner(ctx):
            ctx.names = dict(outer.names)
            from .ctx import has_quantifier
            for f in outer.pc:
                ctx.pc.append(f)
                if not has_quantifier(f):
                    ctx.solver.add(f)
            for f in assumptions:
                ctx.assume(f)
            base_len[0] = len(ctx.pc)
            ctx.base_len = len(ctx.pc)
            self.ctx = ctx
            try:
                v = thunk()
            finally:
                self.ctx = outer
            return ('return', v)
        try:
            results = sub.run(runner)
        finally:
            self.ctx = outer
            self.pure_since = saved_pure
        outer.explorer.n_branch_queries += sub.n_branch_queries
        outer.explorer.branch_solver_s += sub.branch_solver_s
        for r in results:
            r.pc_suffix = r.pc[base_len[0]:]
            outer.axioms_used |= r.axioms_used
            # symbols created inside the sub-exploration may occur in its results: never hand the same names out again
            for b_, n_ in getattr(r, 'names', {}).items():
                if n_ > outer.names.get(b_, 0):
                    outer.names[b_] = n_
        return [r for r in results if r.outcome != 'abort']

    def prove_forked(self, name, thunk, kind='ensures'):
        """State one obligation whose formula needs forking evaluation (reads of symbolic sequence
        elements): every sub-path contributes  (its conditions => its goal); the forks do not
        multiply the paths of the function."""
        res = self.sub_explore(thunk, [])
        parts = []
        for r in res:
            if r.outcome == 'raise':
                parts.append(z3.BoolVal(False))
                continue
            g = r.value
            if isinstance(g, bool):
                g = z3.BoolVal(g)
            elif isinstance(g, SV):
                g = g.z
            parts.append(z3.Implies(z3.And(*r.pc_suffix), g) if r.pc_suffix else g)
        self.ctx.prove(name, z3.And(*parts) if parts else z3.BoolVal(True), kind=kind)

    # ------------------------------------------------------------------ sequences
    def seq_len(self, s):
        s = self.force(s)
        if isinstance(s, Seq):
            return len(s.items)
        if isinstance(s, SymSeq):
            return s.n if isinstance(s.n, (int, SV)) else self.mk(s.n, 'int')
        if isinstance(s, RangeV):
            if isinstance(s.start, int) and isinstance(s.stop, int):
                return max(0, s.stop - s.start)
            d = self.z(s.stop, 'int') - self.z(s.start, 'int')
            return self.mk(z3.If(d < 0, z3.IntVal(0), d), 'int')
        if isinstance(s, str):
            return len(s)
        if isinstance(s, SV) and s.kind == 'str':
            return self.mk(z3.Length(s.z), 'int')
        if isinstance(s, PDict):
            return len(s.keys)
        if isinstance(s, NDArr):
            if s.ndim == 0:
                raise_py('TypeError', 'len() of unsized object')
            return self.np.dim_val(s.shape[0])
        if isinstance(s, NT):
            return len(s.values)
        if s is None or self.is_number(s):
            raise_py('TypeError', 'object of type %s has no len()' % self.kind(s))
        if isinstance(s, Opaque) and (s.tag == 'dataframe' or self.config.get('opaque_len') is not None):
            return self.libs_len(s)
        raise Unsupported('len of %s' % self.kind(s))

    def seq_get_sym(self, s, k):
        """element at a z3 index known to be in range"""
        if isinstance(s, RangeV):
            return self.mk(self.z(s.start, 'int') + k, 'int')
        if isinstance(s, SymSeq):
            for (oi, ov) in reversed(s.overlays):
                if self.ctx.branch(self.z(oi, 'int') == k):
                    return ov
            if getattr(s, 'no_raise', False):
                # the sequence exists, so evaluating any of its elements did not raise (established when it was built)
                try:
                    return s.fn(self, k)
                except PyExc:
                    raise PathAbort('element of an already built sequence cannot raise')
            return s.fn(self, k)
        if isinstance(s, Seq):
            kk = z3.simplify(k)
            if z3.is_int_value(kk):
                return s.items[kk.as_long()]
            for i, item in enumerate(s.items):
                if self.ctx.branch(k == i):
                    return item
            raise PathAbort('index outside concrete sequence')
        if isinstance(s, ZipV):
            return stamp(Seq('tuple', [self.seq_get_sym(p, k) for p in s.parts]))
        if isinstance(s, EnumV):
            return stamp(Seq('tuple', [self.mk(k + self.z(s.start, 'int'), 'int'), self.seq_get_sym(s.seq, k)]))
        if isinstance(s, NDArr):
            return self.np.getitem(s, self.mk(k, 'int'))
        raise Unsupported('symbolic element of %s' % type(s).__name__)

    def iterate_concrete(self, it):
        """python list of the elements of an iterable with concrete length"""
        it = self.force(it)
        if isinstance(it, Seq):
            return list(it.items)
        if isinstance(it, NT):
            return list(it.values)
        if isinstance(it, RangeV):
            if isinstance(it.start, int) and isinstance(it.stop, int):
                return list(range(it.start, it.stop))
            raise Unsupported('iteration over a symbolic range without invariant')
        if isinstance(it, SymSeq):
            if isinstance(it.n, int):
                return [self.seq_get_sym(it, z3.IntVal(i)) for i in range(it.n)]
            raise Unsupported('iteration over a symbolic-length sequence without invariant')
        if isinstance(it, str):
            return list(it)
        if isinstance(it, PDict):
            return list(it.keys)
        if isinstance(it, ZipV):
            parts = [self.iterate_concrete(p) for p in it.parts]
            n = min(len(p) for p in parts) if parts else 0
            return [stamp(Seq('tuple', [p[i] for p in parts])) for i in range(n)]
        if isinstance(it, EnumV):
            items = self.iterate_concrete(it.seq)
            return [stamp(Seq('tuple', [self.binop('Add', it.start, i), x])) for i, x in enumerate(items)]
        if isinstance(it, NDArr):
            if isinstance(it.shape[0], int):
                return [self.np.getitem(it, i) for i in range(it.shape[0])]
            raise Unsupported('iteration over an array with symbolic length')
        if it is None or self.is_number(it):
            raise_py('TypeError', '%s object is not iterable' % self.kind(it))
        raise Unsupported('iteration over %s' % type(it).__name__)

    def index_seq(self, s, key):
        """s[key] for list/tuple-like s"""
        if isinstance(key, SliceV):
            return self.slice_seq(s, key)
        if isinstance(key, bool):
            key = int(key)
        if isinstance(key, SV) and key.kind == 'bool' and not key.np:
            key = self.mk(self.z(key, 'int'), 'int')      # bool is an int subclass: True indexes position 1
        if isinstance(s, NT):
            s = Seq('tuple', s.values)
        if self.kind(key) != 'int':
            raise_py('TypeError', 'list indices must be integers or slices, not %s' % self.kind(key))
        n = self.seq_len(s)
        if isinstance(key, int) and isinstance(n, int):
            if -n <= key < n:
                if isinstance(s, Seq):
                    return s.items[key]
                return self.seq_get_sym(s, z3.IntVal(key % n if n else 0))
            raise_py('IndexError', '%s index out of range' % getattr(s, 'kind', 'sequence'))
        kz, nz = self.z(key, 'int'), self.z(n, 'int')
        if not self.ctx.branch(z3.And(-nz <= kz, kz < nz), safety=False):
            raise_py('IndexError', '%s index out of range' % getattr(s, 'kind', 'sequence'))
        idx = z3.simplify(z3.If(kz < 0, kz + nz, kz))
        if isinstance(key, int):
            idx = z3.simplify(kz + nz if key < 0 else kz)
        elif not self.ctx.feasible_full(kz < 0):
            idx = z3.simplify(kz)       # provably non-negative: no wrap-around case (keeps element terms comparable)
        return self.seq_get_sym(s, idx)

    def slice_indices(self, sl, n):
        """(start, stop) z3/ints for a step-1 (or None) slice on length n, per slice.indices"""
        step = sl.step
        if step is not None and step != 1:
            return None
        def norm(v, default):
            if v is None:
                return default
            if self.kind(v) != 'int':
                raise_py('TypeError', 'slice indices must be integers or None')
            if isinstance(v, int) and isinstance(n, int):
                if v < 0:
                    v = max(0, v + n)
                return min(v, n)
            vz, nz = self.z(v, 'int'), self.z(n, 'int')
            w = z3.If(vz < 0, z3.If(vz + nz < 0, z3.IntVal(0), vz + nz), z3.If(vz > nz, nz, vz))
            return self.mk(w, 'int')
        return norm(sl.start, 0), norm(sl.stop, n)

    def slice_seq(self, s, sl):
        n = self.seq_len(s)
        if isinstance(s, Seq) and all(v is None or isinstance(v, int) for v in (sl.start, sl.stop, sl.step)):
            return stamp(Seq(s.kind, s.items[slice(sl.start, sl.stop, sl.step)]))
        if isinstance(s, str):
            if all(v is None or isinstance(v, int) for v in (sl.start, sl.stop, sl.step)):
                return s[slice(sl.start, sl.stop, sl.step)]
        if self.kind(s) == 'str':
            se = self.slice_indices(sl, self.seq_len(s))
            if se is None:
                raise Unsupported('extended slice of a symbolic string')
            a, b = self.z(se[0], 'int'), self.z(se[1], 'int')
            ln = z3.If(b - a < 0, z3.IntVal(0), b - a)
            return self.mk(z3.SubString(self.z(s), a, ln), 'str')
        se = self.slice_indices(sl, n)
        if se is None:
            # extended slices: only concrete
            if isinstance(s, SymSeq) and isinstance(s.n, int):
                items = self.iterate_concrete(s)
                return stamp(Seq(s.kind if s.kind != 'range' else 'list', items[slice(sl.start, sl.stop, sl.step)]))
            raise Unsupported('extended slice on a symbolic sequence')
        a, b = se
        if isinstance(s, RangeV):
            s = self.range_to_symseq(s)
        if isinstance(s, Seq):
            if isinstance(a, int) and isinstance(b, int):
                return stamp(Seq(s.kind, s.items[a:b]))
            s2 = self.seq_to_symseq(s)
        else:
            s2 = s
        az, bz = self.z(a, 'int'), self.z(b, 'int')
        ln = self.mk(z3.If(bz - az < 0, z3.IntVal(0), bz - az), 'int')
        base = s2
        res = stamp(SymSeq(base.kind, ln, lambda interp, i, base=base, az=az: interp.seq_get_sym(base, z3.simplify(i + az))))
        res.elem_token = getattr(base, 'elem_token', None)
        return res

    def seq_to_symseq(self, s):
        return SymSeq(s.kind, len(s.items), lambda interp, i, s=s: interp.seq_get_sym(s, i))

    def range_to_symseq(self, r):
        return SymSeq('range', self.seq_len(r), lambda interp, i, r=r: interp.mk(interp.z(r.start, 'int') + i, 'int'))

    # ------------------------------------------------------------------ getitem / setitem
    def getitem(self, obj, key):
        obj, key = self.force(obj), self.force(key)
        if isinstance(obj, Poison):
            raise Unsupported('use of a havocked loop variable: ' + obj.why)
        if isinstance(obj, NDArr):
            if obj.cls == 'FCSData':
                m = self.fcs_method('__getitem__')
                if m is not None and not self.config.get('fcs_getitem_native'):
                    return self.call(m, [obj, key], {})
            return self.np.getitem(obj, key)
        if isinstance(obj, (Seq, SymSeq, RangeV, NT)):
            if isinstance(key, Seq) or key is None or isinstance(key, (str,)):
                raise_py('TypeError', 'list indices must be integers or slices')
            return self.index_seq(obj, key)
        if isinstance(obj, PDict):
            return self.dict_get(obj, key, True)
        if isinstance(obj, SymDict):
            return self.symdict_get(obj, key, True)
        if self.kind(obj) == 'str':
            if isinstance(key, SliceV):
                h = self.config.get('str_slice_hook')
                if h is not None:
                    r = h(self, obj, key)
                    if r is not None:
                        return r
                return self.slice_seq(obj, key)
            if isinstance(obj, str) and isinstance(key, int):
                try:
                    return obj[key]
                except IndexError:
                    raise_py('IndexError', 'string index out of range')
            n = self.seq_len(obj)
            kz, nz = self.z(key, 'int'), self.z(n, 'int')
            if not self.ctx.branch(z3.And(-nz <= kz, kz < nz)):
                raise_py('IndexError', 'string index out of range')
            idx = z3.If(kz < 0, kz + nz, kz)
            return self.mk(z3.SubString(self.z(obj), idx, 1), 'str')
        if obj is None:
            raise_py('TypeError', "'NoneType' object is not subscriptable")
        if self.is_number(obj):
            if isinstance(obj, SV) and obj.np:
                raise_py('IndexError', 'invalid index to scalar variable.')
            raise_py('TypeError', "'%s' object is not subscriptable" % self.kind(obj))
        if isinstance(obj, Opaque):
            return self.libs_getitem(obj, key)
        if isinstance(obj, Obj):
            m = self.find_method(obj, '__getitem__')
            if m is not None:
                return self.call(m, [key], {})
        raise Unsupported('subscript of %s' % type(obj).__name__)

    def dict_get(self, d, key, strict, default=None):
        if isinstance(key, (Seq,)) and key.kind == 'list':
            raise_py('TypeError', 'unhashable type: list')
        if isinstance(key, SV):
            for k, v in zip(d.keys, d.vals):
                if self.truth(self.equals(k, key)):
                    return v
        else:
            i = d.find(key)
            if i >= 0:
                return d.vals[i]
            for k, v in zip(d.keys, d.vals):
                if isinstance(k, SV) and self.truth(self.equals(k, key)):
                    return v
        if strict:
            raise_py('KeyError', key)
        return default

    def symdict_get(self, d, key, strict, default=None):
        if self.kind(key) != 'str':
            if strict:
                raise_py('KeyError', key)
            return default
        if not isinstance(key, SV):
            i = d.overlay.find(key)
            if i >= 0:
                return d.overlay.vals[i]
        elif d.overlay.keys:
            raise Unsupported('symbolic key lookup in an updated symbolic dict')
        kz = self.z(key)
        if not strict and default is None:
            # deferred: absent -> None, present -> the value (no fork unless inspected)
            return OptVal(z3.Not(z3.Select(d.present, kz)), self.mk(z3.Select(d.val, kz), 'str'))
        if self.ctx.branch(z3.Select(d.present, kz)):
            return self.mk(z3.Select(d.val, kz), 'str')
        if strict:
            raise_py('KeyError', key)
        return default

    def check_write(self, obj):
        if self.pure_since is not None and getattr(obj, 'birth', 0) < self.pure_since:
            raise Unsupported('heap write inside an element-wise body')
        self.writes.append(obj)

    def setitem(self, obj, key, val):
        if isinstance(obj, NDArr):
            self.check_write(obj)
            if obj.cls == 'FCSData':
                m = self.fcs_method('__setitem__')
                if m is not None and not self.config.get('fcs_getitem_native'):
                    return self.call(m, [obj, key, val], {})
            return self.np.setitem(obj, key, val)
        if isinstance(obj, Seq):
            if obj.kind == 'tuple':
                raise_py('TypeError', "'tuple' object does not support item assignment")
            self.check_write(obj)
            if isinstance(key, SliceV):
                raise Unsupported('slice assignment on a list')
            if self.kind(key) != 'int':
                raise_py('TypeError', 'list indices must be integers or slices')
            n = len(obj.items)
            if isinstance(key, int):
                if -n <= key < n:
                    obj.items[key] = val
                    self.write_through(obj)
                    return
                raise_py('IndexError', 'list assignment index out of range')
            kz = key.z
            if not self.ctx.branch(z3.And(-n <= kz, kz < n)):
                raise_py('IndexError', 'list assignment index out of range')
            for i in range(n):
                if self.ctx.branch(z3.Or(kz == i, kz == i - n)):
                    obj.items[i] = val
                    self.write_through(obj)
                    return
            raise PathAbort('no index matched')
        if isinstance(obj, SymSeq):
            if obj.kind == 'tuple':
                raise_py('TypeError', "'tuple' object does not support item assignment")
            self.check_write(obj)
            if self.kind(key) != 'int':
                raise_py('TypeError', 'list indices must be integers or slices')
            kz, nz = self.z(key, 'int'), self.z(obj.n, 'int')
            if not self.ctx.branch(z3.And(-nz <= kz, kz < nz)):
                raise_py('IndexError', 'list assignment index out of range')
            idx = z3.simplify(z3.If(kz < 0, kz + nz, kz))
            obj.overlays.append((self.mk(idx, 'int'), val))
            return
        if isinstance(obj, PDict):
            self.check_write(obj)
            if isinstance(key, SV):
                for i, k in enumerate(obj.keys):
                    if self.truth(self.equals(k, key)):
                        obj.vals[i] = val
                        return
                obj.keys.append(key)
                obj.vals.append(val)
                return
            for i, k in enumerate(obj.keys):
                if isinstance(k, SV) and self.truth(self.equals(k, key)):
                    obj.vals[i] = val
                    return
            obj.set(key, val)
            return
        if isinstance(obj, SymDict):
            self.check_write(obj)
            if isinstance(key, SV):
                raise Unsupported('symbolic key store into a symbolic dict')
            obj.overlay.set(key, val)
            return
        if isinstance(obj, Opaque):
            return self.libs_setitem(obj, key, val)
        if obj is None or self.is_number(obj) or self.kind(obj) == 'str':
            raise_py('TypeError', "'%s' object does not support item assignment" % self.kind(obj))
        raise Unsupported('item assignment on %s' % type(obj).__name__)

    def write_through(self, obj):
        """a list read out of a symbolic sequence was mutated in place: the cell changes too"""
        org = getattr(obj, 'origin', None)
        if org is not None:
            cont, idx = org
            cont.overlays.append((idx, obj))

    # ------------------------------------------------------------------ attributes
    def fcs_class(self):
        env = self.module_env('FlowCal.io')
        return env.get('FCSData')

    def fcs_method(self, name):
        c = self.fcs_class()
        return c.members.get(name) if c is not None else None

    def find_method(self, obj, name):
        c = obj.cls
        seen = []
        stack = [c]
        while stack:
            k = stack.pop(0)
            if isinstance(k, ClassObj):
                if name in k.members:
                    m = k.members[name]
                    if isinstance(m, Closure) and not m.is_staticmethod:
                        return BoundMethod(obj, m)
                    return m
                stack.extend(k.bases)
        return None

    def getattr_(self, obj, name, node=None):
        from . import pybuiltins
        obj = self.force(obj)
        if isinstance(obj, Poison):
            raise Unsupported('use of a havocked loop variable: ' + obj.why)
        if isinstance(obj, ModuleObj):
            return self.module_attr(obj, name)
        if isinstance(obj, NDArr):
            return self.np.getattr(obj, name)
        if isinstance(obj, NT):
            if name in obj.cls.fields:
                return obj.get(name)
            if name == '_fields':
                return Seq('tuple', obj.cls.fields)
            raise_py('AttributeError', name)
        if isinstance(obj, NTClass):
            if name == '_make':
                return Builtin('_make', lambda interp, a, k, obj=obj: interp.make_nt(obj, interp.iterate_concrete(a[0]), {}))
            if name == '_fields':
                return Seq('tuple', obj.fields)
            raise_py('AttributeError', name)
        if isinstance(obj, Obj):
            if name in obj.attrs:
                return obj.attrs[name]
            if name == '__class__':
                return obj.cls
            m = self.find_method(obj, name)
            if m is not None:
                if isinstance(m, BoundMethod) and m.func.is_property:
                    return self.call(m, [], {})
                return m
            raise_py('AttributeError', "'%s' object has no attribute '%s'" % (obj.cls.name, name))
        if isinstance(obj, ClassObj):
            if name in obj.members:
                return obj.members[name]
            for b in obj.bases:
                try:
                    return self.getattr_(b, name)
                except PyExc:
                    pass
            raise_py('AttributeError', name)
        if isinstance(obj, ExcObj):
            if name == 'args':
                return Seq('tuple', obj.args)
            if name in obj.attrs:
                return obj.attrs[name]
            raise_py('AttributeError', "'%s' object has no attribute '%s'" % (obj.cls.name, name))
        if isinstance(obj, BoundMethod) or isinstance(obj, Closure) or isinstance(obj, Builtin) or isinstance(obj, Partial):
            if name == '__call__':
                return obj
            raise_py('AttributeError', name)
        r = pybuiltins.value_attr(self, obj, name)
        if r is not pybuiltins.NOATTR:
            return r
        raise_py('AttributeError', "'%s' object has no attribute '%s'" % (self.kind(obj), name))

    def module_attr(self, mod, name):
        full = mod.name + '.' + name
        if mod.name == 'numpy' or mod.name.startswith('numpy.'):
            return self.np.module_attr(mod.name, name)
        ov = self.config.get('module_overrides')
        if ov and full in ov:
            return ov[full]
        if mod.name.startswith('FlowCal'):
            if mod.name == 'FlowCal' and name in ('io', 'plot', 'gate', 'transform', 'stats', 'mef', 'excel_ui'):
                return ModuleObj('FlowCal.' + name)
            env = self.module_env(mod.name)
            if name in env:
                return env[name]
            raise_py('AttributeError', full)
        if full in self.libs:
            return self.libs[full]
        # sub-modules
        for k in self.libs:
            if k.startswith(full + '.'):
                return ModuleObj(full)
        raise Unsupported('library attribute %s is not modelled' % full)

    def hasattr_(self, obj, name):
        try:
            self.getattr_(obj, name)
            return True
        except PyExc as e:
            if exc_is(e.exc.cls, EXC['AttributeError']):
                return False
            raise

    def setattr_(self, obj, name, val):
        if isinstance(obj, NDArr):
            self.check_write(obj)
            return self.np.setattr(obj, name, val)
        if isinstance(obj, Obj):
            self.check_write(obj)
            obj.attrs[name] = val
            return
        if isinstance(obj, Opaque):
            return self.libs_setattr(obj, name, val)
        raise Unsupported('attribute assignment on %s' % type(obj).__name__)

    # ------------------------------------------------------------------ calls
    def call(self, fv, args, kwargs, node=None):
        fv = self.force(fv)
        if isinstance(fv, Builtin):
            return fv.fn(self, args, kwargs)
        if isinstance(fv, BoundMethod):
            return self.call(fv.func, [fv.self_obj] + list(args), kwargs, node)
        if isinstance(fv, Partial):
            kw = dict(fv.kwargs)
            kw.update(kwargs)
            return self.call(fv.func, list(fv.args) + list(args), kw, node)
        if isinstance(fv, Closure):
            return self.call_closure(fv, args, kwargs)
        if isinstance(fv, ExcClass):
            return ExcObj(fv, args)
        if isinstance(fv, NTClass):
            return self.make_nt(fv, args, kwargs)
        if isinstance(fv, ClassObj):
            return self.instantiate(fv, args, kwargs)
        if isinstance(fv, TypeObj):
            from . import pybuiltins
            return pybuiltins.call_type(self, fv, args, kwargs)
        if isinstance(fv, SymFn):
            return fv.apply(self, args, kwargs)
        if fv is None or self.is_number(fv) or self.kind(fv) == 'str' or isinstance(fv, (Seq, NDArr)):
            raise_py('TypeError', "'%s' object is not callable" % self.kind(fv))
        raise Unsupported('call of %s' % type(fv).__name__)

    def make_nt(self, cls, args, kwargs):
        vals = list(args)
        for f in cls.fields[len(vals):]:
            if f not in kwargs:
                raise_py('TypeError', 'missing field %s' % f)
            vals.append(kwargs[f])
        if len(vals) != len(cls.fields) or any(k not in cls.fields for k in kwargs):
            raise_py('TypeError', 'namedtuple arguments')
        return NT(cls, vals)

    def instantiate(self, cls, args, kwargs):
        # ndarray subclasses are created through the numpy model
        new = cls.members.get('__new__')
        if new is not None:
            return self.call(new, [cls] + list(args), kwargs)
        o = stamp(Obj(cls))
        init = self.find_method(o, '__init__')
        if init is not None:
            self.call(init, args, kwargs)
        return o

    def bind_args(self, fv, args, kwargs):
        a = fv.node.args
        params = [p.arg for p in getattr(a, 'posonlyargs', [])] + [p.arg for p in a.args]
        env = {}
        args = list(args)
        if len(args) > len(params):
            if a.vararg is None:
                raise_py('TypeError', '%s() takes %d positional arguments but %d were given' % (fv.qualname, len(params), len(args)))
            env[a.vararg.arg] = stamp(Seq('tuple', args[len(params):]))
            args = args[:len(params)]
        elif a.vararg is not None:
            env[a.vararg.arg] = stamp(Seq('tuple', []))
        for p, v in zip(params, args):
            env[p] = v
        kw = dict(kwargs)
        ndef = len(fv.defaults)
        for i, p in enumerate(params):
            if p in env:
                if p in kw:
                    raise_py('TypeError', '%s() got multiple values for argument %s' % (fv.qualname, p))
                continue
            if p in kw:
                env[p] = kw.pop(p)
            else:
                di = i - (len(params) - ndef)
                if di >= 0:
                    env[p] = fv.defaults[di]
                else:
                    raise_py('TypeError', '%s() missing required argument %s' % (fv.qualname, p))
        for p in a.kwonlyargs:
            if p.arg in kw:
                env[p.arg] = kw.pop(p.arg)
            elif p.arg in fv.kwdefaults:
                env[p.arg] = fv.kwdefaults[p.arg]
            else:
                raise_py('TypeError', 'missing keyword-only argument %s' % p.arg)
        if kw:
            if a.kwarg is None:
                raise_py('TypeError', '%s() got an unexpected keyword argument %s' % (fv.qualname, sorted(kw)[0]))
            d = stamp(PDict())
            for k, v in kw.items():
                d.set(k, v)
            env[a.kwarg.arg] = d
        elif a.kwarg is not None:
            env[a.kwarg.arg] = stamp(PDict())
        return env

    def qual_of(self, fv):
        return '%s.%s' % (fv.module, fv.qualname)

    def call_closure(self, fv, args, kwargs):
        q = self.qual_of(fv)
        cc = self.call_contracts.get(q)
        if cc is not None and len(self.fn_stack) > getattr(self, 'entry_depth', 0):
            self.ctx.use_axiom('contract:' + q)
            return cc(self, args, kwargs)
        env = self.bind_args(fv, args, kwargs)
        env['__parent__'] = fv.env if fv.env is not None and '__name__' not in fv.env else None
        genv = fv.env
        while genv is not None and '__name__' not in genv:
            genv = genv.get('__globals__') or genv.get('__parent__')
        env['__globals__'] = genv if genv is not None else (self.module_env(fv.module) if fv.module else {})
        env['__module__'] = fv.module
        if isinstance(fv.node, ast.Lambda):
            return self.eval(fv.node.body, env)
        if len(self.fn_stack) > 40:
            raise Unsupported('call depth exceeded')
        if len(self.fn_stack) == getattr(self, 'entry_depth', -1):
            self.top_env = env            # locals of the function under contract (contracts may state obligations on them)
        self.fn_stack.append(q)
        self.trace_calls.append(q)
        saved_lc = self.loop_counters.get(q)
        self.loop_counters[q] = 0
        body = fv.node.body
        mut = getattr(self, 'ast_mutation', None)
        if mut is not None and mut[0] == q and len(self.fn_stack) == getattr(self, 'entry_depth', -1) + 1:
            # the function under contract with one deliberate mutation (in memory only)
            if getattr(self, '_mutant', None) is None or self._mutant[0] is not fv.node:
                from . import mutate as _mut
                node2, what, line = _mut.mutant(fv.node, mut[1])
                self._mutant = (fv.node, node2, what)
                self.mutation_line = line
            body = self._mutant[1].body
            self.mutation_applied = self._mutant[2]
        try:
            self.exec_block(loader.strip_docstring(body), env)
        except _Return as r:
            return r.v
        finally:
            self.fn_stack.pop()
            if saved_lc is not None:
                self.loop_counters[q] = saved_lc
        return None

    # ------------------------------------------------------------------ statements
    def exec_block(self, stmts, env):
        for s in stmts:
            self.exec_stmt(s, env)

    def exec_stmt(self, node, env):
        if getattr(self, 'ast_mutation', None) is not None and len(self.fn_stack) == getattr(self, 'entry_depth', -1) + 1:
            # statements of the mutated function that are executed (simple statements: whole extent; compound ones: header line)
            lo = getattr(node, 'lineno', 0)
            hi = lo if isinstance(node, (ast.If, ast.For, ast.While, ast.Try, ast.With)) else getattr(node, 'end_lineno', lo)
            if isinstance(node, (ast.If, ast.While)):
                hi = getattr(node.test, 'end_lineno', lo)
            elif isinstance(node, ast.For):
                hi = getattr(node.iter, 'end_lineno', lo)
            MUT_LINES.update(range(lo, hi + 1))
        m = getattr(self, 'exec_' + type(node).__name__, None)
        if m is None:
            self.unsupported(node, 'statement %s' % type(node).__name__)
        return m(node, env)

    def exec_Pass(self, node, env):
        pass

    def exec_Expr(self, node, env):
        self.eval(node.value, env)

    def exec_Assign(self, node, env):
        v = self.eval(node.value, env)
        for t in node.targets:
            self.assign_target(t, v, env)

    def exec_AnnAssign(self, node, env):
        if node.value is not None:
            self.assign_target(node.target, self.eval(node.value, env), env)

    def assign_target(self, t, v, env):
        if isinstance(t, ast.Name):
            env[t.id] = v
        elif isinstance(t, (ast.Tuple, ast.List)):
            items = self.iterate_concrete(v)
            if any(isinstance(e, ast.Starred) for e in t.elts):
                raise Unsupported('starred assignment')
            if len(items) != len(t.elts):
                raise_py('ValueError', 'wrong number of values to unpack')
            for e, x in zip(t.elts, items):
                self.assign_target(e, x, env)
        elif isinstance(t, ast.Subscript):
            obj = self.eval(t.value, env)
            key = self.eval_index(t.slice, env)
            self.setitem(obj, key, v)
        elif isinstance(t, ast.Attribute):
            obj = self.eval(t.value, env)
            self.setattr_(obj, t.attr, v)
        else:
            raise Unsupported('assignment target %s' % type(t).__name__)

    def exec_AugAssign(self, node, env):
        t = node.target
        op = type(node.op).__name__
        if isinstance(t, ast.Name):
            cur = self.lookup(t.id, env)
            rhs = self.eval(node.value, env)
            if isinstance(cur, NDArr):
                new = self.np.inplace(op, cur, rhs)
            elif isinstance(cur, Seq) and cur.kind == 'list' and op == 'Add':
                self.check_write(cur)
                cur.items.extend(self.iterate_concrete(rhs))
                new = cur
            else:
                new = self.binop(op, cur, rhs)
            env[t.id] = new
        elif isinstance(t, ast.Subscript):
            obj = self.eval(t.value, env)
            key = self.eval_index(t.slice, env)
            cur = self.getitem(obj, key)
            rhs = self.eval(node.value, env)
            if isinstance(cur, NDArr):
                new = self.np.inplace(op, cur, rhs, target_dtype_of=obj if isinstance(obj, NDArr) else None)
            else:
                new = self.binop(op, cur, rhs)
            self.setitem(obj, key, new)
        elif isinstance(t, ast.Attribute):
            obj = self.eval(t.value, env)
            cur = self.getattr_(obj, t.attr)
            rhs = self.eval(node.value, env)
            self.setattr_(obj, t.attr, self.binop(op, cur, rhs))
        else:
            raise Unsupported('augmented assignment target')

    def exec_If(self, node, env):
        if self.truth(self.eval(node.test, env)):
            self.exec_block(node.body, env)
        else:
            self.exec_block(node.orelse, env)

    def exec_Return(self, node, env):
        raise _Return(None if node.value is None else self.eval(node.value, env))

    def exec_Break(self, node, env):
        raise _Break()

    def exec_Continue(self, node, env):
        raise _Continue()

    def exec_Raise(self, node, env):
        if node.exc is None:
            cur = env.get('__active_exc__')
            e = env
            while cur is None and e is not None:
                e = e.get('__parent__')
                cur = e.get('__active_exc__') if e else None
            if cur is None:
                raise_py('RuntimeError', 'No active exception to reraise')
            raise PyExc(cur)
        v = self.eval(node.exc, env)
        if isinstance(v, ExcClass):
            v = ExcObj(v, [])
        if not isinstance(v, ExcObj):
            raise_py('TypeError', 'exceptions must derive from BaseException')
        raise PyExc(v)

    def exec_Assert(self, node, env):
        if not self.truth(self.eval(node.test, env)):
            raise_py('AssertionError')

    def exec_Import(self, node, env):
        self.exec_import(node, env)

    def exec_ImportFrom(self, node, env):
        self.exec_import(node, env)

    def exec_FunctionDef(self, node, env):
        env[node.name] = self.make_closure(node, env, env.get('__module__'), node.name)

    def exec_Delete(self, node, env):
        raise Unsupported('del statement')

    def exec_Global(self, node, env):
        raise Unsupported('global statement')

    def exec_With(self, node, env):
        # only file-like context managers (A-IO: __enter__ returns the object, __exit__ closes it and does not swallow exceptions)
        for item in node.items:
            v = self.eval(item.context_expr, env)
            if not (isinstance(v, Opaque) and v.tag == 'file'):
                raise Unsupported('with statement on %s' % type(v).__name__)
            self.ctx.use_axiom('A-IO:file objects are context managers that close on exit')
            if item.optional_vars is not None:
                self.assign_target(item.optional_vars, v, env)
        self.exec_block(node.body, env)

    def exec_Try(self, node, env):
        try:
            try:
                self.exec_block(node.body, env)
            except PyExc as e:
                handled = False
                for h in node.handlers:
                    if h.type is None:
                        match = True
                    else:
                        tv = self.eval(h.type, env)
                        tvs = tv.items if isinstance(tv, Seq) else [tv]
                        match = any(isinstance(c, ExcClass) and exc_is(e.exc.cls, c) for c in tvs)
                    if match:
                        handled = True
                        if h.name:
                            env[h.name] = e.exc
                        saved = env.get('__active_exc__')
                        env['__active_exc__'] = e.exc
                        try:
                            self.exec_block(h.body, env)
                        finally:
                            env['__active_exc__'] = saved
                            if h.name:
                                env.pop(h.name, None)
                        break
                if not handled:
                    raise
            else:
                self.exec_block(node.orelse, env)
        finally:
            if node.finalbody:
                self.exec_block(node.finalbody, env)

    # -- loops
    def loop_key(self):
        q = self.fn_stack[-1] if self.fn_stack else '?'
        k = self.loop_counters.get(q, 0)
        self.loop_counters[q] = k + 1
        return q, k

    def exec_While(self, node, env):
        q, k = self.loop_key()
        n = 0
        limit = self.config.get('while_unroll', 64)
        while True:
            if not self.truth(self.eval(node.test, env)):
                self.exec_block(node.orelse, env)
                return
            n += 1
            if n > limit:
                raise Unsupported('while loop exceeds unrolling limit %d' % limit)
            try:
                self.exec_block(node.body, env)
            except _Break:
                return
            except _Continue:
                continue

    def exec_For(self, node, env):
        q, k = self.loop_key()
        it = self.eval(node.iter, env)
        spec = self.loop_specs.get((q, k))
        symbolic = isinstance(it, (SymSeq, RangeV, ZipV, EnumV)) and not self.iter_is_concrete(it)
        if isinstance(it, NDArr) and not isinstance(it.shape[0], int):
            symbolic = True
        if not symbolic:
            items = self.iterate_concrete(it)
            for item in items:
                self.assign_target(node.target, item, env)
                try:
                    self.exec_block(node.body, env)
                except _Break:
                    return
                except _Continue:
                    continue
            self.exec_block(node.orelse, env)
            return
        if spec is None:
            if self.scatter_loop(node, env, it):
                return
            if self.map_style_loop(node, env, it, q, k):
                return
            self.unsupported(node, 'loop #%d of %s over a symbolic-length iterable has no invariant' % (k, q))
        if node.orelse:
            raise Unsupported('for-else with invariant')
        self.cut_loop(node, env, it, spec, q, k)

    def havoc_loop_state(self, node, env, spec):
        """State that earlier iterations may have changed and that the invariant does not describe: objects mutated
        through methods / item stores become arbitrary (Opaque 'havoc': membership tests give fresh booleans, mutators are
        no-ops); names that are rebound in the body become unusable until re-assigned (definite assignment is then checked
        dynamically: reading one leaves the supported subset)."""
        handled = set(spec.keeps(env)) | set(getattr(spec, 'handles', ()))
        rebound, mutated = set(), set()
        for st in node.body:
            for sub in ast.walk(st):
                if isinstance(sub, ast.Name) and isinstance(sub.ctx, ast.Store):
                    rebound.add(sub.id)
                if isinstance(sub, ast.Call) and isinstance(sub.func, ast.Attribute) and isinstance(sub.func.value, ast.Name) \
                        and sub.func.attr in ('add', 'append', 'extend', 'update', 'pop', 'remove', 'insert', 'clear', 'discard', 'setdefault'):
                    mutated.add(sub.func.value.id)
                if isinstance(sub, (ast.Subscript, ast.Attribute)) and isinstance(sub.ctx, ast.Store):
                    base = sub.value
                    while isinstance(base, (ast.Subscript, ast.Attribute)):
                        base = base.value
                    if isinstance(base, ast.Name):
                        mutated.add(base.id)
        tnames = set(t.id for t in ast.walk(node.target) if isinstance(t, ast.Name))
        for nm in mutated - rebound - handled - tnames:
            if nm in env and not isinstance(env[nm], (NDArr,)) and not getattr(env[nm], 'havocked', False):
                cur = env[nm]
                if isinstance(cur, (Seq, SymSeq, PDict, Opaque)) or cur is None:
                    env[nm] = Opaque('havoc', nm)

    # -- scatter loops: "for e, a, b in zip(E, A, B): G[a, b].append(e)" ------------------------------------------
    def scatter_loop(self, node, env, it):
        """The loop whose body is the single statement G[a, b].append(e) over zip(E, A, B) of three 1-d integer arrays,
        G an object array whose cells were all initialised to empty lists: afterwards cell (i, j) holds exactly the E[k]
        with (A[k], B[k]) == (i, j) (negative indices wrap), in order of k.  Template invariant: after k iterations the
        cells hold the first k events; an out-of-range pair at the first offending k raises IndexError."""
        if node.orelse or len(node.body) != 1 or not isinstance(it, ZipV) or len(it.parts) != 3:
            return False
        st = node.body[0]
        if not (isinstance(st, ast.Expr) and isinstance(st.value, ast.Call) and isinstance(st.value.func, ast.Attribute)
                and st.value.func.attr == 'append' and len(st.value.args) == 1 and not st.value.keywords
                and isinstance(st.value.args[0], ast.Name) and isinstance(st.value.func.value, ast.Subscript)
                and isinstance(st.value.func.value.value, ast.Name)):
            return False
        sub = st.value.func.value
        key = sub.slice
        if not (isinstance(key, ast.Tuple) and len(key.elts) == 2 and all(isinstance(e_, ast.Name) for e_ in key.elts)):
            return False
        if not (isinstance(node.target, ast.Tuple) and all(isinstance(t, ast.Name) for t in node.target.elts) and len(node.target.elts) == 3):
            return False
        tn = [t.id for t in node.target.elts]
        used = [st.value.args[0].id, key.elts[0].id, key.elts[1].id]
        if sorted(tn) != sorted(used) or len(set(tn)) != 3:
            return False
        G = self.lookup(sub.value.id, env)
        g = getattr(G, 'grid', None)
        if not (isinstance(G, NDArr) and G.dtype == 'object' and g is not None and g.initialised and g.members is None and G.ndim == 2):
            return False
        parts = [self.force(p_) for p_ in it.parts]
        if not all(isinstance(p_, NDArr) and p_.ndim == 1 and p_.dtype in ('int', 'uint') for p_ in parts):
            return False
        n0 = parts[0].shape[0]
        from .npmodel import zeq
        for p_ in parts[1:]:
            if not zeq(p_.shape[0], n0):
                raise Unsupported('scatter loop over arrays whose lengths are not syntactically equal')
        fns = dict((name, self.np.named_fn(p_.fn)) for name, p_ in zip(tn, parts))
        ev, af, bf = fns[used[0]], fns[used[1]], fns[used[2]]
        nz = self.np.dim_z(n0)
        d0, d1 = self.np.dim_z(G.shape[0]), self.np.dim_z(G.shape[1])
        k = self.ctx.fresh_int('sc_k')
        bad = z3.Exists([k], z3.And(0 <= k, k < nz, z3.Not(z3.And(-d0 <= af(k), af(k) < d0, -d1 <= bf(k), bf(k) < d1))), patterns=[af(k)])
        if self.ctx.branch(bad, safety=True):
            raise_py('IndexError', 'index out of bounds for the object array')
        self.ctx.use_axiom('loop-template:scatter-append (cell (i,j) of G = the e_k with (a_k, b_k) = (i, j), in order)')
        g.members = (nz, ev, lambda t, af=af, d0=d0: z3.If(af(t) < 0, af(t) + d0, af(t)),
                     lambda t, bf=bf, d1=d1: z3.If(bf(t) < 0, bf(t) + d1, bf(t)))
        for name in tn:
            env[name] = Poison('loop variable after a scatter loop') if 'Poison' in globals() else None
        return True

    # -- map-style loops: "for x in xs: ...; out.append(f(x))" --------------------------------------
    def map_style_loop(self, node, env, it, q, k):
        """A loop over a symbolic-length iterable whose only effect is one unconditional append per iteration to
        each of some local lists (everything else in the body assigns loop-local names) is an element-wise map:
        after the loop, list L is  old L ++ [value appended in iteration k for k < n].  The invariant is inferred
        from this template; the body is (re-)executed for a symbolic iteration whenever an element is read."""
        if node.orelse:
            return False
        appends = []        # (list name, index of the statement in the body)
        for si, st in enumerate(node.body):
            if isinstance(st, ast.Expr) and isinstance(st.value, ast.Call) and isinstance(st.value.func, ast.Attribute) \
                    and st.value.func.attr == 'append' and isinstance(st.value.func.value, ast.Name) \
                    and len(st.value.args) == 1 and not st.value.keywords:
                appends.append((st.value.func.value.id, si))
        if not appends or len(set(a for a, _ in appends)) != len(appends):
            return False
        names = [a for a, _ in appends]
        body_assigned = set(sub.id for st in node.body for sub in ast.walk(st)
                            if isinstance(sub, ast.Name) and isinstance(sub.ctx, ast.Store))
        # no other statement may mention the lists, break/continue/return are not part of the template
        for si, st in enumerate(node.body):
            for sub in ast.walk(st):
                if isinstance(sub, (ast.Break, ast.Continue, ast.Return, ast.Global, ast.Nonlocal, ast.Delete, ast.With)):
                    return False
                if isinstance(sub, ast.Name) and sub.id in names and not (si in [i for _, i in appends] and sub is st.value.func.value):
                    return False
                if isinstance(sub, (ast.Attribute, ast.Subscript)) and isinstance(sub.ctx, ast.Store):
                    base = sub.value
                    while isinstance(base, (ast.Attribute, ast.Subscript)):
                        base = base.value
                    if not (isinstance(base, ast.Name) and base.id in body_assigned):
                        return False    # heap stores other than the appends / loop-local objects (checked again at run time)
        lists = {}
        for nm in names:
            L = self.lookup(nm, env)
            if not (isinstance(L, (Seq, SymSeq)) and L.kind == 'list'):
                return False
            lists[nm] = L
        n = self.iter_len(it)
        nz = self.z(n, 'int')
        it_snap = self.snapshot(it)
        hoisted = {}
        tnames = set(t.id for t in ast.walk(node.target) if isinstance(t, ast.Name))
        assigned = set()
        for st in node.body:
            for sub in ast.walk(st):
                if isinstance(sub, ast.Name) and isinstance(sub.ctx, ast.Store):
                    assigned.add(sub.id)
        for st in node.body:
            for kk_, vv_ in self.hoist_invariants_stmt(st, tnames | assigned | set(names), env).items():
                hoisted[kk_] = vv_

        def run_iteration(interp_, kz, want):
            """execute the body for iteration kz in a scratch scope; returns the value appended to list `want`"""
            scope = {'__parent__': env, '__globals__': env.get('__globals__'), '__module__': env.get('__module__')}
            captured = {}
            saved = interp_.hoist
            saved_pure = interp_.pure_since
            interp_.hoist = hoisted
            if saved_pure is None:
                interp_.pure_since = next(_stamp)      # the iteration may only write objects it creates itself
            for nm in names:
                cap = stamp(Seq('list', []))
                cap.capture_for = nm
                scope[nm] = cap
                captured[nm] = cap
            try:
                item = interp_.seq_get_sym(it_snap, kz)
                interp_.assign_target(node.target, item, scope)
                interp_.exec_block(node.body, scope)
            finally:
                interp_.hoist = saved
                interp_.pure_since = saved_pure
            if want is None:
                return None
            return captured[want].items[0]
        # exceptions of the body are hoisted: the loop raises iff some iteration raises (the first one)
        kf = self.ctx.fresh_int('loop_k')
        results = self.sub_explore(lambda: run_iteration(self, kf, None), [0 <= kf, kf < nz])
        exc_conds = []
        for r in results:
            if r.outcome == 'raise':
                exc_conds.append(z3.And(*r.pc_suffix) if r.pc_suffix else z3.BoolVal(True))
        if exc_conds:
            anyexc = z3.Or(*exc_conds)
            if self.ctx.branch(z3.Exists([kf], z3.And(0 <= kf, kf < nz, anyexc))):
                k0 = self.ctx.fresh_int('loop_k0')
                self.ctx.assume(z3.And(0 <= k0, k0 < nz, z3.substitute(anyexc, (kf, k0))))
                j = self.ctx.fresh_int('loop_j')
                self.ctx.assume(z3.ForAll([j], z3.Implies(z3.And(0 <= j, j < k0), z3.Not(z3.substitute(anyexc, (kf, j))))))
                self.ctx.loop_k = ('%s.loop%d' % (q.split('.', 1)[-1], k), k0)
                run_iteration(self, k0, None)
                raise PathAbort('loop body did not raise at the failing iteration')
            self.ctx.assume(z3.ForAll([kf], z3.Implies(z3.And(0 <= kf, kf < nz), z3.Not(anyexc))))
        self.ctx.use_axiom('engine: map-style loop template (one append per iteration) for loop %d of %s' % (k, q))
        for nm in names:
            L = lists[nm]
            self.check_write(L)
            old = self.snapshot(L)
            n0 = self.seq_len(old)
            n0z = self.z(n0, 'int')

            def fn(interp_, i, old=old, n0z=n0z, nm=nm):
                if isinstance(n0, int) and n0 == 0:
                    return run_iteration(interp_, i, nm)
                if interp_.ctx.branch(i < n0z):
                    return interp_.seq_get_sym(old, i)
                return run_iteration(interp_, z3.simplify(i - n0z), nm)
            newn = self.mk(n0z + nz, 'int')
            L.__class__ = SymSeq
            L.kind = 'list'
            L.n = newn
            L.fn = fn
            L.overlays = []
            L.name = nm
            L.elem_token = None
            L.no_raise = True
            if hasattr(L, 'items'):
                del L.items
        for t in tnames | assigned:
            if t not in names:
                env[t] = Poison('loop-local variable after a map-style loop')
        return True

    def hoist_invariants_stmt(self, st, bound, env):
        """loop-invariant simple sub-expressions of a statement (see hoist_invariants)"""
        out = {}

        def depends(n):
            return any(isinstance(x, ast.Name) and x.id in bound for x in ast.walk(n))

        def simple(n):
            if isinstance(n, ast.Name):
                return True
            if isinstance(n, ast.Attribute):
                return simple(n.value)
            if isinstance(n, ast.Subscript):
                return simple(n.value) and isinstance(n.slice, ast.Constant)
            return False

        def visit(n):
            if isinstance(n, ast.expr) and simple(n) and not depends(n) and isinstance(getattr(n, 'ctx', ast.Load()), ast.Load):
                try:
                    v = self.eval(n, env)
                except (PyExc, Unsupported):
                    return
                out[id(n)] = (self.snapshot(v), n)
                return
            if isinstance(n, (ast.Lambda, ast.ListComp, ast.GeneratorExp, ast.DictComp, ast.SetComp)):
                return
            for ch in ast.iter_child_nodes(n):
                visit(ch)
        visit(st)
        return out

    def iter_is_concrete(self, it):
        if isinstance(it, ZipV):
            return any(self.iter_is_concrete(p) for p in it.parts)
        if isinstance(it, EnumV):
            return self.iter_is_concrete(it.seq)
        if isinstance(it, Seq):
            return True
        return self.is_concrete_iter(it)

    def iter_len(self, it):
        if isinstance(it, ZipV):
            lens = [self.seq_len(p) for p in it.parts]
            n0 = lens[0]
            for n in lens[1:]:
                eq = self.z(n0, 'int') == self.z(n, 'int')
                if not self.ctx.branch(eq):
                    raise Unsupported('zip of sequences with different symbolic lengths')
            return n0
        if isinstance(it, EnumV):
            return self.iter_len(it.seq)
        return self.seq_len(it)

    def cut_loop(self, node, env, it, spec, q, k):
        """Loop cut at a contract-supplied invariant: init / preservation / use."""
        ctx = self.ctx
        n = self.iter_len(it)
        nz = self.z(n, 'int')
        tag = '%s.loop%d' % (q.split('.', 1)[-1], k)
        st0 = spec.snapshot(self, env) if hasattr(spec, 'snapshot') else None
        for name, f in spec.inv(self, env, z3.IntVal(0), st0):
            ctx.prove('%s.init.%s' % (tag, name), f, kind='loop-init')
        which = ctx.choice(2, tag)
        spec.havoc(self, env, st0)
        self.havoc_loop_state(node, env, spec)
        # names assigned in the body hold, at the start of an arbitrary iteration, whatever an earlier iteration left there:
        # unless the invariant describes them (keeps / handles) they must not be read before the body assigns them again
        if which == 0:
            tn_ = set(t.id for t in ast.walk(node.target) if isinstance(t, ast.Name))
            described = set(spec.keeps(env)) | set(getattr(spec, 'handles', ()))
            for st_ in node.body:
                for sub_ in ast.walk(st_):
                    if isinstance(sub_, ast.Name) and isinstance(sub_.ctx, ast.Store) and sub_.id not in tn_ and sub_.id not in described \
                            and sub_.id in env and not isinstance(env[sub_.id], Poison):
                        env[sub_.id] = Poison('value of %s carried over from an earlier iteration (not described by the loop invariant)' % sub_.id)
            kk = ctx.fresh_int('it_k')
            ctx.assume(z3.And(0 <= kk, kk < nz))
            for name, f in spec.inv(self, env, kk, st0):
                ctx.assume(f)
            item = self.seq_get_sym(it, kk)
            self.assign_target(node.target, item, env)
            ctx.loop_k = (tag, kk)        # an exception escaping from here happened in iteration kk
            try:
                self.exec_block(node.body, env)
            except _Continue:
                pass
            except _Break:
                raise Unsupported('break inside an invariant-cut loop')
            for name, f in spec.inv(self, env, kk + 1, st0):
                ctx.prove('%s.step.%s' % (tag, name), f, kind='loop-step', assume_after=False)
            raise LoopCut(tag)
        else:
            ctx.assume(nz >= 0)
            for name, f in spec.inv(self, env, nz, st0):
                ctx.assume(f)
            for t in ast.walk(node.target):
                if isinstance(t, ast.Name):
                    env[t.id] = Poison('loop variable after an invariant-cut loop')
            for st in node.body:
                for t in ast.walk(st):
                    if isinstance(t, ast.Name) and isinstance(t.ctx, ast.Store) and t.id not in spec.keeps(env):
                        env[t.id] = Poison('loop-local variable after an invariant-cut loop')

    # ------------------------------------------------------------------ library hooks (overridden in pybuiltins)
    def libs_opaque_binop(self, op, a, b):
        from . import pybuiltins
        return pybuiltins.opaque_binop(self, op, a, b)

    def libs_opaque_eq(self, a, b):
        from . import pybuiltins
        return pybuiltins.opaque_eq(self, a, b)

    def libs_getitem(self, obj, key):
        from . import pybuiltins
        return pybuiltins.opaque_getitem(self, obj, key)

    def libs_setitem(self, obj, key, val):
        from . import pybuiltins
        return pybuiltins.opaque_setitem(self, obj, key, val)

    def libs_setattr(self, obj, name, val):
        from . import pybuiltins
        return pybuiltins.opaque_setattr(self, obj, name, val)

    def libs_len(self, obj):
        from . import pybuiltins
        return pybuiltins.opaque_len(self, obj)


class LoopCut(PathAbort):
    pass


class ZipV(object):
    def __init__(self, parts):
        self.parts = parts


class EnumV(object):
    def __init__(self, seq, start=0):
        self.seq = seq
        self.start = start


class SymFn(object):
    """An uninterpreted callable supplied by a contract (e.g. a standard curve)."""

    def __init__(self, name, apply):
        self.name = name
        self._apply = apply

    def apply(self, interp, args, kwargs):
        return self._apply(interp, args, kwargs)
