"""pyvc: verification-condition generator for the FlowCal sources.

Reads the real function definitions from /repo on every run (ast), executes them
symbolically path by path, cuts loops at contract-supplied invariants, replaces
library calls by assumed contracts (axioms), and hands the resulting proof
obligations to z3 / cvc5.
"""
