"""Check runner: proof jobs in a process pool, replay of counterexamples on the real code,
bounded stand-ins, known findings, evidence, VIOLATION lines."""
import fnmatch
import hashlib
import importlib
import json
import multiprocessing
import os
import subprocess
import sys
import time
import traceback

VERIF = os.path.dirname(os.path.dirname(os.path.abspath(__file__)))
VENV_PY = '/venv/bin/python'
REPO = os.environ.get('FLOWCAL_REPO', '/repo')
OUT = os.environ.get('PYVC_OUT', None)      # evidence/ and replays/ of trial runs (seeded changes in a scratch worktree) go here

EXIT_OK, EXIT_VIOLATION, EXIT_UNDECIDED, EXIT_BROKEN = 0, 1, 2, 3
JOB_BUDGET_S = int(os.environ.get('PYVC_JOB_BUDGET_S', '420'))
MUTANT_BUDGET_S = int(os.environ.get("PYVC_MUTANT_BUDGET_S", "240"))
MAX_MUTANTS = int(os.environ.get("PYVC_MAX_MUTANTS", "32"))


def load_contract(ref):
    modname, cls = ref.split(':')
    mod = importlib.import_module(modname)
    return getattr(mod, cls)()


def envfacts():
    p = subprocess.run([VENV_PY, os.path.join(VERIF, 'worker', 'envfacts.py')], capture_output=True, text=True,
                       timeout=120, cwd=VERIF)
    if p.returncode != 0:
        raise RuntimeError('envfacts failed: ' + p.stderr[-500:])
    return json.loads(p.stdout)


def _job(args):
    """one (contract, case) in a worker process -> picklable summary"""
    ref, label, facts, timeout_ms, mutate_ref = args
    from . import verify as V
    from .ctx import Unsupported
    import signal
    t0 = time.time()

    budget = job_budget()

    def on_alarm(signum, frame):
        raise Unsupported('time budget of %d s for this case exceeded' % budget)
    try:
        signal.signal(signal.SIGALRM, on_alarm)
        signal.alarm(budget)
    except Exception:
        pass
    try:
        c = load_contract(ref)
        c.config = dict(c.config)
        c.config['envfacts'] = facts
        rep = V.verify(c, timeout_ms=timeout_ms, case_filter=(lambda l: l == label) if label is not None else None)
        try:
            signal.alarm(0)
        except Exception:
            pass
        res = []
        for r in rep.results:
            res.append({'name': r.name, 'kind': r.kind, 'status': r.status, 'backend': r.backend,
                        'seconds': round(r.seconds, 4), 'case': r.case, 'path': r.path, 'witness': r.witness,
                        'model': getattr(r, 'model_text', None), 'reason': r.reason,
                        'smt2': (r.smt2 or '')[:20000] if r.status != 'unsat' else None})
        return {'ref': ref, 'target': c.target, 'label': label, 'sha256': rep.source_sha256, 'results': res,
                'paths': rep.paths, 'cases': rep.cases, 'unsupported': rep.unsupported, 'errors': rep.errors,
                'covers': rep.covers, 'axioms': sorted(rep.axioms_used), 'branch_queries': rep.branch_queries,
                'solver_s': round(rep.solver_s, 3), 'wall_s': round(time.time() - t0, 3),
                'assumptions': list(getattr(c, 'assumptions', ())), 'cross': getattr(rep, 'cross', []),
                'cross_tried': getattr(rep, 'cross_tried', 0), 'infeasible_paths': getattr(rep, 'infeasible_paths', 0)}
    except Unsupported as e:
        try:
            signal.alarm(0)
        except Exception:
            pass
        return {'ref': ref, 'target': getattr(load_contract(ref), 'target', ref), 'label': label, 'results': [], 'paths': 0, 'cases': [],
                'unsupported': ['%s: %s' % (label, e)], 'errors': [], 'covers': {}, 'axioms': [], 'branch_queries': 0, 'solver_s': 0,
                'wall_s': round(time.time() - t0, 3), 'sha256': None, 'assumptions': []}
    except Exception as e:   # noqa
        try:
            signal.alarm(0)
        except Exception:
            pass
        return {'ref': ref, 'target': ref, 'label': label, 'results': [], 'paths': 0, 'cases': [], 'unsupported': [],
                'errors': ['%s: %s\n%s' % (type(e).__name__, e, traceback.format_exc()[-3000:])], 'covers': {},
                'axioms': [], 'branch_queries': 0, 'solver_s': 0, 'wall_s': round(time.time() - t0, 3),
                'sha256': None, 'assumptions': []}


def job_budget():
    return int(os.environ.get('PYVC_JOB_BUDGET_S', JOB_BUDGET_S))


def _child(fn, job, conn):
    try:
        conn.send(fn(job))
    except Exception as e:   # noqa
        try:
            conn.send({'__crash__': '%s: %s' % (type(e).__name__, e)})
        except Exception:
            pass
    finally:
        conn.close()


def run_jobs(fn, jobs, procs, hard_s, on_timeout):
    """One process per job, at most `procs` at a time, each with a HARD wall-clock limit: a solver call that ignores its own
    timeout (seen: z3's Diophantine handler inside a 20 s query ran for 45 minutes) cannot be interrupted from Python, so the
    process is killed and the job is reported as undecided."""
    ctx = multiprocessing.get_context('fork')
    results = [None] * len(jobs)
    running = {}
    nxt = 0
    while nxt < len(jobs) or running:
        while nxt < len(jobs) and len(running) < procs:
            parent, child = ctx.Pipe(duplex=False)
            pr = ctx.Process(target=_child, args=(fn, jobs[nxt], child))
            pr.start()
            child.close()
            running[nxt] = (pr, parent, time.time())
            nxt += 1
        for i, (pr, conn, t0) in list(running.items()):
            done = False
            try:
                if conn.poll():
                    r = conn.recv()
                    results[i] = on_timeout(jobs[i], 'worker crashed: ' + r['__crash__']) if isinstance(r, dict) and '__crash__' in r else r
                    done = True
            except (EOFError, OSError):
                results[i] = on_timeout(jobs[i], 'worker ended without a result')
                done = True
            if not done and not pr.is_alive():
                # the result may still be in the pipe
                try:
                    if conn.poll(0.2):
                        results[i] = conn.recv()
                    else:
                        results[i] = on_timeout(jobs[i], 'worker died (exit code %s)' % pr.exitcode)
                except Exception:
                    results[i] = on_timeout(jobs[i], 'worker died (exit code %s)' % pr.exitcode)
                done = True
            if not done and time.time() - t0 > hard_s:
                pr.kill()
                results[i] = on_timeout(jobs[i], 'hard time limit of %d s exceeded (a solver call did not return): killed' % hard_s)
                done = True
            if done:
                pr.join(5)
                try:
                    conn.close()
                except Exception:
                    pass
                del running[i]
        time.sleep(0.05)
    return results


def _proof_timeout(job, why):
    ref, label = job[0], job[1]
    try:
        target = load_contract(ref).target
    except Exception:
        target = ref
    return {'ref': ref, 'target': target, 'label': label, 'results': [], 'paths': 0, 'cases': [], 'unsupported': ['%s: %s' % (label, why)],
            'errors': [], 'covers': {}, 'axioms': [], 'branch_queries': 0, 'solver_s': 0, 'wall_s': 0, 'sha256': None, 'assumptions': []}


def _mutant_timeout(job, why):
    return {'ref': job[0], 'site': job[1], 'mutation': None, 'verdict': 'not-decisive', 'how': why, 'wall_s': 0}


def _mutant_job(args):
    """one deliberately broken body of the function under contract (in memory): is it noticed?"""
    ref, site, facts, timeout_ms = args
    from . import verify as V
    from .ctx import Unsupported
    import signal
    t0 = time.time()

    def on_alarm(signum, frame):
        raise Unsupported('time budget for this mutant exceeded')
    out = {'ref': ref, 'site': site, 'mutation': None, 'verdict': 'not-decisive', 'how': '', 'wall_s': 0}
    try:
        signal.signal(signal.SIGALRM, on_alarm)
        signal.alarm(MUTANT_BUDGET_S)
        c = load_contract(ref)
        c.config = dict(c.config)
        c.config['envfacts'] = facts
        rep = V.verify(c, timeout_ms=min(timeout_ms, 4000), mutate=site, stop_at_first_failure=True)
        signal.alarm(0)
        out['mutation'] = getattr(rep, 'mutation', None)
        bad = [r for r in rep.results if r.status != 'unsat']
        if out['mutation'] is None or (not bad and not rep.unsupported and not getattr(rep, 'mutation_executed', True)):
            out['verdict'], out['how'] = 'not-decisive', 'the mutated line is not executed by the cases of the contract'
        elif bad:
            out['verdict'], out['how'] = 'killed', 'obligation %s [%s] %s' % (bad[0].name, bad[0].case, bad[0].status)
        elif rep.unsupported:
            out['verdict'], out['how'] = 'left-subset', rep.unsupported[0][:160]
        elif rep.errors:
            out['verdict'], out['how'] = 'not-decisive', 'engine error: ' + rep.errors[0][:160]
        elif any(not v for v in rep.covers.values()):
            out['verdict'], out['how'] = 'killed', 'expected outcome no longer reachable: %s' % [k for k, v in rep.covers.items() if not v][0]
        else:
            out['verdict'], out['how'] = 'survived', '%d obligations still discharged' % len(rep.results)
    except Unsupported as e:
        out['verdict'], out['how'] = 'left-subset', str(e)[:160]
    except Exception as e:   # noqa
        out['verdict'], out['how'] = 'not-decisive', '%s: %s' % (type(e).__name__, str(e)[:160])
    finally:
        try:
            signal.alarm(0)
        except Exception:
            pass
    out['wall_s'] = round(time.time() - t0, 2)
    return out


def run_mutants(contract_refs, facts, timeout_ms, procs, seed, per_contract=3):
    import ast as _ast
    import random as _random
    from . import loader, mutate, verify as V
    jobs = []
    for ref in contract_refs:
        c = load_contract(ref)
        try:
            mod, qual = V.split_target(c.target)
            node = loader.find_def(mod, qual)[0]
            n = mutate.count_sites(node)
        except Exception:
            n = 0
        if not n:
            continue
        rnd = _random.Random('%s/%s' % (seed, ref))
        for site in sorted(rnd.sample(range(n), min(n, per_contract))):
            jobs.append((ref, site, facts, timeout_ms))
    if not jobs:
        return []
    if len(jobs) > MAX_MUTANTS:
        jobs = sorted(_random.Random('%s/cap' % seed).sample(jobs, MAX_MUTANTS), key=lambda j: (j[0], j[1]))
    return run_jobs(_mutant_job, jobs, min(procs, len(jobs)), MUTANT_BUDGET_S + 90, _mutant_timeout)


def run_proof_jobs(contract_refs, facts, timeout_ms, procs):
    jobs = []
    for ref in contract_refs:
        c = load_contract(ref)
        for ci, case in enumerate(c.cases()):
            jobs.append((ref, case.get('label', 'case%d' % ci), facts, timeout_ms, None))
    if not jobs:
        return []
    return run_jobs(_job, jobs, min(procs, len(jobs)), job_budget() + 120, _proof_timeout)


def run_replay(replay_path):
    try:
        p = subprocess.run([VENV_PY, os.path.join(VERIF, 'worker', 'replay.py'), replay_path], capture_output=True,
                           text=True, timeout=600, cwd=VERIF, env=dict(os.environ, FLOWCAL_REPO=REPO))
        line = (p.stdout or '').strip().splitlines()
        if not line:
            return {'violates': None, 'detail': 'replay produced no output: ' + (p.stderr or '')[-800:]}
        return json.loads(line[-1])
    except Exception as e:   # noqa
        return {'violates': None, 'detail': 'replay failed to run: %s' % e}


def crosscheck(pid, reports):
    out = {'sampled_paths': 0, 'models_found': 0, 'replayed': 0, 'agree': 0, 'no_outcome': 0, 'disagreements': []}
    items = []
    for rep in reports:
        out['sampled_paths'] += rep.get('cross_tried', 0)
        for x in rep.get('cross', []):
            items.append((rep, x))
    out['models_found'] = len(items)
    if not items:
        return out
    os.makedirs(os.path.join(OUT or VERIF, 'replays', pid), exist_ok=True)
    paths = []
    for n, (rep, x) in enumerate(items):
        rp_path = os.path.join(OUT or VERIF, 'replays', pid, 'cross_%03d.json' % n)
        with open(rp_path, 'w') as f:
            json.dump({'property': pid, 'target': rep['target'], 'inputs': x['witness'], 'case': x['case'], 'path': x['path'],
                       'engine_outcome': x['outcome'], 'purpose': 'engine-vs-CPython cross-check'}, f, indent=1, default=str)
        paths.append(rp_path)
    from concurrent.futures import ThreadPoolExecutor
    with ThreadPoolExecutor(max_workers=12) as ex:
        verdicts = list(ex.map(run_replay, paths))
    for (rep, x), v, rp_path in zip(items, verdicts, paths):
        out['replayed'] += 1
        fname = rep['target'].split('.')[-1]
        real = None
        for nm, kind in (v.get('calls') or []):
            if nm.split('.')[-1] == fname or nm.endswith('.' + fname):
                real = kind
                break
        if real is None and (v.get('calls') or []):
            # the oracle reached the function through an operator or a wrapper (d[key], f = lambda ...): its first call of the
            # real code is the call under test
            real = v['calls'][0][1]
            out['matched_by_first_call'] = out.get('matched_by_first_call', 0) + 1
        if real is None:
            out['no_outcome'] += 1
            os.unlink(rp_path)
            continue
        if real == x['outcome']:
            out['agree'] += 1
            os.unlink(rp_path)
        else:
            out['disagreements'].append({'target': rep['target'], 'case': x['case'], 'path': x['path'], 'engine': x['outcome'], 'real': real,
                                         'lib': x.get('lib', []), 'replay': os.path.relpath(rp_path, VERIF)})
    return out


def run_bounded(pid, tier, seed, timeout=3000):
    script = os.path.join(VERIF, 'worker', 'bounded.py')
    if not os.path.exists(script):
        return None
    t0 = time.time()
    p = subprocess.run([VENV_PY, script, pid, '--tier', tier, '--seed', str(seed)], capture_output=True, text=True,
                       timeout=timeout, cwd=VERIF, env=dict(os.environ, FLOWCAL_REPO=REPO))
    try:
        out = json.loads((p.stdout or '').strip().splitlines()[-1])
    except Exception:
        out = {'error': 'bounded worker crashed (rc=%s): %s' % (p.returncode, (p.stderr or '')[-1500:])}
    out['wall_s'] = round(time.time() - t0, 2)
    return out


def load_known():
    p = os.path.join(VERIF, 'known_findings.json')
    if not os.path.exists(p):
        return []
    with open(p) as f:
        return json.load(f).get('entries', [])


def load_baseline(pid):
    p = os.path.join(VERIF, 'contracts', 'baseline', pid + '.json')
    if not os.path.exists(p):
        return None
    with open(p) as f:
        return json.load(f)


def ob_key(target, r):
    return '%s::%s::%s' % (target, r['case'], r['name'])


def match_known(pid, key, known):
    for e in known:
        if e.get('kind') == 'finding' and e.get('property') == pid:
            pat = e.get('key')
            if pat == key or fnmatch.fnmatchcase(key, pat.replace('[', '[[]')):
                return e
    return None


def check_property(pid, spec, tier='quick', seed=0, procs=None, write_baseline=False):
    t0 = time.time()
    procs = procs or min(16, os.cpu_count() or 4)
    out_lines = []
    facts = envfacts()
    timeout_ms = spec.get('timeout_ms', 20000) * (3 if tier == 'thorough' else 1)
    bounded_res = None
    os.environ['VERIF_TIER'] = tier          # contracts may add cases in the thorough tier
    if tier == 'thorough':
        os.environ['PYVC_CROSSCHECK'] = os.environ.get('PYVC_CROSSCHECK', '2')      # sampled paths per outcome and case
        os.environ.setdefault('PYVC_JOB_BUDGET_S', str(3 * JOB_BUDGET_S))            # the larger cases of the thorough tier
    reports = run_proof_jobs(spec.get('contracts', []), facts, timeout_ms, procs)
    known = load_known()
    baseline = load_baseline(pid)
    broken = []
    violations = []
    known_hits = []
    undecided = []
    n_ob = n_dis = 0
    backends = {}
    functions = {}
    axioms = set()
    assumptions = set()
    samples = []
    discharged_keys = []
    covers_reached = []
    solver_s = 0.0
    os.makedirs(os.path.join(OUT or VERIF, 'replays', pid), exist_ok=True)
    pending = []
    for rep in reports:
        if rep['errors']:
            broken.append('%s[%s]: %s' % (rep['target'], rep['label'], rep['errors'][0][:600]))
        fn = functions.setdefault(rep['target'], {'source_sha256': rep['sha256'], 'paths': 0, 'obligations': 0,
                                                  'discharged': 0, 'cases': [], 'out_of_reach': []})
        fn['paths'] += rep['paths']
        fn['cases'].extend(rep['cases'])
        solver_s += rep['solver_s']
        axioms |= set(rep['axioms'])
        assumptions |= set(rep['assumptions'])
        for u in rep['unsupported']:
            fn['out_of_reach'].append(u)
            undecided.append({'key': '%s::%s' % (rep['target'], rep['label']), 'why': 'engine: ' + u})
        for k, ok in rep['covers'].items():
            ckey = '%s::%s' % (rep['target'], k)
            if ok:
                covers_reached.append(ckey)
            elif not rep['unsupported'] and not rep['errors']:
                if baseline is not None and ckey in baseline.get('covers', []):
                    # reachable on the baseline tree, unreachable now: the code changed; the contract's cases no longer fit it
                    undecided.append({'key': ckey, 'why': 'expected outcome no longer reachable (was reachable on the baseline tree)'})
                else:
                    broken.append('vacuity: expected outcome %s of %s never reached' % (k, rep['target']))
        if not rep['results'] and not rep['unsupported'] and not rep['errors']:
            broken.append('vacuity: no obligations generated for %s[%s]' % (rep['target'], rep['label']))
        for r in rep['results']:
            n_ob += 1
            fn['obligations'] += 1
            key = ob_key(rep['target'], r)
            if r['status'] == 'unsat':
                n_dis += 1
                fn['discharged'] += 1
                backends[r['backend']] = backends.get(r['backend'], 0) + 1
                discharged_keys.append(key)
                if len(samples) < 4 and r['kind'] == 'ensures':
                    samples.append({'obligation': key, 'status': 'discharged', 'backend': r['backend'], 'seconds': r['seconds']})
                continue
            # not discharged
            rp_path = os.path.join('replays', pid, hashlib.sha1(key.encode()).hexdigest()[:12] + '.json')
            rp = {'property': pid, 'target': rep['target'], 'obligation': r['name'], 'case': r['case'], 'key': key,
                  'solver_status': r['status'], 'backend': r['backend'], 'solver_reason': r['reason'],
                  'inputs': r['witness'], 'model': r['model'], 'source_sha256': rep['sha256']}
            if r['status'] == 'unknown':
                undecided.append({'key': key, 'why': 'solver unknown: %s' % r['reason']})
                continue
            with open(os.path.join(OUT or VERIF, rp_path), 'w') as f:
                json.dump(rp, f, indent=1, default=str)
            runnable = bool(r['witness'] and not (isinstance(r['witness'], dict) and r['witness'].get('error')) and
                            not (isinstance(r['witness'], dict) and r['witness'].get('data', 1) is None))
            pending.append((key, rp_path, rp, r, rep, runnable))
    # replay the counterexamples on the real code (in parallel)
    from concurrent.futures import ThreadPoolExecutor
    todo = [x for x in pending if x[5]]
    with ThreadPoolExecutor(max_workers=12) as ex:
        verdicts = dict(zip([x[0] + x[1] for x in todo], ex.map(lambda x: run_replay(os.path.join(OUT or VERIF, x[1])), todo)))
    for (key, rp_path, rp, r, rep, runnable) in pending:
        verdict = verdicts.get(key + rp_path, {'violates': None, 'detail': 'no concrete inputs could be built from the counter-model'})
        rp['replay_verdict'] = verdict
        with open(os.path.join(OUT or VERIF, rp_path), 'w') as f:
            json.dump(rp, f, indent=1, default=str)
        item = {'key': key, 'replay': rp_path, 'verdict': verdict, 'obligation': r['name'], 'target': rep['target']}
        kf = match_known(pid, key, known)
        if verdict.get('violates') is True:
            if kf:
                known_hits.append((kf, item))
            else:
                violations.append((item, ''))
        elif 'candidate only' in (r.get('backend') or ''):
            # no solver produced a model of the full VC (only of its ground-instantiated weakening) and the
            # candidate input does not fail on the real code: validity of the VC is unknown
            undecided.append({'key': key, 'why': 'solver unknown; candidate input from ground instances does not fail on the real code: %s'
                              % str(verdict.get('detail', ''))[:200]})
        else:
            # counter-model did not reproduce (or could not be concretised)
            was_discharged = baseline is not None and key in baseline.get('discharged', [])
            if kf:
                known_hits.append((kf, item))
            elif was_discharged:
                violations.append((item, ' no-failing-input-found'))
            else:
                undecided.append({'key': key, 'why': 'sat, not reproduced on the real code: %s' % verdict.get('detail', '')[:300]})
    # engine-vs-CPython cross-check: concrete inputs satisfying sampled path conditions are run on the real code; the outcome
    # (return / exception class of the first call of the function under contract) must be the outcome of the engine's path
    cross = crosscheck(pid, reports)
    for d in cross['disagreements']:
        if not d['lib']:
            broken.append('engine/CPython disagreement on %s[%s] path %d: engine %s, CPython %s (inputs in %s)' % (
                d['target'], d['case'], d['path'], d['engine'], d['real'], d['replay']))
    # deliberately broken bodies (tier thorough): do the contracts notice?
    mutants = None
    if tier == 'thorough' and spec.get('contracts'):
        res = run_mutants(spec['contracts'], facts, timeout_ms, procs, seed)
        mutants = {'tried': len(res), 'killed': sum(1 for m in res if m['verdict'] == 'killed'),
                   'left_subset': sum(1 for m in res if m['verdict'] == 'left-subset'),
                   'survived': sum(1 for m in res if m['verdict'] == 'survived'),
                   'not_decisive': sum(1 for m in res if m['verdict'] == 'not-decisive'),
                   'details': [{'contract': m['ref'], 'mutation': m['mutation'], 'verdict': m['verdict'], 'how': m['how'], 'wall_s': m['wall_s']}
                               for m in res]}
        decisive = mutants['killed'] + mutants['survived'] + mutants['left_subset']
        if decisive >= 3 and mutants['killed'] + mutants['left_subset'] == 0:
            broken.append('no deliberately broken body was noticed by the contracts of %s (%d mutants survived)' % (pid, mutants['survived']))
    # bounded stand-in / cross-check
    bounded_summary = None
    if spec.get('bounded'):
        bounded_res = run_bounded(pid, tier, seed)
        if bounded_res is None:
            pass
        elif bounded_res.get('error'):
            broken.append('bounded worker: ' + bounded_res['error'][:800])
        else:
            bounded_summary = {k: bounded_res.get(k) for k in ('domain', 'bound', 'cases', 'distinct_nontrivial', 'rule',
                                                               'wall_s', 'exhaustive', 'parts')}
            for fl in bounded_res.get('failures', []):
                key = 'bounded::' + fl['key']
                rp_path = os.path.join('replays', pid, 'bounded_' + hashlib.sha1(key.encode()).hexdigest()[:12] + '.json')
                with open(os.path.join(OUT or VERIF, rp_path), 'w') as f:
                    json.dump({'property': pid, 'key': key, 'target': fl.get('target'), 'inputs': fl.get('inputs'), 'found_by': 'bounded stand-in', 'what': fl.get('what')}, f, indent=1, default=str)
                kf = match_known(pid, key, known)
                item = {'key': key, 'replay': rp_path, 'verdict': {'violates': True, 'detail': fl.get('what', '')}}
                if kf:
                    known_hits.append((kf, item))
                else:
                    violations.append((item, ''))
            for s in (bounded_res.get('samples') or [])[:3]:
                samples.append({'bounded_case': s})
    # baseline regression: every obligation that was discharged on the baseline tree must still exist or be accounted for
    if write_baseline:
        os.makedirs(os.path.join(VERIF, 'contracts', 'baseline'), exist_ok=True)
        with open(os.path.join(VERIF, 'contracts', 'baseline', pid + '.json'), 'w') as f:
            json.dump({'property': pid, 'discharged': sorted(set(discharged_keys)), 'covers': sorted(set(covers_reached))}, f, indent=0)
    # verdict
    seen_kf = set()
    seen_what = set()
    for kf, item in known_hits:
        if kf['key'] not in seen_kf:
            seen_kf.add(kf['key'])
            if kf['what'] in seen_what:
                continue            # the same finding listed under several obligation / bounded keys: one line
            seen_what.add(kf['what'])
            out_lines.append('KNOWN-FINDING: property=%s %s' % (pid, kf['what']))
    reported = set()
    for item, suffix in violations:
        if item['key'] in reported:
            continue
        reported.add(item['key'])
        out_lines.append('VIOLATION property=%s replay=%s%s' % (pid, item['replay'], suffix))
        out_lines.append('  obligation: %s' % item['key'])
        out_lines.append('  %s' % str(item['verdict'].get('detail', ''))[:400])
    proof_complete = (n_ob > 0 and n_dis == n_ob and not undecided)
    level = spec.get('level', 'proof')
    if level == 'proof' and not (proof_complete or (n_ob > 0 and not undecided and all_accounted(n_ob, n_dis, known_hits))):
        level_run = 'other'
    else:
        level_run = level
    if n_ob == 0 and spec.get('contracts'):
        broken.append('no obligations generated')
    expl = spec.get('explanation', '')
    if undecided:
        expl += ' | this run: %d obligation(s)/function case(s) undecided by the prover (engine subset or solver unknown); ' \
                'the bounded stand-in decided them' % len(undecided)
    ev = {
        'property_id': pid, 'tier': tier, 'seed': int(seed), 'level': level_run,
        'coverage': {
            'obligations': n_ob, 'discharged': n_dis,
            'checker_cmd': './vc check %s --tier %s' % (pid, tier),
            'trusted_base': sorted(axioms) + ['A-ENGINE: pyvc symbolic executor (cross-checked against CPython in tier thorough)'],
            'explanation': expl,
            'functions_under_contract': functions,
            'backends': backends, 'solver_s': round(solver_s, 2),
            'undecided': undecided[:50],
            'known_findings_matched': sorted(seen_kf),
            'bounded': bounded_summary,
            'must_fail_mutants': mutants,
            'engine_crosscheck': {k_: cross.get(k_) for k_ in ('sampled_paths', 'models_found', 'replayed', 'agree', 'matched_by_first_call', 'no_outcome', 'disagreements')},
            'samples': samples or [{'note': 'no discharged ensures obligation to show'}],
            'envfacts': facts,
        },
        'assumptions': sorted(assumptions | set(spec.get('assumptions', []))),
        'wall_s': round(time.time() - t0, 2),
        'violations': len(reported),
    }
    if bounded_summary:
        ev['coverage']['evaluations'] = int(bounded_summary.get('cases') or 0)
        ev['coverage']['distinct_nontrivial'] = int(bounded_summary.get('distinct_nontrivial') or 0)
        ev['coverage']['rule'] = bounded_summary.get('rule') or ''
    os.makedirs(os.path.join(OUT or VERIF, 'evidence'), exist_ok=True)
    with open(os.path.join(OUT or VERIF, 'evidence', pid + '.json'), 'w') as f:
        json.dump(ev, f, indent=1, default=str)
    for l in out_lines:
        print(l)
    print('%s tier=%s obligations=%d discharged=%d undecided=%d known=%d violations=%d wall=%.1fs level=%s' % (
        pid, tier, n_ob, n_dis, len(undecided), len(seen_kf), len(reported), time.time() - t0, level_run))
    if broken:
        for b in broken:
            print('CHECKER-ERROR: ' + b, file=sys.stderr)
        return EXIT_BROKEN
    if reported:
        return EXIT_VIOLATION
    if undecided and not spec.get('bounded'):
        print('UNDECIDED: %d obligations without a bounded stand-in' % len(undecided), file=sys.stderr)
        return EXIT_UNDECIDED
    return EXIT_OK


def all_accounted(n_ob, n_dis, known_hits):
    return n_dis + len(known_hits) >= n_ob
