"""Assumed contracts (symbolic semantics) for the NumPy subset used by FlowCal.

Every entry is an *assumption* about NumPy (trusted base, named in the evidence through
ctx.use_axiom); worker/conformance.py checks the executable reading of the same statements
against the installed NumPy on small exhaustive domains.
"""
import fractions
import z3

from .ctx import Unsupported, PathAbort
from .values import (SV, Seq, SymSeq, RangeV, NDArr, PDict, Obj, NT, ClassObj, ExcObj, PyExc, Closure, Builtin,
                     BoundMethod, ModuleObj, TypeObj, SliceV, ELLIPSIS, EllipsisV, Opaque, Inf, Poison)

ZK = {'bool': 'bool', 'int': 'int', 'uint': 'int', 'float': 'real'}


def zeq(a, b):
    if isinstance(a, int) and isinstance(b, int):
        return a == b
    if isinstance(a, int) or isinstance(b, int):
        return False
    return z3.eq(z3.simplify(a), z3.simplify(b))


def forall_pat(vs, body, pats):
    """ForAll with patterns when z3 accepts them (terms with ite are not valid patterns)"""
    def has_ite(e):
        stack = [e]
        while stack:
            x = stack.pop()
            if z3.is_app(x) and x.decl().kind() == z3.Z3_OP_ITE:
                return True
            stack.extend(x.children())
        return False
    if any(has_ite(p_) for p_ in pats):
        return z3.ForAll(vs, body)
    try:
        return z3.ForAll(vs, body, patterns=pats)
    except z3.Z3Exception:
        return z3.ForAll(vs, body)


class Sel(object):
    """Selector for one source axis. kind: 'fix' (index idx) | 'map' (result axis of length n,
    source index = fn(r)) ; adv marks advanced (list/array) selectors."""

    def __init__(self, kind, idx=None, n=None, fn=None, adv=False, mask=None):
        self.kind = kind
        self.idx = idx
        self.n = n
        self.fn = fn
        self.adv = adv
        self.mask = mask


def memo_fn(f):
    """content function with a per-index memo (the index terms are kept alive so that their ids stay unique)"""
    cache = {}

    def g(*idx):
        key = tuple(x.get_id() if hasattr(x, 'get_id') else x for x in idx)
        hit = cache.get(key)
        if hit is not None:
            return hit[1]
        r = f(*idx)
        cache[key] = (idx, r)
        return r
    return g


def mentions_new_symbol(e, before, after):
    """does e mention a symbol that the context handed out between the two snapshots of its name counters?"""
    stack = [e]
    seen = set()
    while stack:
        x = stack.pop()
        i = x.get_id()
        if i in seen:
            continue
        seen.add(i)
        if z3.is_quantifier(x):
            stack.append(x.body())
            continue
        if z3.is_app(x):
            if x.decl().kind() == z3.Z3_OP_UNINTERPRETED:
                nm = x.decl().name()
                base, _, num = nm.rpartition('!')
                if not base or not num.isdigit():
                    base, kx = nm, 0
                else:
                    kx = int(num)
                if base in after and before.get(base, 0) <= kx < after[base]:
                    return True
            stack.extend(x.children())
    return False


class GridState(object):
    """content of an object array whose cells are Python lists (density2d's H_events): after the scatter loop
    'for e, a, b in zip(ev, xb, yb): G[a, b].append(e)' cell (a, b) holds exactly the e_k with (xb_k, yb_k) == (a, b)"""

    def __init__(self):
        self.initialised = False
        self.members = None      # (n, ev(k), xb(k), yb(k)) as functions of a z3 index


class NumpyModel(object):
    def __init__(self, I):
        self.I = I
        self.table = {}
        self.register()

    # ------------------------------------------------------------------ helpers
    def ax(self, name):
        self.I.ctx.use_axiom('numpy:' + name)

    def zi(self, v):
        return self.I.z(v, 'int')

    def dim_val(self, d):
        """shape entry -> python int or SV int"""
        if isinstance(d, int):
            return d
        return self.I.mk(d, 'int')

    def dim_z(self, d):
        return z3.IntVal(d) if isinstance(d, int) else d

    def new(self, shape, dtype, fn, like=None, cls=None, finalize_from=None):
        from .interp import stamp
        shape = [s if isinstance(s, int) else self.norm_dim(s) for s in shape]
        a = stamp(NDArr(shape, dtype, fn, cls or 'ndarray'))
        if finalize_from is not None and finalize_from.cls == 'FCSData' and (cls or 'ndarray') == 'FCSData':
            a.cls = 'FCSData'
            a.attrs = None           # lazily produced by FCSData.__array_finalize__
            a.lazy_src = finalize_from
        return a

    def norm_dim(self, s):
        if isinstance(s, SV):
            s = s.z
        s = z3.simplify(s)
        if z3.is_int_value(s):
            return s.as_long()
        return s

    def ensure_attrs(self, a):
        """run the real FCSData.__array_finalize__ for an array created by NumPy from `lazy_src`"""
        if a.attrs is None:
            src = a.lazy_src
            a.attrs = {}
            a.lazy_src = None
            m = self.I.fcs_method('__array_finalize__')
            if m is None:
                raise Unsupported('FCSData.__array_finalize__ not found')
            saved = self.I.pure_since
            self.I.pure_since = None
            try:
                self.I.call(m, [a, src], {})
            finally:
                self.I.pure_since = saved
        return a.attrs

    def ensure_attrs_with(self, a, fin):
        if a.attrs is None:
            src = a.lazy_src
            a.attrs = {}
            a.lazy_src = None
            fin(a, src)
        return a.attrs

    def scalar(self, e, dtype):
        k = ZK[dtype]
        v = self.I.mk(e, k, True)
        if isinstance(v, SV):
            v.np = True
        else:
            # literal: keep the numpy flavour (isinstance(x, int) is False for numpy integers)
            v = SV(self.I.z(v), k, True)
        return v

    def elem_sv(self, a, *idx):
        return SV(a.fn(*idx), ZK[a.dtype], True)

    def as_array(self, v, dtype=None):
        """array-like -> NDArr (np.array semantics for lists of scalars / lists of lists)"""
        I = self.I
        v = I.force(v)
        if isinstance(v, NDArr):
            return v
        if isinstance(v, Poison):
            raise Unsupported('use of a havocked loop variable')
        if isinstance(v, (Seq,)) and v.items and all(isinstance(x, (Seq, NDArr)) for x in v.items):
            rows = [self.as_array(x) for x in v.items]
            n = len(rows)
            if any(r.ndim != 1 for r in rows):
                raise Unsupported('np.array of nested sequences deeper than 2')
            m = rows[0].shape[0]
            for r in rows[1:]:
                if not zeq(r.shape[0], m):
                    raise Unsupported('ragged nested sequence')
            dt = self.join_dtype([r.dtype for r in rows])
            rfns = [r.fn for r in rows]

            def fn(i, j, rows=rows, dt=dt, rfns=rfns):
                e = self.cast(rfns[-1](j), rows[-1].dtype, dt)
                for k in range(len(rows) - 2, -1, -1):
                    e = z3.If(i == k, self.cast(rfns[k](j), rows[k].dtype, dt), e)
                return e
            return self.new([n, m], dt, fn)
        if isinstance(v, Seq):
            items = v.items
            if any(isinstance(x, Inf) for x in items):
                return self.xarray_from_items(items)
            kinds = [I.kind(x) for x in items]
            if any(k not in ('int', 'real', 'bool') for k in kinds):
                if any(x is None for x in items) and dtype == 'float':
                    raise Unsupported('np.array(None entries, dtype=float): NaN not modelled')
                raise Unsupported('np.array of non-numeric items (%s)' % sorted(set(kinds)))
            dt = self.join_dtype([{'int': 'int', 'real': 'float', 'bool': 'bool'}[k] for k in kinds]) if items else 'float'
            if dtype:
                dt = dtype
            zs = [self.cast(I.z(x), {'int': 'int', 'real': 'float', 'bool': 'bool'}[k], dt) for x, k in zip(items, kinds)]

            def fn(i, zs=zs, dt=dt):
                if not zs:
                    return self.zero(dt)
                e = zs[-1]
                for k in range(len(zs) - 2, -1, -1):
                    e = z3.If(i == k, zs[k], e)
                return e
            return self.new([len(items)], dt, fn)
        if isinstance(v, (SymSeq, RangeV)):
            if isinstance(v, RangeV):
                v = I.range_to_symseq(v)
            return self.array_from_symseq(v, dtype)
        if I.is_number(v):
            k = I.kind(v)
            dt = {'int': 'int', 'real': 'float', 'bool': 'bool'}[k]
            e = I.z(v)
            return self.new([], dtype or dt, lambda e=e, dt=dt, dtype=dtype: self.cast(e, dt, dtype or dt))
        if isinstance(v, Inf):
            return self.xarray_from_items([v], scalar=True)
        raise Unsupported('np.array of %s' % type(v).__name__)

    def array_from_symseq(self, s, dtype=None):
        """1-D array from an element-wise closure; element kinds found by exploring one symbolic element."""
        I = self.I
        k = I.ctx.fresh_int('arr_k')
        n = I.z(s.n, 'int')
        names_before = dict(I.ctx.names)
        res = I.sub_explore(lambda: I.seq_get_sym(s, k), [0 <= k, k < n])
        # an element whose computation introduces fresh symbols (filter counts, statistics, ...) is not a term in k: the
        # symbols of the explored element would be shared by all elements.  Such arrays get uninterpreted contents; the
        # defining equation can be instantiated at a given index with link_element().
        gen = False
        for r in res:
            exprs = list(r.pc_suffix or [])
            if r.outcome != 'raise' and I.is_number(r.value) and not isinstance(r.value, (int, float, bool)):
                try:
                    exprs.append(I.z(r.value))
                except Exception:
                    pass
            for e_ in exprs:
                if mentions_new_symbol(e_, names_before, I.ctx.names):
                    gen = True
        if gen and res and all(r.outcome != 'raise' and I.is_number(r.value) for r in res):
            # the same value on every path, and that value free of generated symbols: the case split does not matter
            try:
                z0 = I.z(res[0].value)
                if all(z3.eq(I.z(r.value), z0) for r in res[1:]) and not mentions_new_symbol(z0, names_before, I.ctx.names):
                    gen = False
                    res = [res[0]]
                    res[0].pc_suffix = []
            except Exception:
                pass
        if gen:
            kinds_ = set(I.kind(r.value) for r in res if r.outcome != 'raise')
            if any(r.outcome == 'raise' for r in res) or not kinds_ <= {'int', 'real', 'bool'}:
                raise Unsupported('array from generated structured elements')
            dt_ = dtype or ('float' if 'real' in kinds_ else ('int' if 'int' in kinds_ else 'bool'))
            g = I.ctx.fresh_fn('elem', z3.IntSort(), {'float': z3.RealSort(), 'int': z3.IntSort(), 'uint': z3.IntSort(), 'bool': z3.BoolSort()}[dt_])
            out = self.new([s.n if isinstance(s.n, int) else n], dt_, lambda i, g=g: g(i))
            out.elem_fn = g
            out.elem_src = I.snapshot(s)
            self.ax('array built from generated elements: contents uninterpreted, defining equation instantiated on demand')
            return out
        cases = []
        has_inf = False
        kinds = set()
        for r in res:
            if r.outcome == 'raise':
                raise Unsupported('array from elements that may raise')
            c = z3.And(*r.pc_suffix) if r.pc_suffix else z3.BoolVal(True)
            v = r.value
            if isinstance(v, Inf):
                has_inf = True
                cases.append((c, v))
            elif I.is_number(v):
                kinds.add(I.kind(v))
                cases.append((c, v))
            else:
                raise Unsupported('array from structured elements (%s)' % type(v).__name__)
        if not cases:
            raise PathAbort('empty element exploration')
        if has_inf:
            def xfn(i, cases=cases, k=k):
                sign = z3.IntVal(0)
                val = z3.RealVal(0)
                for c, v in reversed(cases):
                    ci = z3.substitute(c, (k, i))
                    if isinstance(v, Inf):
                        sign = z3.If(ci, z3.IntVal(v.sign), sign)
                    else:
                        sign = z3.If(ci, z3.IntVal(0), sign)
                        val = z3.If(ci, z3.substitute(I.z(v, 'real'), (k, i)), val)
                return (z3.simplify(sign), z3.simplify(val))
            return self.new([s.n if isinstance(s.n, int) else n], 'xfloat', xfn)
        dt = 'float' if 'real' in kinds else ('int' if 'int' in kinds else 'bool')
        if dtype:
            dt = dtype
        want = ZK[dt]

        def fn(i, cases=cases, k=k, want=want):
            e = None
            for c, v in reversed(cases):
                ve = z3.substitute(I.z(v, want if want != 'bool' else None), (k, i))
                e = ve if e is None else z3.If(z3.substitute(c, (k, i)), ve, e)
            return e
        return self.new([s.n if isinstance(s.n, int) else n], dt, fn)

    def link_element(self, arr, k0):
        """defining equation of a generated-element array at index k0 (a ground term): arr[k0] == the element computed for k0"""
        I = self.I
        g = getattr(arr, 'elem_fn', None)
        if g is None:
            return
        v = I.seq_get_sym(arr.elem_src, k0)
        I.ctx.assume(g(k0) == I.z(v, {'float': 'real', 'int': 'int', 'uint': 'int', 'bool': 'bool'}[arr.dtype]))
        return v

    def xarray_from_items(self, items, scalar=False):
        I = self.I
        pairs = []
        for x in items:
            if isinstance(x, Inf):
                pairs.append((z3.IntVal(x.sign), z3.RealVal(0)))
            elif I.is_number(x):
                pairs.append((z3.IntVal(0), I.z(x, 'real')))
            else:
                raise Unsupported('array of mixed non-numeric items')

        def fn(*idx):
            if scalar:
                return pairs[0]
            i = idx[0]
            s, v = pairs[-1]
            for k in range(len(pairs) - 2, -1, -1):
                s = z3.If(i == k, pairs[k][0], s)
                v = z3.If(i == k, pairs[k][1], v)
            return (s, v)
        return self.new([] if scalar else [len(items)], 'xfloat', fn)

    def join_dtype(self, dts):
        if 'xfloat' in dts:
            return 'xfloat'
        if 'float' in dts:
            return 'float'
        if 'int' in dts or 'uint' in dts:
            if 'uint' in dts and 'int' not in dts:
                return 'uint'
            return 'int'
        return 'bool'

    def zero(self, dt):
        return {'bool': z3.BoolVal(False), 'int': z3.IntVal(0), 'uint': z3.IntVal(0), 'float': z3.RealVal(0)}[dt]

    def cast(self, e, frm, to, bits=None):
        if frm == to or to is None:
            if to == 'uint' and bits:
                return e % z3.IntVal(2 ** bits)
            return e
        if to == 'float':
            if frm in ('int', 'uint'):
                return z3.ToReal(e)
            if frm == 'bool':
                return z3.If(e, z3.RealVal(1), z3.RealVal(0))
        if to in ('int', 'uint'):
            if frm == 'bool':
                return z3.If(e, z3.IntVal(1), z3.IntVal(0))
            if frm in ('int', 'uint'):
                if to == 'uint' and bits:
                    return e % z3.IntVal(2 ** bits)
                return e
            if frm == 'float':
                self.ax('float->int cast truncates toward zero')
                return z3.If(e >= 0, z3.ToInt(e), -z3.ToInt(-e))
        if to == 'bool':
            if frm in ('int', 'uint'):
                return e != 0
            if frm == 'float':
                return e != 0
        raise Unsupported('cast %s -> %s' % (frm, to))

    # ------------------------------------------------------------------ broadcasting
    def broadcast(self, arrs):
        """-> (shape, [index adapters])"""
        from .interp import raise_py
        nd = max(a.ndim for a in arrs)
        shape = []
        plans = [[] for _ in arrs]
        for ax in range(nd):
            dims = []
            for a in arrs:
                off = ax - (nd - a.ndim)
                dims.append(a.shape[off] if off >= 0 else None)
            cand = None
            cand_js = []
            zero_js = set()
            for j_, d in enumerate(dims):
                if d is None or (isinstance(d, int) and d == 1):
                    continue
                if cand is None:
                    cand = d
                    cand_js = [j_]
                elif zeq(cand, d):
                    cand_js.append(j_)
                else:
                    if isinstance(cand, int) and isinstance(d, int):
                        raise_py('ValueError', 'operands could not be broadcast together')
                    if self.I.ctx.branch(self.dim_z(cand) == self.dim_z(d)):
                        cand_js.append(j_)
                    elif self.I.ctx.branch(self.dim_z(cand) == 1):
                        # the dimension seen so far has (symbolic) size 1: it is stretched
                        zero_js.update(cand_js)
                        cand = d
                        cand_js = [j_]
                    elif self.I.ctx.branch(self.dim_z(d) == 1):
                        zero_js.add(j_)
                    else:
                        raise_py('ValueError', 'operands could not be broadcast together')
            if cand is None:
                cand = 1
            shape.append(cand)
            for j_, (p, d) in enumerate(zip(plans, dims)):
                if d is None:
                    p.append(None)
                elif j_ in zero_js or (isinstance(d, int) and d == 1 and not (isinstance(cand, int) and cand == 1)):
                    p.append('zero')
                else:
                    p.append('id')
        def adapter(plan):
            def f(idx):
                out = []
                for p, i in zip(plan, idx):
                    if p is None:
                        continue
                    out.append(z3.IntVal(0) if p == 'zero' else i)
                return out
            return f
        return shape, [adapter(p) for p in plans]

    def result_cls(self, arrs):
        for a in arrs:
            if a.cls == 'FCSData':
                return a
        return None

    def binop(self, op, a, b):
        I = self.I
        A, B = self.as_array(a), self.as_array(b)
        if A.dtype == 'xfloat' or B.dtype == 'xfloat':
            raise Unsupported('arithmetic on arrays containing infinity')
        if A.dtype == 'object' or B.dtype == 'object':
            raise Unsupported('arithmetic on object arrays')
        shape, (fa, fb) = self.broadcast([A, B])
        ka, kb = ZK[A.dtype], ZK[B.dtype]
        Afn, Bfn = A.fn, B.fn          # operands are read now
        if op in ('BitAnd', 'BitOr', 'BitXor') and A.dtype == 'bool' and B.dtype == 'bool':
            zf = {'BitAnd': z3.And, 'BitOr': z3.Or, 'BitXor': z3.Xor}[op]
            fn = lambda *idx: zf(Afn(*fa(idx)), Bfn(*fb(idx)))
            return self.finish(shape, 'bool', fn, [A, B])
        # python scalars do not upcast integer arrays to float unless they are floats themselves
        if op == 'Div':
            dt = 'float'
        elif A.dtype == 'float' or B.dtype == 'float':
            dt = 'float'
        elif op == 'Pow' and (kb == 'real'):
            dt = 'float'
        else:
            dt = 'uint' if (A.dtype == 'uint' or B.dtype == 'uint') and 'int' not in (A.dtype, B.dtype) else 'int'
            if 'uint' in (A.dtype, B.dtype) and (not isinstance(a, NDArr) or not isinstance(b, NDArr)):
                dt = 'uint'      # python int scalar adopts the array's dtype (NEP 50)
        bits = None
        if dt == 'uint':
            bits = max([x.bits or 0 for x in (A, B) if x.dtype == 'uint'] or [0]) or None
        extra = {}
        if op == 'BitAnd' and isinstance(b, SV):
            extra['mask'] = b

        def fn(*idx):
            x = SV(Afn(*fa(idx)), ka, True)
            if extra.get('mask') is not None:
                y = extra['mask']
                y2 = SV(y.z, y.kind, True)
                if hasattr(y, 'mask_bits'):
                    y2.mask_bits = y.mask_bits
            else:
                y2 = SV(Bfn(*fb(idx)), kb, True)
            r = I.binop(op, x, y2)
            e = I.z(r, ZK[dt])
            if dt == 'uint' and bits and op in ('Add', 'Sub', 'Mult', 'LShift'):
                e = e % z3.IntVal(2 ** bits)
            return e
        out = self.finish(shape, dt, fn, [A, B])
        out.bits = bits
        return out

    def finish(self, shape, dt, fn, srcs):
        src = self.result_cls(srcs)
        if src is not None:
            return self.new(shape, dt, fn, cls='FCSData', finalize_from=src)
        return self.new(shape, dt, fn)

    def compare(self, op, a, b):
        I = self.I
        A, B = self.as_array(a), self.as_array(b)
        shape, (fa, fb) = self.broadcast([A, B])
        Afn, Bfn = A.fn, B.fn
        if A.dtype == 'xfloat' or B.dtype == 'xfloat':
            def ext(arr, f, idx):
                if arr.dtype == 'xfloat':
                    return f(*idx)
                return (z3.IntVal(0), self.cast(f(*idx), arr.dtype, 'float'))

            def fn(*idx):
                (sa, va), (sb, vb) = ext(A, Afn, fa(idx)), ext(B, Bfn, fb(idx))
                fin = z3.And(sa == 0, sb == 0)
                lt = z3.If(fin, va < vb, sa < sb)
                gt = z3.If(fin, va > vb, sa > sb)
                eq = z3.If(fin, va == vb, sa == sb)
                return {'Lt': lt, 'Gt': gt, 'LtE': z3.Or(lt, eq), 'GtE': z3.Or(gt, eq), 'Eq': eq, 'NotEq': z3.Not(eq)}[op]
            self.ax('comparison with +-inf follows the extended order')
            return self.finish(shape, 'bool', fn, [A, B])
        num = A.dtype == 'float' or B.dtype == 'float'
        w = 'float' if num else ('bool' if A.dtype == 'bool' and B.dtype == 'bool' else 'int')

        def fn(*idx):
            x = self.cast(Afn(*fa(idx)), A.dtype, w)
            y = self.cast(Bfn(*fb(idx)), B.dtype, w)
            if w == 'bool' and op not in ('Eq', 'NotEq'):
                x, y = self.cast(x, 'bool', 'int'), self.cast(y, 'bool', 'int')
            return {'Lt': lambda: x < y, 'Gt': lambda: x > y, 'LtE': lambda: x <= y, 'GtE': lambda: x >= y,
                    'Eq': lambda: x == y, 'NotEq': lambda: x != y}[op]()
        return self.finish(shape, 'bool', fn, [A, B])

    def unop(self, op, a):
        af = a.fn
        if op == 'Invert':
            if a.dtype == 'bool':
                return self.finish(a.shape, 'bool', lambda *idx: z3.Not(af(*idx)), [a])
            raise Unsupported('~ on a non-boolean array')
        if op == 'USub':
            if a.dtype in ('int', 'float'):
                return self.finish(a.shape, a.dtype, lambda *idx: -af(*idx), [a])
        if op == 'UAdd':
            return a
        if op == 'Not':
            raise Unsupported('not on an array')
        raise Unsupported('unary %s on %s array' % (op, a.dtype))

    def concrete_values(self, a, cap=64):
        """python numbers of a small array with concrete shape whose entries are numerals, else None"""
        if a.ndim != 1 or not isinstance(a.shape[0], int) or a.shape[0] > cap or a.dtype not in ('int', 'uint', 'float'):
            return None
        out = []
        for i in range(a.shape[0]):
            e = z3.simplify(a.fn(z3.IntVal(i)))
            if z3.is_int_value(e):
                out.append(e.as_long())
            elif z3.is_rational_value(e):
                out.append(fractions.Fraction(e.numerator_as_long(), e.denominator_as_long()))
            else:
                return None
        return out

    def ufunc1(self, name, a):
        from . import interp as M
        I = self.I
        a = self.as_array(a)
        af = a.fn
        I.real_axioms()
        if name in ('log2', 'ceil', 'floor'):
            vals = self.concrete_values(a)
            if vals is not None and (name != 'log2' or all(v > 0 for v in vals)):
                # numerals: evaluated (log2 exactly for powers of two, otherwise only when followed by ceil/floor of a value
                # that is not within 1e-9 of an integer -- bit widths)
                import math as _math
                res = []
                ok = True
                for v in vals:
                    if name == 'log2':
                        if isinstance(v, int) and v & (v - 1) == 0:
                            res.append(z3.RealVal(v.bit_length() - 1))
                        else:
                            lg = _math.log2(float(v))
                            if abs(lg - round(lg)) < 1e-9:
                                ok = False
                                break
                            # kept symbolic-free but inexact: a rational enclosure is enough for the ceil/floor that follows
                            res.append(z3.RealVal(str(fractions.Fraction(lg).limit_denominator(10 ** 9))))
                    else:
                        fv = _math.ceil(v) if name == 'ceil' else _math.floor(v)
                        res.append(z3.RealVal(fv))
                if ok:
                    self.ax('A-REAL:%s of numerals evaluated (log2 of a non-power of two as a rational enclosure, only used under ceil/floor)' % name)

                    def cfn(i, res=res):
                        e = res[-1]
                        for k_ in range(len(res) - 2, -1, -1):
                            e = z3.If(i == k_, res[k_], e)
                        return e
                    return self.new([len(res)], 'float', cfn)
        f = {'log10': M.log10, 'log': M.flog, 'exp': M.fexp, 'sqrt': M.fsqrt, 'cos': M.fcos, 'sin': M.fsin,
             'log2': M.flog2}.get(name)
        if name == 'abs':
            def fn(*idx):
                e = af(*idx)
                return z3.If(e < 0, -e, e)
            return self.finish(a.shape, a.dtype, fn, [a])
        if name in ('ceil', 'floor'):
            g = M.fceil if name == 'ceil' else M.ffloor
            self.ceil_axioms()
            out = self.finish(a.shape, 'float', lambda *idx: z3.ToReal(g(self.cast(af(*idx), a.dtype, 'float'))), [a])
            out.int_valued_fn = lambda *idx: g(self.cast(af(*idx), a.dtype, 'float'))
            return out
        if f is None:
            raise Unsupported('ufunc %s' % name)
        self.ax('A-REAL:%s uninterpreted' % name)
        return self.finish(a.shape, 'float', lambda *idx: f(self.cast(af(*idx), a.dtype, 'float')), [a])

    def ceil_axioms(self):
        from . import interp as M
        if getattr(self.I.ctx, '_ceil_ax', False):
            return
        self.I.ctx._ceil_ax = True
        x = z3.Real('ax_cx')
        self.I.ctx.add_axiom(z3.ForAll([x], z3.And(z3.ToReal(M.fceil(x)) - 1 < x, x <= z3.ToReal(M.fceil(x))),
                                       patterns=[M.fceil(x)]), 'A-REAL:ceil(x)-1 < x <= ceil(x)')
        self.I.ctx.add_axiom(z3.ForAll([x], z3.And(z3.ToReal(M.ffloor(x)) <= x, x < z3.ToReal(M.ffloor(x)) + 1),
                                       patterns=[M.ffloor(x)]), 'A-REAL:floor(x) <= x < floor(x)+1')

    def inplace(self, op, cur, rhs, target_dtype_of=None):
        """cur op= rhs : result keeps cur's dtype (wraps for fixed-width unsigned)"""
        r = self.binop(op, cur, rhs)
        tgt = target_dtype_of if target_dtype_of is not None else cur
        if r.dtype != tgt.dtype or (tgt.dtype == 'uint' and tgt.bits):
            rr = r
            if r.dtype == 'float' and tgt.dtype in ('int', 'uint'):
                from .interp import raise_py
                raise_py('TypeError', "Cannot cast ufunc output from float64 to integer with casting rule 'same_kind'")
            bits = tgt.bits
            rrf = rr.fn
            out = self.finish(r.shape, tgt.dtype, lambda *idx: self.cast(rrf(*idx), rr.dtype, tgt.dtype, bits), [cur])
            out.bits = bits
            return out
        return r

    def contains(self, arr, item):
        raise Unsupported("'in' on an array")

    # ------------------------------------------------------------------ indexing
    def parse_key(self, arr, key):
        """-> list of Sel, one per source axis (after expanding Ellipsis), plus newaxis positions"""
        I = self.I
        from .interp import raise_py
        if isinstance(key, Seq) and key.kind == 'tuple':
            parts = list(key.items)
        else:
            parts = [key]
        n_ell = sum(1 for p in parts if isinstance(p, EllipsisV))
        if n_ell > 1:
            raise_py('IndexError', "an index can only have a single ellipsis ('...')")
        def consumes(p):
            if p is None:
                return 0
            if isinstance(p, NDArr) and p.dtype == 'bool':
                return p.ndim
            return 1
        used = sum(consumes(p) for p in parts if not isinstance(p, EllipsisV))
        if used > arr.ndim:
            raise_py('IndexError', 'too many indices for array')
        full = []
        for p in parts:
            if isinstance(p, EllipsisV):
                full.extend([SliceV(None, None, None)] * (arr.ndim - used))
            else:
                full.append(p)
        while sum(consumes(p) for p in full) < arr.ndim:
            full.append(SliceV(None, None, None))
        sels = []
        ax = 0
        for p in full:
            if p is None:
                sels.append(Sel('new'))
                continue
            dim = arr.shape[ax]
            dz = self.dim_z(dim)
            if isinstance(p, SliceV):
                sels.append(self.slice_sel(p, dim))
            elif isinstance(p, bool) or (isinstance(p, SV) and p.kind == 'bool'):
                raise Unsupported('boolean scalar index')
            elif I.kind(p) == 'int':
                pz = I.z(p, 'int')
                if isinstance(p, int) and isinstance(dim, int):
                    if not (-dim <= p < dim):
                        raise_py('IndexError', 'index %d is out of bounds for axis %d with size %d' % (p, ax, dim))
                    sels.append(Sel('fix', idx=z3.IntVal(p % dim)))
                else:
                    if not I.ctx.branch(z3.And(-dz <= pz, pz < dz), safety=False):
                        raise_py('IndexError', 'index out of bounds for axis %d' % ax)
                    if isinstance(p, int):
                        sels.append(Sel('fix', idx=z3.simplify(pz + dz if p < 0 else pz)))
                    else:
                        sels.append(Sel('fix', idx=z3.simplify(z3.If(pz < 0, pz + dz, pz))))
            elif isinstance(p, NDArr) and p.dtype == 'bool':
                if p.ndim != 1:
                    raise Unsupported('multi-dimensional boolean mask')
                if not zeq(p.shape[0], dim):
                    if isinstance(p.shape[0], int) and isinstance(dim, int):
                        raise_py('IndexError', 'boolean index did not match indexed array')
                    if not I.ctx.branch(self.dim_z(p.shape[0]) == dz):
                        raise_py('IndexError', 'boolean index did not match indexed array')
                sels.append(self.mask_sel(p, dim))
            elif isinstance(p, NDArr) and p.dtype in ('int', 'uint'):
                if p.ndim != 1:
                    raise Unsupported('multi-dimensional integer index array')
                sels.append(self.intarr_sel(lambda r, pf=p.fn: pf(r), p.shape[0], dim, ax))
            elif isinstance(p, (Seq, SymSeq, RangeV)):
                sels.append(self.seq_sel(p, dim, ax))
            elif I.kind(p) == 'real':
                raise_py('IndexError', 'only integers, slices (`:`), ellipsis (`...`), numpy.newaxis (`None`) and integer or boolean arrays are valid indices')
            elif I.kind(p) == 'str':
                raise_py('IndexError', 'only integers, slices (`:`), ellipsis (`...`), numpy.newaxis (`None`) and integer or boolean arrays are valid indices')
            else:
                raise Unsupported('index of type %s' % type(p).__name__)
            ax += 1
        return sels

    def slice_sel(self, sl, dim):
        I = self.I
        if sl.step is not None and sl.step != 1:
            st = sl.step
            if isinstance(st, int) and st != 0 and isinstance(dim, int) and all(v is None or isinstance(v, int) for v in (sl.start, sl.stop)):
                idxs = list(range(dim))[slice(sl.start, sl.stop, st)]
                return self.const_list_sel(idxs, adv=False)
            if isinstance(st, int) and st == -1 and sl.start is None and sl.stop is None:
                dz = self.dim_z(dim)
                return Sel('map', n=dim, fn=lambda r, dz=dz: dz - 1 - r)
            if isinstance(st, int) and st > 1 and (sl.start is None or sl.start == 0) and sl.stop is None:
                dz = self.dim_z(dim)
                n = I.mk((dz + (st - 1)) / st, 'int')
                return Sel('map', n=self.norm_dim(n), fn=lambda r, st=st: r * st)
            if isinstance(st, int) and st > 1 and isinstance(sl.start, int) and sl.start > 0 and sl.stop is None:
                dz = self.dim_z(dim)
                a0 = sl.start
                n = z3.If(dz > a0, (dz - a0 + (st - 1)) / st, z3.IntVal(0))
                return Sel('map', n=self.norm_dim(z3.simplify(n)), fn=lambda r, st=st, a0=a0: a0 + r * st)
            raise Unsupported('extended slice with symbolic bounds')
        if sl.start is None and sl.stop is None:
            s_ = Sel('map', n=dim, fn=lambda r: r)
            s_.full = True
            return s_
        a, b = I.slice_indices(sl, self.dim_val(dim))
        if isinstance(a, int) and isinstance(b, int):
            n = max(0, b - a)
            return Sel('map', n=n, fn=lambda r, a=a: r + a)
        az, bz = I.z(a, 'int'), I.z(b, 'int')
        n = z3.simplify(z3.If(bz - az < 0, z3.IntVal(0), bz - az))
        return Sel('map', n=self.norm_dim(n), fn=lambda r, az=az: r + az)

    def const_list_sel(self, idxs, adv=True):
        def fn(r, idxs=idxs):
            if not idxs:
                return z3.IntVal(0)
            e = z3.IntVal(idxs[-1])
            for k in range(len(idxs) - 2, -1, -1):
                e = z3.If(r == k, z3.IntVal(idxs[k]), e)
            return e
        return Sel('map', n=len(idxs), fn=fn, adv=adv)

    def mask_sel(self, mask, dim):
        """boolean mask on one axis: order-preserving filter with symbolic count"""
        I = self.I
        ctx = I.ctx
        self.ax('boolean-mask indexing = order-preserving filter (count/sel/rank)')
        dz = self.dim_z(dim)
        cache = getattr(ctx, '_mask_cache', None)
        if cache is None:
            cache = ctx._mask_cache = {}
        key = self.content_key(mask)
        import os
        if os.environ.get('DBG_MASK'):
            print('MASKKEY', hash(key), key[0][:200].replace('\n', ' '), key[1])
        hit = cache.get(key)
        if hit is not None:
            return hit[1]          # the same mask contents always enumerate the same rows
        s_ = self._mask_sel(mask, dim, dz)
        cache[key] = (mask.root()._fn, s_)     # keeps the function object alive (ids stay unique)
        return s_

    def content_key(self, a):
        # the mask's contents as a term: equal terms are equal masks, so they enumerate the same rows
        probe = z3.Int('ck_probe')
        return (a.fn(probe).sexpr(), self.dim_z(a.shape[0]).sexpr())

    def _mask_sel(self, mask, dim, dz):
        I = self.I
        ctx = I.ctx
        mfn = mask.fn
        if isinstance(dim, int) and dim <= 8:
            # concrete small: explicit prefix counts
            flags = [mfn(z3.IntVal(i)) for i in range(dim)]
            cnt = z3.Sum([z3.If(f, 1, 0) for f in flags]) if flags else z3.IntVal(0)
            sel = ctx.fresh_fn('sel', z3.IntSort(), z3.IntSort())
            for i in range(dim):
                before = z3.Sum([z3.If(f, 1, 0) for f in flags[:i]]) if i else z3.IntVal(0)
                ctx.assume(z3.Implies(flags[i], sel(before) == i))
            s = Sel('map', n=self.norm_dim(cnt), fn=lambda r, sel=sel: sel(r), adv=True, mask=mask)
            s.mask_fn = mfn
            return s
        cnt = ctx.fresh_int('cnt')
        sel = ctx.fresh_fn('sel', z3.IntSort(), z3.IntSort())
        rank = ctx.fresh_fn('rank', z3.IntSort(), z3.IntSort())
        ctx.assume(z3.And(0 <= cnt, cnt <= dz))
        r, r2, i = z3.Ints('flt_r flt_r2 flt_i')
        # triggers are chosen so that no instance creates a term that triggers another axiom of the group again
        # (sel(r) -> rank(sel(r)) -> sel(rank(sel(r))) ... would be a matching loop whenever the range guards are undetermined)
        ctx.assume(z3.ForAll([r], z3.Implies(z3.And(0 <= r, r < cnt),
                                             z3.And(0 <= sel(r), sel(r) < dz, mfn(sel(r)))),
                             patterns=[sel(r)]))
        ctx.assume(z3.ForAll([r], z3.Implies(z3.And(0 <= r, r < cnt), rank(sel(r)) == r), patterns=[rank(sel(r))]))
        ctx.assume(z3.ForAll([r, r2], z3.Implies(z3.And(0 <= r, r < r2, r2 < cnt), sel(r) < sel(r2)),
                             patterns=[z3.MultiPattern(sel(r), sel(r2))]))
        ctx.assume(z3.ForAll([i], z3.Implies(z3.And(0 <= i, i < dz, mfn(i)),
                                             z3.And(0 <= rank(i), rank(i) < cnt, sel(rank(i)) == i)),
                             patterns=[rank(i)]))
        s = Sel('map', n=cnt, fn=lambda r_, sel=sel: sel(r_), adv=True, mask=mask)
        s.cnt, s.sel, s.rank = cnt, sel, rank
        s.mask_fn = mfn
        return s

    def named_fn(self, f, sort=None):
        """a one-argument content function under a name of its own: g with the definitional axiom  forall r. g(r) == f(r)
        triggered on g(r).  Quantifiers that talk about the content then get the arithmetic-free trigger g(k); a trigger such
        as P(M-1-k) makes z3 invert the arithmetic and instantiate on every integer term in sight (a matching loop).
        A function that already is an uninterpreted symbol applied to its argument is returned as it is."""
        ctx = self.I.ctx
        probe = z3.Int('nm_probe')
        e = f(probe)
        es = z3.simplify(e)
        if z3.is_app(es) and es.decl().kind() == z3.Z3_OP_UNINTERPRETED and es.num_args() == 1 and z3.eq(es.arg(0), probe):
            return lambda t, d_=es.decl(): d_(t)
        cache = getattr(ctx, '_named_cache', None)
        if cache is None:
            cache = ctx._named_cache = {}
        key = e.sexpr()
        if key in cache:
            return cache[key][0]
        g = ctx.fresh_fn('idx', z3.IntSort(), e.sort())
        r = z3.Int('nm_r')
        ctx.assume(z3.ForAll([r], g(r) == f(r), patterns=[g(r)]))
        gf = lambda t, g=g: g(t)
        cache[key] = (gf, e)
        return gf

    def intarr_sel(self, f, n, dim, ax):
        """integer index array/list on one axis: every entry must be in range"""
        from .interp import raise_py
        I = self.I
        dz = self.dim_z(dim)
        nz = self.dim_z(n) if not isinstance(n, SV) else n.z
        if not isinstance(n, int):
            f = self.named_fn(f)
        # the bounds check is deferred (check_adv): NumPy checks the entries of an index array only if the broadcast of all
        # index arrays of the key is not empty -- a[[5], []] is an empty selection, not an error
        if isinstance(n, int):
            bads = [z3.Not(z3.And(-dz <= f(z3.IntVal(k)), f(z3.IntVal(k)) < dz)) for k in range(n)]
            bad = z3.Or(*bads) if bads else z3.BoolVal(False)
        else:
            k = I.ctx.fresh_int('ia_k')
            bad = z3.Exists([k], z3.And(0 <= k, k < nz, z3.Not(z3.And(-dz <= f(k), f(k) < dz))), patterns=[f(k)])
        s_ = Sel('map', n=self.norm_dim(n) if not isinstance(n, int) else n,
                 fn=lambda r, f=f, dz=dz: z3.If(f(r) < 0, f(r) + dz, f(r)), adv=True)
        s_.raw = f
        s_.bad = bad
        s_.bad_axis = ax
        return s_

    def seq_sel(self, p, dim, ax):
        from .interp import raise_py
        I = self.I
        if isinstance(p, Seq):
            items = p.items
            if not items:
                return Sel('map', n=0, fn=lambda r: z3.IntVal(0), adv=True)
            kinds = set(I.kind(x) for x in items)
            if kinds <= {'bool'}:
                m = self.as_array(p)
                if not zeq(m.shape[0], dim):
                    if isinstance(dim, int):
                        raise_py('IndexError', 'boolean index did not match indexed array along axis %d' % ax)
                    if not I.ctx.branch(self.dim_z(dim) == len(items)):
                        raise_py('IndexError', 'boolean index did not match indexed array along axis %d' % ax)
                return self.mask_sel(m, dim)
            if kinds <= {'int', 'bool'}:
                zs = [I.z(x, 'int') for x in items]

                def f(r, zs=zs):
                    e = zs[-1]
                    for k in range(len(zs) - 2, -1, -1):
                        e = z3.If(r == k, zs[k], e)
                    return e
                return self.intarr_sel(f, len(items), dim, ax)
            if any(isinstance(x, (Seq, NDArr)) for x in items):
                raise Unsupported('nested index list')
            raise_py('IndexError', 'only integers, slices (`:`), ellipsis (`...`), numpy.newaxis (`None`) and integer or boolean arrays are valid indices')
        if isinstance(p, RangeV):
            p = I.range_to_symseq(p)
        probe = I.pure_elem_nofork(p, z3.Int('sel_probe'))
        if I.kind(probe) == 'bool':
            # a list of booleans is a mask, whatever its length
            pz = I.z(p.n, 'int')
            mk = self.new([self.norm_dim(pz)], 'bool', lambda r, p=p: I.z(I.pure_elem_nofork(p, r), 'bool'))
            if not zeq(mk.shape[0], dim):
                if not I.ctx.branch(self.dim_z(mk.shape[0]) == self.dim_z(dim)):
                    raise_py('IndexError', 'boolean index did not match indexed array along axis %d' % ax)
            return self.mask_sel(mk, dim)
        if I.kind(probe) != 'int':
            raise_py('IndexError', 'only integers, slices (`:`), ellipsis (`...`), numpy.newaxis (`None`) and integer or boolean arrays are valid indices')
        # symbolic-length list of ints
        def f(r, p=p):
            v = I.pure_elem_nofork(p, r)
            return I.z(v, 'int')
        return self.intarr_sel(f, p.n, dim, ax)

    def getitem(self, arr, key):
        I = self.I
        if arr.dtype == 'object':
            return self.grid_getitem(arr, key)
        sels = self.parse_key(arr, key)
        return self.apply_sels(arr, sels)

    def grid_getitem(self, arr, key):
        g = getattr(arr, 'grid', None)
        if g is None:
            raise Unsupported('indexing an object array')
        key = self.I.force(key)
        if isinstance(key, NDArr) and key.dtype == 'bool' and key.ndim == 2:
            self.ax('object-array[bool mask] selects the cells where the mask holds')
            from .interp import raise_py
            for dk_, da_ in zip(key.shape, arr.shape):
                if not zeq(dk_, da_):
                    if not self.I.ctx.branch(self.dim_z(dk_) == self.dim_z(da_), safety=False):
                        raise_py('IndexError', 'boolean index did not match indexed array')
            # the mask as it is now, under a name of its own (definitional axiom): index-set reasoning stays independent of how
            # the mask was computed
            ctx = self.I.ctx
            BMf = ctx.fresh_fn('selmask', z3.IntSort(), z3.IntSort(), z3.BoolSort())
            kf = key.fn
            a_, b_ = z3.Ints('sm_a sm_b')
            ctx.assume(z3.ForAll([a_, b_], z3.Implies(z3.And(0 <= a_, a_ < self.dim_z(arr.shape[0]), 0 <= b_, b_ < self.dim_z(arr.shape[1])),
                                                      BMf(a_, b_) == kf(a_, b_)), patterns=[BMf(a_, b_)]))
            g.selected_by = BMf
            return Opaque('gridsel', (arr, lambda x_, y_, BMf=BMf: BMf(x_, y_)))
        if isinstance(key, Seq) and key.kind == 'tuple' and len(key.items) == 2:
            return Opaque('gridcell', (arr, key.items[0], key.items[1]))
        raise Unsupported('object-array key')

    def check_adv(self, sels):
        """index arrays of one key broadcast together (a length-1 array is stretched); their entries are range-checked only when
        the broadcast is not empty"""
        from .interp import raise_py
        I = self.I
        advs = [s for s in sels if s.kind == 'map' and s.adv]
        if not advs:
            return
        L = advs[0].n
        group = [advs[0]]
        for s in advs[1:]:
            if zeq(L, s.n) or I.ctx.branch(self.dim_z(L) == self.dim_z(s.n)):
                group.append(s)
                continue
            if I.ctx.branch(self.dim_z(s.n) == 1):
                f0 = s.fn
                s.n_orig = s.n
                s.fn = lambda r, f0=f0: f0(z3.IntVal(0))
                s.n = L
                group.append(s)
                continue
            if I.ctx.branch(self.dim_z(L) == 1):
                for g_ in group:
                    f0 = g_.fn
                    g_.n_orig = getattr(g_, 'n_orig', g_.n)
                    g_.fn = lambda r, f0=f0: f0(z3.IntVal(0))
                    g_.n = s.n
                L = s.n
                group.append(s)
                continue
            raise_py('IndexError', 'shape mismatch: indexing arrays could not be broadcast together')
        Lz = self.dim_z(L)
        for s in advs:
            bad = getattr(s, 'bad', None)
            if bad is None or z3.is_false(z3.simplify(bad)):
                continue
            if I.ctx.branch(z3.And(Lz > 0, bad), safety=True):
                raise_py('IndexError', 'index out of bounds for axis %d' % getattr(s, 'bad_axis', 0))

    def apply_sels(self, arr, sels):
        advs = [s for s in sels if s.kind == 'map' and s.adv]
        if any(s.kind == 'new' for s in sels) and advs:
            raise Unsupported('newaxis combined with advanced indexing')
        self.check_adv(sels)
        if False:
            if True:
                if True:
                    if True:
                        pass
        out_shape = []
        plan = []      # per source axis: ('fix', idx) | ('res', result axis position)
        adv_pos = None
        for s in sels:
            if s.kind == 'new':
                out_shape.append(1)
                continue
            if s.kind == 'fix':
                plan.append(('fix', s))
            elif s.adv and adv_pos is not None:
                plan.append(('res', adv_pos, s))
            else:
                if s.adv:
                    adv_pos = len(out_shape)
                plan.append(('res', len(out_shape), s))
                out_shape.append(s.n)
        # an int index next to an advanced index takes part in the advanced group (no new axis): same result
        def to_base(*ridx, plan=plan):
            sidx = []
            for p in plan:
                if p[0] == 'fix':
                    sidx.append(p[1].idx)
                else:
                    sidx.append(p[2].fn(ridx[p[1]]))
            return sidx
        if not out_shape and all(p[0] == 'fix' for p in plan):
            if arr.dtype == 'xfloat':
                raise Unsupported('scalar read from an extended-real array')
            if getattr(arr, 'nanfn', None) is not None:
                raise Unsupported('scalar read from an array that may hold NaN')
            return self.scalar(arr.fn(*to_base()), arr.dtype)
        out = self.new(out_shape, arr.dtype, None, cls=arr.cls if arr.cls == 'FCSData' else None,
                       finalize_from=arr if arr.cls == 'FCSData' else None)
        out.bits = arr.bits
        if advs:
            # advanced indexing copies the selected values
            af = arr.fn
            out._fn = lambda *ridx, af=af, to_base=to_base: af(*to_base(*ridx))
        else:
            # basic indexing: a view
            out.view_of = arr
            out.to_base = to_base
            invs = [None if p[0] == 'fix' else self.inverse_of(p[2]) for p in plan]
            nres = len(out_shape)

            def from_base(*bidx, plan=plan, invs=invs, nres=nres):
                conds = []
                vidx = [None] * nres
                for p, inv, b_ in zip(plan, invs, bidx):
                    if p[0] == 'fix':
                        conds.append(b_ == p[1].idx)
                    else:
                        c, r = inv(b_)
                        conds.append(c)
                        vidx[p[1]] = r
                vidx = [z3.IntVal(0) if v is None else v for v in vidx]       # newaxis positions
                return (z3.And(*conds) if conds else z3.BoolVal(True)), vidx
            out.from_base = from_base
        if getattr(arr, 'nanfn', None) is not None:
            nf = arr.nanfn
            out.nanfn = lambda *ridx, nf=nf, to_base=to_base: nf(*to_base(*ridx))
        masks = [s for s in sels if s.mask is not None]
        if len(masks) == 1 and sels[0] is masks[0] and all(getattr(s, 'full', False) for s in sels[1:]):
            out.term = ('filter', arr, masks[0].mask, masks[0].mask_fn)
            out.filter_sel = masks[0]
        out.sels = sels
        out.base = arr
        return out

    def setitem(self, arr, key, val):
        I = self.I
        from .interp import raise_py
        if not arr.writeable:
            raise_py('ValueError', 'assignment destination is read-only')
        if arr.dtype == 'object':
            raise Unsupported('write into an object array')
        key = I.force(key)
        if isinstance(key, Opaque) and key.tag == 'indexset':
            member = key.payload
            V0 = self.as_array(val)
            if V0.ndim != 0 or arr.ndim != 1:
                raise Unsupported('index-set store of a non-scalar')
            newv = self.cast(V0.fn(), V0.dtype, arr.dtype, arr.bits)
            self.ax('a[idx] = v with an integer index array writes v at exactly the listed positions')
            self.apply_update(arr, lambda t, member=member, newv=newv: (member(t), newv))
            return None
        sels = self.parse_key(arr, key)
        if any(s.kind == 'new' for s in sels):
            raise Unsupported('newaxis in an assignment target')
        self.check_adv(sels)
        # selected(target idx) and the result position it comes from
        V = self.as_array(val)
        Vfn = V.fn            # the value is read now
        # shape of the selection
        sel_shape = []
        res_axes = []
        adv_pos = None
        for s in sels:
            if s.kind == 'fix':
                res_axes.append(None)
            elif s.adv and adv_pos is not None:
                res_axes.append(adv_pos)
            else:
                if s.adv:
                    adv_pos = len(sel_shape)
                res_axes.append(len(sel_shape))
                sel_shape.append(s.n)
        # broadcast value to selection shape (value may have fewer dims)
        if V.ndim > len(sel_shape):
            # leading length-1 dims are allowed by numpy; otherwise error
            raise_py('ValueError', 'could not broadcast input array into selection')
        for k in range(V.ndim):
            dv = V.shape[V.ndim - 1 - k]
            ds = sel_shape[len(sel_shape) - 1 - k]
            if isinstance(dv, int) and dv == 1:
                continue
            if not zeq(dv, ds):
                if isinstance(dv, int) and isinstance(ds, int):
                    raise_py('ValueError', 'could not broadcast input array into selection')
                if not I.ctx.branch(self.dim_z(dv) == self.dim_z(ds)):
                    raise_py('ValueError', 'could not broadcast input array into selection')
        # inverse maps: for each 'map' selector we need r with fn(r) == target index
        invs = []
        n_adv = sum(1 for s in sels if s.kind != 'fix' and s.adv)
        for s in sels:
            if s.kind == 'fix':
                invs.append(None)
            elif V.ndim == 0 and n_adv == 1 and s.adv and s.mask is None and not isinstance(s.n, int):
                # a scalar stored through an integer index array: position t is written iff it is listed (which occurrence
                # wrote last does not matter)
                nz_ = self.dim_z(s.n)
                kq = z3.Int('st_k')
                sf = s.fn
                raw = getattr(s, 'raw', None)
                if raw is not None:
                    invs.append(lambda t, nz_=nz_, kq=kq, sf=sf, raw=raw: (z3.Exists([kq], z3.And(0 <= kq, kq < nz_, sf(kq) == t), patterns=[raw(kq)]), z3.IntVal(0)))
                else:
                    invs.append(lambda t, nz_=nz_, kq=kq, sf=sf: (z3.Exists([kq], z3.And(0 <= kq, kq < nz_, sf(kq) == t)), z3.IntVal(0)))
            else:
                invs.append(self.inverse_of(s))
        if V.dtype == 'xfloat':
            raise Unsupported('store of infinity into an array')
        bits = arr.bits

        def upd(*tidx):
            cond = []
            ridx = [None] * len(sel_shape)
            for s, inv, ra, t in zip(sels, invs, res_axes, tidx):
                if s.kind == 'fix':
                    cond.append(t == s.idx)
                else:
                    c, r = inv(t)
                    cond.append(c)
                    if ridx[ra] is None:
                        ridx[ra] = r
                    else:
                        cond.append(ridx[ra] == r)
            vidx = []
            for k in range(V.ndim):
                pos = len(sel_shape) - V.ndim + k
                dv = V.shape[k]
                vidx.append(z3.IntVal(0) if (isinstance(dv, int) and dv == 1 and not (isinstance(sel_shape[pos], int) and sel_shape[pos] == 1)) else ridx[pos])
            newv = self.cast(Vfn(*vidx), V.dtype, arr.dtype, bits)
            return (z3.And(*cond) if cond else z3.BoolVal(True)), newv
        # the value is read now (its own later changes must not leak in): V was built by as_array/snapshot
        self.apply_update(arr, upd)
        return None

    def apply_update(self, arr, upd):
        """arr[idx] := val(idx) where cond(idx); a view forwards the update to its base"""
        if arr.view_of is None:
            old = arr._fn
            self.I.writes.append(arr)          # the buffer that is really written (views forward to their root)

            def fn(*idx, old=old, upd=upd):
                c, v = upd(*idx)
                return z3.If(c, v, old(*idx))
            arr._fn = memo_fn(fn)       # a chain of k updates is evaluated once per index, not 2^k times
            return
        if arr.from_base is None:
            raise Unsupported('write through this kind of view (A-VIEW)')
        fb = arr.from_base

        def bupd(*bidx, fb=fb, upd=upd):
            c0, vidx = fb(*bidx)
            c, v = upd(*vidx)
            return z3.And(c0, c), v
        self.apply_update(arr.view_of, bupd)

    def inverse_of(self, s):
        """for a map selector: target index t -> (selected?, result position r)"""
        I = self.I
        nz = self.dim_z(s.n)
        probe = z3.Int('inv_probe')
        e = z3.simplify(s.fn(probe))
        # affine r + a
        try:
            a = z3.simplify(e - probe)
            if not self.mentions(a, probe):
                return lambda t, a=a, nz=nz: (z3.And(t - a >= 0, t - a < nz), t - a)
        except Exception:
            pass
        try:
            a = z3.simplify(e + probe)       # reversed: fn(r) = a - r
            if not self.mentions(a, probe):
                return lambda t, a=a, nz=nz: (z3.And(a - t >= 0, a - t < nz), a - t)
        except Exception:
            pass
        if isinstance(s.n, int) and s.n <= 16:
            vals = [z3.simplify(s.fn(z3.IntVal(k))) for k in range(s.n)]

            def inv(t, vals=vals):
                c = z3.Or(*[t == v for v in vals]) if vals else z3.BoolVal(False)
                # last write wins for duplicates
                r = z3.IntVal(0)
                for k, v in enumerate(vals):
                    r = z3.If(t == v, z3.IntVal(k), r)
                return c, r
            return inv
        if s.mask is not None and hasattr(s, 'rank'):
            mfn, rank = s.mask_fn, s.rank
            return lambda t, mfn=mfn, rank=rank: (mfn(t), rank(t))
        if s.mask is not None:
            raise Unsupported('store through a small concrete mask')
        # symbolic integer list: needs distinctness to be a function; use an uninterpreted inverse + axiom
        # (one inverse per index list: the same list always gets the same function)
        cache = getattr(I.ctx, '_pos_cache', None)
        if cache is None:
            cache = I.ctx._pos_cache = {}
        ckey = (e.sexpr(), z3.simplify(nz).sexpr())
        if ckey in cache:
            return cache[ckey][1]
        posf = I.ctx.fresh_fn('pos', z3.IntSort(), z3.IntSort())
        k = z3.Int('pos_k')
        raw = getattr(s, 'raw', None)
        I.ctx.assume(forall_pat([k], z3.Implies(z3.And(0 <= k, k < nz), z3.And(posf(s.fn(k)) >= k, posf(s.fn(k)) < nz)),
                                [raw(k)] if raw is not None else [posf(s.fn(k))]))
        I.ctx.use_axiom('numpy:fancy store: last occurrence wins (pos = greatest k with idx[k]=t)')
        t_ = z3.Int('pos_t')
        I.ctx.assume(forall_pat([t_], z3.Implies(z3.And(0 <= posf(t_), posf(t_) < nz), s.fn(posf(t_)) == t_), [posf(t_)]))
        def inv(t, posf=posf, nz=nz, s=s):
            r = posf(t)
            return (z3.And(0 <= r, r < nz, s.fn(r) == t), r)
        cache[ckey] = (e, inv)
        return inv

    def mentions(self, e, v):
        stack = [e]
        seen = set()
        while stack:
            x = stack.pop()
            if x.get_id() in seen:
                continue
            seen.add(x.get_id())
            if z3.eq(x, v):
                return True
            stack.extend(x.children())
        return False

    # ------------------------------------------------------------------ attributes / methods of arrays
    def getattr(self, a, name):
        from .interp import raise_py, stamp
        I = self.I
        if a.cls == 'FCSData':
            attrs = self.ensure_attrs(a)
            if name in attrs:
                return attrs[name]
            c = I.fcs_class()
            if c is not None and name in c.members:
                m = c.members[name]
                if isinstance(m, Closure):
                    if m.is_property:
                        return I.call(m, [a], {})
                    if m.is_staticmethod:
                        return m
                    return BoundMethod(a, m)
                return m
        if name == 'shape':
            return stamp(Seq('tuple', [self.dim_val(s) for s in a.shape]))
        if name == 'ndim':
            return a.ndim
        if name == 'size':
            r = 1
            for s in a.shape:
                r = I.binop('Mult', r, self.dim_val(s))
            return r
        if name == 'dtype':
            return Opaque('dtype', (a.dtype, a.bits))
        if name == 'T':
            return self.transpose(a)
        if name == 'flags':
            return Opaque('flags', a)
        if name in ('__iter__', '__len__', '__getitem__', '__setitem__', '__array__'):
            if name == '__iter__' and a.ndim == 0:
                pass
            return Builtin(name, lambda I_, args, kw: None)
        m = getattr(self, 'm_' + name, None)
        if m is not None:
            return Builtin('ndarray.' + name, lambda I_, args, kw, m=m, a=a: m(a, *args, **kw))
        if name.startswith('_') or name in ('range', 'hist_bins', 'channels', 'amplification_type', 'resolution',
                                            'amplifier_gain', 'detector_voltage', 'channel_labels', 'text', 'infile'):
            raise_py('AttributeError', "'numpy.ndarray' object has no attribute '%s'" % name)
        raise Unsupported('ndarray attribute %s' % name)

    def setattr(self, a, name, val):
        if name == 'shape':
            raise Unsupported('assignment to shape')
        if a.cls == 'FCSData':
            self.ensure_attrs(a)[name] = val
            return
        from .interp import raise_py
        raise_py('AttributeError', "'numpy.ndarray' object has no attribute '%s'" % name)

    def copy_array(self, a, deep=True):
        f = a.fn
        out = self.new(a.shape, a.dtype, lambda *idx, f=f: f(*idx), cls=a.cls if a.cls == 'FCSData' else None,
                       finalize_from=a if a.cls == 'FCSData' else None)
        out.bits = a.bits
        if hasattr(a, 'float_bits'):
            out.float_bits = a.float_bits
        out.nanfn = getattr(a, 'nanfn', None)
        return out

    def m_copy(self, a, order=None):
        self.ax('ndarray.copy: fresh buffer, equal values, same subclass (via __array_finalize__)')
        return self.copy_array(a)

    def m_astype(self, a, dtype, copy=True, **kw):
        dt, bits = self.dtype_of(dtype)
        if copy is not True:
            if copy is False and dt == a.dtype and (bits is None or bits == a.bits):
                self.ax('ndarray.astype(copy=False) returns the array itself when the dtype already matches')
                return a
            if copy is not False:
                raise Unsupported('astype(copy=%r)' % (copy,))
        self.ax('ndarray.astype: fresh buffer, values converted, same subclass')
        f = a.fn
        out = self.new(a.shape, dt, lambda *idx, f=f: self.cast(f(*idx), a.dtype, dt, bits),
                       cls=a.cls if a.cls == 'FCSData' else None, finalize_from=a if a.cls == 'FCSData' else None)
        out.bits = bits
        if getattr(a, 'nanfn', None) is not None:
            if dt != 'float':
                raise Unsupported('conversion of an array that may hold NaN to a non-float dtype')
            out.nanfn = a.nanfn
        return out

    def m_view(self, a, typ=None, **kw):
        if typ is None:
            typ = kw.get('type')
        f = a.fn
        if isinstance(typ, TypeObj) and typ.name == 'ndarray':
            out = self.new(a.shape, a.dtype, lambda *idx, f=f: f(*idx))
        elif isinstance(typ, ClassObj) and typ.name == 'FCSData':
            out = self.new(a.shape, a.dtype, lambda *idx, f=f: f(*idx))
            out.cls = 'FCSData'
            if a.cls == 'FCSData':
                out.attrs = None
                out.lazy_src = a
            else:
                out.attrs = {}
        elif typ is None:
            out = self.copy_array(a)
        else:
            raise Unsupported('view(%r)' % (typ,))
        out._fn = None
        out.bits = a.bits
        out.view_of = a
        out.to_base = lambda *idx: list(idx)
        out.from_base = lambda *bidx: (z3.BoolVal(True), list(bidx))
        return out

    def make_view(self, a, shape, to_base, from_base, dtype=None):
        out = self.finish(shape, dtype or a.dtype, None, [a])
        out.bits = a.bits
        out.view_of = a
        out.to_base = to_base
        out.from_base = from_base
        return out

    def m_reshape(self, a, *shape, **kw):
        I = self.I
        if len(shape) == 1 and isinstance(shape[0], (Seq,)):
            shape = tuple(shape[0].items)
        order = kw.get('order', 'C')
        if order != 'C':
            raise Unsupported('reshape order %s' % order)
        self.ax('reshape/ravel/T of a C-contiguous array are views with row-major index arithmetic')
        if a.ndim == 1 and len(shape) == 2 and shape[0] == -1 and shape[1] == 1:
            return self.make_view(a, [a.shape[0], 1], lambda i, j: [i], lambda r: (z3.BoolVal(True), [r, z3.IntVal(0)]))
        if a.ndim == 1 and len(shape) == 2 and all(I.kind(s_) == 'int' for s_ in shape) and -1 not in shape \
                and self.dim_z(a.shape[0]).sexpr() in getattr(I.ctx, '_flat_by_M', {}):
            fn0, fn1, row, col, flat = I.ctx._flat_by_M[self.dim_z(a.shape[0]).sexpr()]
            n0, n1 = I.z(shape[0], 'int'), I.z(shape[1], 'int')
            if not I.ctx.branch(z3.And(n0 == fn0, n1 == fn1), safety=False):
                raise Unsupported('reshape of a flattened grid to a different shape')
            return self.make_view(a, [self.norm_dim(n0), self.norm_dim(n1)], lambda i, j, flat=flat: [flat(i, j)],
                                  lambda r, row=row, col=col: (z3.BoolVal(True), [row(r), col(r)]))
        if a.ndim == 1 and len(shape) == 2 and all(I.kind(s_) == 'int' for s_ in shape) and -1 not in shape:
            n0, n1 = I.z(shape[0], 'int'), I.z(shape[1], 'int')
            total = self.dim_z(a.shape[0])
            if not I.ctx.branch(n0 * n1 == total, safety=False):
                from .interp import raise_py
                raise_py('ValueError', 'cannot reshape array')
            return self.make_view(a, [self.norm_dim(n0), self.norm_dim(n1)], lambda i, j, n1=n1: [i * n1 + j],
                                  lambda r, n1=n1: (z3.BoolVal(True), [r / n1, r % n1]))
        raise Unsupported('reshape %r' % (shape,))

    def flat_bijection(self, n0, n1):
        """row-major flattening of an n0 x n1 grid with symbolic n1, abstracted to a bijection (row, col, flat) between the
        grid positions and [0, M): everything the real i*n1+j / divmod satisfy that index-set reasoning needs, without
        non-linear arithmetic.  One bijection per shape."""
        ctx = self.I.ctx
        cache = getattr(ctx, '_flat_cache', None)
        if cache is None:
            cache = ctx._flat_cache = {}
        key = (z3.simplify(n0).sexpr(), z3.simplify(n1).sexpr())
        if key in cache:
            return cache[key]
        M = ctx.fresh_int('flat_M')
        row = ctx.fresh_fn('flat_row', z3.IntSort(), z3.IntSort())
        col = ctx.fresh_fn('flat_col', z3.IntSort(), z3.IntSort())
        flat = ctx.fresh_fn('flat_idx', z3.IntSort(), z3.IntSort(), z3.IntSort())
        i, j, t = z3.Ints('fb_i fb_j fb_t')
        ctx.assume(z3.And(M >= 0, z3.Implies(z3.And(n0 >= 1, n1 >= 1), z3.And(M >= n0, M >= n1)),
                          z3.Implies(z3.Or(n0 == 0, n1 == 0), M == 0)))
        # (triggers avoid the loop flat(i,j) -> row(flat(i,j)) -> flat(row(..), col(..)) ...)
        inr = z3.And(0 <= i, i < n0, 0 <= j, j < n1)
        ctx.assume(z3.ForAll([i, j], z3.Implies(inr, z3.And(0 <= flat(i, j), flat(i, j) < M)), patterns=[flat(i, j)]))
        ctx.assume(z3.ForAll([i, j], z3.Implies(inr, row(flat(i, j)) == i), patterns=[row(flat(i, j))]))
        ctx.assume(z3.ForAll([i, j], z3.Implies(inr, col(flat(i, j)) == j), patterns=[col(flat(i, j))]))
        ctx.assume(z3.ForAll([t], z3.Implies(z3.And(0 <= t, t < M),
                                             z3.And(0 <= row(t), row(t) < n0, 0 <= col(t), col(t) < n1, flat(row(t), col(t)) == t)),
                             patterns=[z3.MultiPattern(row(t), col(t))]))
        self.ax('row-major flattening of a 2-d array with symbolic shape is a bijection grid <-> [0, n0*n1) (abstracted: M, row, col, flat)')
        cache[key] = (M, row, col, flat)
        ctx._flat_by_M = getattr(ctx, '_flat_by_M', {})
        ctx._flat_by_M[M.sexpr()] = (n0, n1, row, col, flat)
        return cache[key]

    def m_ravel(self, a, order='C'):
        if a.ndim == 1:
            return self.make_view(a, list(a.shape), lambda i: [i], lambda r: (z3.BoolVal(True), [r]))
        if a.ndim == 2 and order == 'C' and not isinstance(a.shape[1], int):
            n0, n1 = self.dim_z(a.shape[0]), self.dim_z(a.shape[1])
            M, row, col, flat = self.flat_bijection(n0, n1)
            return self.make_view(a, [self.norm_dim(M)], lambda r, row=row, col=col: [row(r), col(r)],
                                  lambda i, j, flat=flat: (z3.BoolVal(True), [flat(i, j)]))
        if a.ndim == 2 and order == 'C':
            self.ax('reshape/ravel/T of a C-contiguous array are views with row-major index arithmetic')
            n0, n1 = self.dim_z(a.shape[0]), self.dim_z(a.shape[1])
            return self.make_view(a, [self.norm_dim(n0 * n1)], lambda r, n1=n1: [r / n1, r % n1],
                                  lambda i, j, n1=n1: (z3.BoolVal(True), [i * n1 + j]))
        raise Unsupported('ravel')

    def m_tolist(self, a):
        from .interp import stamp
        if a.ndim == 1 and isinstance(a.shape[0], int):
            f = a.fn
            k = ZK.get(a.dtype)
            if k is None:
                raise Unsupported('tolist of %s array' % a.dtype)
            return stamp(Seq('list', [self.I.mk(f(z3.IntVal(i)), k) for i in range(a.shape[0])]))
        raise Unsupported('tolist of an array with symbolic shape')

    def m_sum(self, a, axis=None, **kw):
        return self.reduce('sum', a, axis)

    def m_all(self, a, axis=None, **kw):
        return self.reduce('all', a, axis)

    def m_any(self, a, axis=None, **kw):
        return self.reduce('any', a, axis)

    def m_max(self, a, axis=None, **kw):
        return self.reduce('max', a, axis)

    def m_min(self, a, axis=None, **kw):
        return self.reduce('min', a, axis)

    def m_tobytes(self, a):
        raise Unsupported('tobytes')

    def m_fill(self, a, v):
        raise Unsupported('fill')

    def transpose(self, a):
        if a.ndim < 2:
            return a
        if a.ndim == 2:
            return self.make_view(a, [a.shape[1], a.shape[0]], lambda i, j: [j, i], lambda i, j: (z3.BoolVal(True), [j, i]))
        raise Unsupported('transpose of %d-d array' % a.ndim)

    def ndarray_unbound(self, name):
        """np.ndarray.__getitem__(self, key) etc.: the base-class behaviour, bypassing FCSData overrides"""
        if name == '__getitem__':
            return Builtin('ndarray.__getitem__', lambda I, a, k: self.getitem(a[0], a[1]))
        if name == '__setitem__':
            return Builtin('ndarray.__setitem__', lambda I, a, k: self.setitem(a[0], a[1], a[2]))
        if name == '__array_wrap__':
            return Builtin('ndarray.__array_wrap__', lambda I, a, k: a[1])
        if name == '__reduce__':
            return Builtin('ndarray.__reduce__', lambda I, a, k: self.nd_reduce(a[0]))
        if name == '__setstate__':
            return Builtin('ndarray.__setstate__', lambda I, a, k: self.nd_setstate(a[0], a[1]))
        raise Unsupported('np.ndarray.%s' % name)

    def super_method(self, inst, name):
        u = self.ndarray_unbound(name)
        return Builtin('super.' + name, lambda I, a, k: u.fn(I, [inst] + list(a), k))

    def nd_reduce(self, a):
        """ndarray.__reduce__: (reconstruct, args, state); state opaque but carries the buffer"""
        from .interp import stamp
        h = self.I.config.get('nd_reduce_shape', 3)
        st = Opaque('ndarray_state', a)
        items = [Opaque('ndarray_reconstruct'), stamp(Seq('tuple', [Opaque('cls'), stamp(Seq('tuple', [0])), 'b']))]
        if h == 3:
            items.append(st)
        return stamp(Seq('tuple', items))

    def nd_setstate(self, a, st):
        if not (isinstance(st, Opaque) and st.tag == 'ndarray_state'):
            from .interp import raise_py
            raise_py('TypeError', 'invalid ndarray state')
        src = st.payload
        a.shape = list(src.shape)
        a.dtype = src.dtype
        a.fn = src.fn
        a.bits = src.bits
        a.restored_from = src
        return None

    # ------------------------------------------------------------------ reductions
    def reduce(self, name, a, axis):
        I = self.I
        a = self.as_array(a)
        if isinstance(axis, SV):
            raise Unsupported('symbolic axis')
        afn = a.fn
        if a.ndim == 0:
            return self.scalar(afn(), a.dtype)
        if axis is None and a.ndim == 1:
            axis = 0
        if axis is None:
            if name in ('all', 'any'):
                # over every element
                idx = [z3.Int('red_i%d' % d) for d in range(a.ndim)]
                rng = z3.And(*[z3.And(0 <= i, i < self.dim_z(s)) for i, s in zip(idx, a.shape)])
                body = afn(*idx) if a.dtype == 'bool' else self.cast(afn(*idx), a.dtype, 'bool')
                e = z3.ForAll(idx, z3.Implies(rng, body)) if name == 'all' else z3.Exists(idx, z3.And(rng, body))
                return self.scalar(e, 'bool')
            if name == 'sum':
                tot = I.ctx.fresh_real('total')
                self.ax('np.sum of a whole array: an uninterpreted total (only used for normalisation)')
                out_t = self.scalar(tot, 'float')
                out_t.total_of = a
                I.ctx._last_total = tot
                return out_t
            raise Unsupported('full reduction %s of a %d-d array' % (name, a.ndim))
        if axis < 0:
            axis += a.ndim
        n = a.shape[axis]
        rest = [s for k, s in enumerate(a.shape) if k != axis]

        def at(ridx, j):
            full = list(ridx[:axis]) + [j] + list(ridx[axis:])
            return afn(*full)
        if name in ('all', 'any'):
            tobool = (lambda e: e) if a.dtype == 'bool' else (lambda e: self.cast(e, a.dtype, 'bool'))
            if isinstance(n, int):
                def fn(*ridx):
                    xs = [tobool(at(ridx, z3.IntVal(j))) for j in range(n)]
                    if not xs:
                        return z3.BoolVal(name == 'all')
                    return z3.And(*xs) if name == 'all' else z3.Or(*xs)
            else:
                def fn(*ridx):
                    j = z3.Int('red_j')
                    rng = z3.And(0 <= j, j < n)
                    if name == 'all':
                        return z3.ForAll([j], z3.Implies(rng, tobool(at(ridx, j))))
                    return z3.Exists([j], z3.And(rng, tobool(at(ridx, j))))
            self.ax('np.all/np.any over an axis = conjunction/disjunction of the elements')
            if not rest:
                return self.scalar(fn(), 'bool')
            return self.finish(rest, 'bool', fn, [a])
        if name == 'sum':
            if isinstance(n, int):
                dt = 'int' if a.dtype in ('bool', 'int', 'uint') else 'float'

                def fn(*ridx):
                    xs = [self.cast(at(ridx, z3.IntVal(j)), a.dtype, dt) for j in range(n)]
                    return z3.Sum(xs) if xs else self.zero(dt)
                if not rest:
                    return self.scalar(fn(), dt)
                return self.finish(rest, dt, fn, [a])
            return self.sym_sum(a, axis, rest, at)
        if name in ('max', 'min'):
            if isinstance(n, int) and n >= 1:
                def fn(*ridx):
                    e = at(ridx, z3.IntVal(0))
                    for j in range(1, n):
                        x = at(ridx, z3.IntVal(j))
                        e = z3.If(x > e, x, e) if name == 'max' else z3.If(x < e, x, e)
                    return e
                if not rest:
                    return self.scalar(fn(), a.dtype)
                return self.finish(rest, a.dtype, fn, [a])
            if not rest:
                # symbolic length: result characterised by its defining property
                from .interp import raise_py
                nz = self.dim_z(n)
                if I.ctx.branch(nz <= 0):
                    raise_py('ValueError', 'zero-size array to reduction operation which has no identity')
                r = I.ctx.fresh_real('red_%s' % name) if a.dtype == 'float' else I.ctx.fresh_int('red_%s' % name)
                w = I.ctx.fresh_int('red_arg')
                j = z3.Int('red_j')
                I.ctx.assume(z3.And(0 <= w, w < nz, afn(w) == r))
                cmpf = (lambda x: x <= r) if name == 'max' else (lambda x: x >= r)
                I.ctx.assume(z3.ForAll([j], z3.Implies(z3.And(0 <= j, j < nz), cmpf(afn(j)))))
                self.ax('np.max/np.min: an element that bounds all others')
                return self.scalar(r, a.dtype)
        raise Unsupported('reduction %s over a symbolic axis' % name)

    def sym_sum(self, a, axis, rest, at):
        raise Unsupported('sum over a symbolic axis')

    # ------------------------------------------------------------------ module-level functions
    def dtype_of(self, d):
        I = self.I
        if isinstance(d, TypeObj):
            return {'bool': ('bool', None), 'int': ('int', None), 'float': ('float', None), 'object': ('object', None)}[d.name]
        if isinstance(d, Opaque) and d.tag == 'dtype':
            return d.payload
        if isinstance(d, str):
            s = d.lstrip('<>=|')
            if s in ('uint8', 'u1'):
                return ('uint', 8)
            if s in ('u2', 'uint16'):
                return ('uint', 16)
            if s in ('u4', 'uint32'):
                return ('uint', 32)
            if s in ('u8', 'uint64'):
                return ('uint', 64)
            if s in ('f4', 'f8', 'float64', 'float32', 'float', 'd', 'f'):
                return ('float', None)
            if s in ('i8', 'int64', 'int', 'i4', 'int32'):
                return ('int', None)
            if s in ('bool', '?'):
                return ('bool', None)
            if s in ('object', 'O'):
                return ('object', None)
        if d is None:
            return (None, None)
        raise Unsupported('dtype %r' % (d,))

    def module_attr(self, modname, name):
        from .interp import raise_py
        full = modname + '.' + name
        if full in self.table:
            return self.table[full]
        facts = self.I.envfacts.get('numpy_has', {})
        if name in facts and not facts[name]:
            raise_py('AttributeError', "module 'numpy' has no attribute '%s'" % name)
        raise Unsupported('numpy attribute %s is not modelled' % full)

    def register(self):
        from .interp import raise_py, stamp
        T = self.table
        I = self.I

        def reg(name):
            def deco(f):
                T['numpy.' + name] = Builtin('np.' + name, f)
                return f
            return deco
        T['numpy.inf'] = Inf(1)
        T['numpy.pi'] = SV(z3.Real('pi'), 'real')
        T['numpy.nan'] = Opaque('nan')
        T['numpy.newaxis'] = None
        T['numpy.float64'] = Opaque('dtype', ('float', None))
        T['numpy.float32'] = Opaque('dtype', ('float', None))
        T['numpy.int64'] = Opaque('dtype', ('int', None))
        T['numpy.uint8'] = Opaque('dtype', ('uint', 8))
        T['numpy.bool_'] = Opaque('dtype', ('bool', None))
        T['numpy.ndarray'] = TypeObj('ndarray')
        T['numpy.random'] = ModuleObj('numpy.random')
        T['numpy.linalg'] = ModuleObj('numpy.linalg')

        def shape_of(v):
            if isinstance(v, Seq):
                return [x if isinstance(x, int) else I.z(x, 'int') for x in v.items]
            if I.kind(v) == 'int':
                return [v if isinstance(v, int) else v.z]
            raise Unsupported('shape %r' % (v,))

        def filled(val):
            def f(I_, a, k):
                shape = a[0] if a else k['shape']
                d = k.get('dtype', a[1] if len(a) > 1 else None)
                dt, bits = self.dtype_of(d)
                if dt is None:
                    dt = 'float'
                if dt == 'object':
                    raise Unsupported('object array')
                c = self.cast(z3.IntVal(val), 'int', dt)
                out = self.new(shape_of(shape), dt, lambda *idx, c=c: c)
                out.bits = bits
                return out
            return f
        T['numpy.ones'] = Builtin('np.ones', filled(1))
        T['numpy.zeros'] = Builtin('np.zeros', filled(0))

        def filled_like(val):
            def f(I_, a, k):
                src = self.as_array(a[0])
                d = k.get('dtype', a[1] if len(a) > 1 else None)
                dt, bits = self.dtype_of(d)
                if dt is None:
                    dt, bits = src.dtype, src.bits
                if dt == 'object':
                    raise Unsupported('object array')
                c = self.cast(z3.IntVal(val), 'int', dt)
                out = self.new(src.shape, dt, lambda *idx, c=c: c)
                out.bits = bits
                return out
            return f
        T['numpy.zeros_like'] = Builtin('np.zeros_like', filled_like(0))
        T['numpy.ones_like'] = Builtin('np.ones_like', filled_like(1))

        @reg('array')
        def _array(I_, a, k):
            if a and isinstance(I_.force(a[0]), Opaque) and I_.force(a[0]).tag == 'indexlist':
                dt_, _b = self.dtype_of(k.get('dtype'))
                if dt_ != 'int':
                    raise Unsupported('np.array of an index list with a non-integer dtype')
                return Opaque('indexset', I_.force(a[0]).payload)
            d = k.get('dtype', a[1] if len(a) > 1 else None)
            dt, bits = self.dtype_of(d)
            v = I.force(a[0])
            if I_.config.get('array_of_lists_ok') and isinstance(v, Seq) and (not v.items or all(isinstance(x_, SymSeq) for x_ in v.items)) \
                    and not (v.items == [] and False):
                # a list of symbolic-length lists (values parsed from table cells): kept as it is, only ever handed on
                if v.items:
                    return Opaque('array-of-lists', v)
            if isinstance(v, NDArr):
                out = self.m_astype(v, d) if dt else self.copy_array(v)
                out.writeable = True
                if out.cls == 'FCSData':
                    # np.array(FCSData) returns a base-class array
                    out.cls = 'ndarray'
                    out.attrs = {}
                return out
            out = self.as_array(v, dt)
            if dt and out.dtype != dt:
                f = out.fn
                od = out.dtype
                out = self.new(out.shape, dt, lambda *idx, f=f, od=od: self.cast(f(*idx), od, dt, bits))
            out.bits = bits
            return out
        @reg('asarray')
        def _asarray(I_, a, k):
            d = k.get('dtype', a[1] if len(a) > 1 else None)
            dt, bits = self.dtype_of(d)
            v = I.force(a[0])
            if isinstance(v, NDArr) and (dt is None or (dt == v.dtype and (bits is None or bits == v.bits))):
                self.ax('np.asarray/asanyarray return the argument itself when no conversion is needed')
                if v.cls == 'FCSData':
                    return self.m_view(v, self.table['numpy.ndarray'])     # base-class view of the same buffer
                return v
            return _array(I_, a, k)

        @reg('asanyarray')
        def _asanyarray(I_, a, k):
            d = k.get('dtype', a[1] if len(a) > 1 else None)
            dt, bits = self.dtype_of(d)
            v = I.force(a[0])
            if isinstance(v, NDArr) and (dt is None or (dt == v.dtype and (bits is None or bits == v.bits))):
                self.ax('np.asarray/asanyarray return the argument itself when no conversion is needed')
                return v
            out = _array(I_, a, k)
            if isinstance(v, NDArr) and v.cls == 'FCSData':
                out2 = self.m_astype(v, d)
                return out2
            return out

        @reg('all')
        def _all(I_, a, k):
            return self.reduce('all', a[0], k.get('axis', a[1] if len(a) > 1 else None))

        @reg('any')
        def _any(I_, a, k):
            return self.reduce('any', a[0], k.get('axis', a[1] if len(a) > 1 else None))

        @reg('sum')
        def _sum(I_, a, k):
            return self.reduce('sum', a[0], k.get('axis', a[1] if len(a) > 1 else None))

        @reg('max')
        def _max(I_, a, k):
            return self.reduce('max', a[0], k.get('axis', a[1] if len(a) > 1 else None))

        @reg('min')
        def _min(I_, a, k):
            return self.reduce('min', a[0], k.get('axis', a[1] if len(a) > 1 else None))
        T['numpy.amax'] = T['numpy.max']
        T['numpy.amin'] = T['numpy.min']

        def uf(name):
            def f(I_, a, k):
                x = a[0]
                if isinstance(x, (NDArr, Seq, SymSeq)):
                    return self.ufunc1(name, x)
                return self.scalar_ufunc(name, x)
            return f
        for nm in ('log10', 'log', 'exp', 'sqrt', 'cos', 'sin', 'ceil', 'floor', 'log2', 'abs'):
            T['numpy.' + nm] = Builtin('np.' + nm, uf(nm))

        @reg('sign')
        def _sign(I_, a, k):
            x = I.force(a[0])
            if isinstance(x, NDArr):
                f = x.fn
                dt = x.dtype
                return self.finish(x.shape, dt if dt in ('int', 'float') else 'int',
                                   lambda *idx: z3.If(f(*idx) > 0, 1, z3.If(f(*idx) < 0, -1, 0)) if dt != 'float' else
                                   z3.If(f(*idx) > 0, z3.RealVal(1), z3.If(f(*idx) < 0, z3.RealVal(-1), z3.RealVal(0))), [x])
            e = I.z(x, 'real')
            return SV(z3.If(e > 0, z3.RealVal(1), z3.If(e < 0, z3.RealVal(-1), z3.RealVal(0))), 'real', True)
        T['numpy.absolute'] = T['numpy.abs']

        @reg('dot')
        def _dot(I_, a, k):
            A, B = self.as_array(a[0]), self.as_array(a[1])
            if A.ndim == 2 and B.ndim == 2 and isinstance(A.shape[1], int) and isinstance(B.shape[0], int):
                if A.shape[1] != B.shape[0]:
                    raise_py('ValueError', 'shapes not aligned')
                m = A.shape[1]
                self.ax('np.dot of 2-d arrays = sum over the shared axis')
                Afn, Bfn = A.fn, B.fn

                def fn(i, j):
                    return z3.Sum([self.cast(Afn(i, z3.IntVal(t)), A.dtype, 'float') * self.cast(Bfn(z3.IntVal(t), j), B.dtype, 'float')
                                   for t in range(m)])
                return self.new([A.shape[0], B.shape[1]], 'float', fn)
            raise Unsupported('np.dot on these shapes')

        @reg('arange')
        def _arange(I_, a, k):
            if len(a) == 1 and I.kind(a[0]) == 'int':
                n = a[0]
                nz = I.z(n, 'int')
                return self.new([self.norm_dim(z3.If(nz < 0, z3.IntVal(0), nz))], 'int', lambda i: i)
            raise Unsupported('np.arange form')

        @reg('linspace')
        def _linspace(I_, a, k):
            start, stop = a[0], a[1]
            num = a[2] if len(a) > 2 else k.get('num', 50)
            if I.kind(num) != 'int':
                raise_py('TypeError', 'num must be an integer')
            nz = I.z(num, 'int')
            if I.ctx.branch(nz < 0):
                raise_py('ValueError', 'Number of samples must be non-negative')
            s, e = I.z(start, 'real'), I.z(stop, 'real')
            self.ax('np.linspace(a,b,n)[i] = a + i*(b-a)/(n-1) (A-REAL)')
            return self.new([self.norm_dim(nz)], 'float',
                            lambda i, s=s, e=e, nz=nz: z3.If(nz == 1, s, s + z3.ToReal(i) * (e - s) / z3.ToReal(nz - 1)))

        @reg('isclose')
        def _isclose(I_, a, k):
            rt = k.get('rtol', a[2] if len(a) > 2 else None)
            at = k.get('atol', a[3] if len(a) > 3 else None)
            rt = z3.RealVal('1/100000') if rt is None else I_.z(rt, 'real')
            at = z3.RealVal('1/100000000') if at is None else I_.z(at, 'real')
            A, B = self.as_array(a[0]), self.as_array(a[1])
            shape, (fa, fb) = self.broadcast([A, B])
            Af, Bf = A.fn, B.fn
            zabs = lambda e: z3.If(e < 0, -e, e)
            self.ax('np.isclose(a, b): |a - b| <= atol + rtol*|b| over the reals')
            out = self.finish(shape, 'bool', lambda *idx: zabs(self.cast(Af(*fa(idx)), A.dtype, 'float') - self.cast(Bf(*fb(idx)), B.dtype, 'float'))
                              <= at + rt * zabs(self.cast(Bf(*fb(idx)), B.dtype, 'float')), [A, B])
            if not shape:
                return I_.mk(out.fn(), 'bool')
            return out

        def _round(I_, a, k):
            dec = k.get('decimals', a[1] if len(a) > 1 else 0)
            if not isinstance(dec, int):
                raise Unsupported('np.round with a symbolic number of decimals')
            x = a[0]
            if isinstance(x, NDArr) and x.ndim > 0:
                raise Unsupported('np.round of an array')
            e = I_.z(x.fn() if isinstance(x, NDArr) else x, 'real')
            rf = z3.Function('u_round%d' % dec, z3.RealSort(), z3.RealSort())
            half = z3.RealVal(5) / z3.RealVal(10 ** (dec + 1)) if dec >= 0 else z3.RealVal(5 * 10 ** (-dec - 1))
            xq = z3.Real('ax_rx')
            I_.ctx.add_axiom(z3.ForAll([xq], z3.And(rf(xq) - xq <= half, xq - rf(xq) <= half), patterns=[rf(xq)]),
                             'A-REAL:round(x, %d) is within half a unit of the last kept decimal of x' % dec)
            return SV(rf(e), 'real', True)
        T['numpy.round'] = Builtin('np.round', _round)
        T['numpy.around'] = Builtin('np.around', _round)

        @reg('isnan')
        def _isnan(I_, a, k):
            x = a[0]
            if isinstance(x, NDArr) and getattr(x, 'nanfn', None) is not None:
                return self.new(x.shape, 'bool', x.nanfn)
            if isinstance(x, NDArr):
                self.ax('A-REAL: no NaN in real-modelled arrays')
                return self.new(x.shape, 'bool', lambda *idx: z3.BoolVal(False))
            return False

        def stat(name):
            def f(I_, a, k):
                return self.col_stat(name, a[0], k.get('axis', a[1] if len(a) > 1 else None))
            return f
        for nm in ('mean', 'median', 'std'):
            T['numpy.' + nm] = Builtin('np.' + nm, stat(nm))

        @reg('percentile')
        def _percentile(I_, a, k):
            qs = a[1] if len(a) > 1 else k['q']
            axis = k.get('axis', a[2] if len(a) > 2 else None)
            if isinstance(qs, Seq):
                rows = [self.col_stat('percentile', a[0], axis, q=q) for q in qs.items]
                if all(isinstance(r_, NDArr) for r_ in rows):
                    fns = [r_.fn for r_ in rows]
                    def fn2(r, c, fns=fns):
                        e = fns[-1](c)
                        for kk in range(len(fns) - 2, -1, -1):
                            e = z3.If(r == kk, fns[kk](c), e)
                        return e
                    return self.finish([len(rows), rows[0].shape[0]], 'float', fn2, [self.as_array(a[0])])
                return stamp(Seq('list', rows))
            return self.col_stat('percentile', a[0], axis, q=qs)

        @reg('ndim')
        def _ndim(I_, a, k):
            v = I.force(a[0])
            return v.ndim if isinstance(v, NDArr) else 0

        @reg('histogram2d')
        def _histogram2d(I_, a, k):
            return self.histogram2d(a, k)

        @reg('histogram')
        def _histogram(I_, a, k):
            x = I_.force(a[0])
            bins = I_.force(k.get('bins', a[1] if len(a) > 1 else 10))
            if isinstance(bins, Opaque) and bins.tag == 'havoc':
                # bins taken from state the loop invariant does not describe: the result is unknown as well
                return stamp(Seq('tuple', [Opaque('havoc', 'histogram over undescribed bins'), bins]))
            if not (isinstance(bins, NDArr) and bins.ndim == 1):
                raise Unsupported('np.histogram with a bin count')
            nb = self.dim_z(bins.shape[0]) - 1
            from .interp import raise_py as _rp
            if I_.ctx.branch(nb < 1, safety=True):
                _rp('ValueError', '`bins` must have at least two edges')
            Hc = I_.ctx.fresh_fn('hist', z3.IntSort(), z3.IntSort())
            j_ = z3.Int('h1_j')
            I_.ctx.assume(z3.ForAll([j_], Hc(j_) >= 0, patterns=[Hc(j_)]))
            self.ax('np.histogram(x, edges): non-negative counts per bin of the given edges; returns the edges it was given')
            out = self.new([self.norm_dim(nb)], 'int', lambda t, Hc=Hc: Hc(t))
            out.hist1_of = (x, bins)
            return stamp(Seq('tuple', [out, bins]))

        @reg('digitize')
        def _digitize(I_, a, k):
            return self.digitize(a[0], k.get('bins', a[1] if len(a) > 1 else None))

        @reg('argsort')
        def _argsort(I_, a, k):
            return self.argsort(a[0])

        @reg('cumsum')
        def _cumsum(I_, a, k):
            return self.cumsum(a[0])

        @reg('roll')
        def _roll(I_, a, k):
            v = self.as_array(a[0])
            sh = k.get('shift', a[1] if len(a) > 1 else None)
            vals = self.concrete_values(v)
            if vals is None or not isinstance(sh, int) or not all(isinstance(x, int) for x in vals):
                raise Unsupported('np.roll of a symbolic array')
            n_ = len(vals)
            rolled = [vals[(i - sh) % n_] for i in range(n_)] if n_ else []
            return self.as_array(stamp(Seq('list', rolled)))

        @reg('nonzero')
        def _nonzero(I_, a, k):
            b = self.as_array(a[0])
            if b.ndim != 1 or b.dtype != 'bool':
                raise Unsupported('np.nonzero of a non 1-d boolean array')
            s_ = self.mask_sel(b, b.shape[0])
            self.ax('np.nonzero(b)[0] lists the positions where b holds, in increasing order')
            idx = self.new([s_.n], 'int', lambda r, s_=s_: s_.fn(r))
            I_.ctx._nonzero_sels = getattr(I_.ctx, '_nonzero_sels', []) + [s_]
            return stamp(Seq('tuple', [idx]))

        @reg('frompyfunc')
        def _frompyfunc(I_, a, k):
            def filler(I2, aa, kk):
                # filler(G, G): every cell of the object array G becomes the value of f(cell) -- used with f = lambda x: list()
                tgt = aa[1] if len(aa) > 1 else None
                if isinstance(tgt, NDArr) and tgt.dtype == 'object' and getattr(tgt, 'grid', None) is not None:
                    probe = I2.call(a[0], [None], {})
                    if not (isinstance(probe, Seq) and probe.kind == 'list' and not probe.items):
                        raise Unsupported('frompyfunc filler that does not produce empty lists')
                    tgt.grid.initialised = True
                    self.ax('np.frompyfunc(f,1,1)(G, G) stores f(cell) in every cell of the object array G')
                    return tgt
                raise Unsupported('np.frompyfunc call form')
            return Builtin('frompyfunc-result', filler)

        @reg('empty_like')
        def _empty_like(I_, a, k):
            src = self.as_array(a[0])
            d = k.get('dtype', a[1] if len(a) > 1 else None)
            dt, bits = self.dtype_of(d)
            if dt == 'object':
                out = self.new(src.shape, 'object', None)
                out.grid = GridState()
                return out
            raise Unsupported('np.empty_like with a numeric dtype (uninitialised memory)')

        @reg('logical_and')
        def _logical_and(I_, a, k):
            A, B = self.as_array(a[0]), self.as_array(a[1])
            shape, (fa, fb) = self.broadcast([A, B])
            Af, Bf = A.fn, B.fn
            tb = lambda e, dt: e if dt == 'bool' else self.cast(e, dt, 'bool')
            return self.finish(shape, 'bool', lambda *idx: z3.And(tb(Af(*fa(idx)), A.dtype), tb(Bf(*fb(idx)), B.dtype)), [A, B])

        @reg('dtype')
        def _dtype(I_, a, k):
            d = a[0]
            if isinstance(d, str):
                big = d.startswith('>')
                body = d.lstrip('<>=|')
                if body and body[0] in 'uf' and body[1:].isdigit():
                    nb = int(body[1:])
                    if body[0] == 'u' and nb in (1, 2, 4, 8):
                        return Opaque('dtype', ('uint', 8 * nb, big))
                    if body[0] == 'f' and nb in (4, 8):
                        return Opaque('dtype', ('float', 8 * nb, big))
                    raise_py('TypeError', 'data type %r not understood' % d)
            dt, bits = self.dtype_of(d)
            if dt == 'uint' and bits == 8:
                return Opaque('dtype', ('uint', 8, True))       # one byte: no byte order
            return Opaque('dtype', (dt, bits))

        @reg('memmap')
        def _memmap(I_, a, k):
            return self.memmap(a, k)

        @reg('allclose')
        def _allclose(I_, a, k):
            return self.allclose(a, k)

        @reg('array_equal')
        def _array_equal(I_, a, k):
            A, B = a[0], a[1]
            if not (isinstance(A, NDArr) and isinstance(B, NDArr)):
                raise Unsupported('array_equal on non-arrays')
            if A.ndim != B.ndim:
                return False
            for x, y in zip(A.shape, B.shape):
                if not zeq(x, y):
                    if not I.ctx.branch(self.dim_z(x) == self.dim_z(y)):
                        return False
            idx = [z3.Int('ae_i%d' % d) for d in range(A.ndim)]
            rng = z3.And(*[z3.And(0 <= i, i < self.dim_z(s)) for i, s in zip(idx, A.shape)]) if idx else z3.BoolVal(True)
            self.ax('np.array_equal = same shape and all elements equal (A-REAL: NaN not modelled)')
            w = self.join_dtype([A.dtype, B.dtype])
            body = self.cast(A.fn(*idx), A.dtype, w) == self.cast(B.fn(*idx), B.dtype, w)
            e = z3.ForAll(idx, z3.Implies(rng, body)) if idx else body
            return I.mk(e, 'bool')

    def memmap(self, a, k):
        """np.memmap(buf, dtype, mode='r', offset, shape, order='C') on a modelled file (A-IO):
        raises ValueError when offset + nbytes exceeds the file size; element (i, j) is the integer (or IEEE value)
        of the B bytes at offset + (i*D + j)*B in the declared byte order."""
        from .interp import raise_py
        I = self.I
        buf = a[0]
        if not (isinstance(buf, Opaque) and buf.tag == 'file'):
            raise Unsupported('memmap of a non-modelled buffer')
        fm = buf.payload
        d = k.get('dtype')
        if isinstance(d, str):
            d = self.table['numpy.dtype'].fn(I, [d], {})
        if not (isinstance(d, Opaque) and d.tag == 'dtype' and len(d.payload) == 3):
            raise Unsupported('memmap dtype')
        dt, bits, big = d.payload
        B = bits // 8
        if k.get('mode') != 'r' or k.get('order', 'C') != 'C':
            raise Unsupported('memmap mode/order')
        off = I.z(k.get('offset', 0), 'int')
        shp = k['shape']
        dims = [I.z(x, 'int') for x in (shp.items if isinstance(shp, Seq) else [shp])]
        if len(dims) != 2:
            raise Unsupported('memmap shape rank')
        N, D = dims
        I.ctx.use_axiom('A-IO:np.memmap raises when offset + N*D*B exceeds the file size or the file is empty, else exposes the bytes in C order')
        fm.facts(I)
        # (an empty file cannot be mapped at all, not even for an empty shape: found by the engine/CPython cross-check)
        if I.ctx.branch(z3.Or(off + N * D * B > fm.size, off < 0, N < 0, D < 0, fm.size == 0)):
            raise_py('ValueError', 'mmap length is greater than file size')
        byte = fm.byte

        def pos(i, j, kk):
            return off + (i * D + j) * B + kk
        if dt == 'uint':
            def fn(i, j):
                terms = []
                for kk in range(B):
                    e = (B - 1 - kk) if big else kk
                    terms.append(byte(pos(i, j, kk)) * (256 ** e))
                return z3.Sum(terms) if len(terms) > 1 else terms[0]
            out = self.new([self.norm_dim(N), self.norm_dim(D)], 'uint', fn)
            out.bits = bits
        else:
            ie = fm.ieee(bits)

            def fn(i, j):
                bs = [byte(pos(i, j, kk)) for kk in range(B)]
                if not big:
                    bs = list(reversed(bs))
                return ie(*bs)
            out = self.new([self.norm_dim(N), self.norm_dim(D)], 'float', fn)
            out.float_bits = bits
        out.writeable = False
        out.memmap_of = (fm, off, bits, big)
        return out

    # ---- histogram / sorting / prefix sums (assumed contracts: A-LIB) -------------------------------------------
    def edges_of(self, spec):
        """bin specification -> 1-d float array of edges (only explicit edges are modelled)"""
        spec = self.I.force(spec)
        if isinstance(spec, NDArr) and spec.ndim == 1:
            return spec
        if isinstance(spec, (Seq, SymSeq)):
            return self.as_array(spec)
        raise Unsupported('histogram bins given as a count (edges derived from the data range are not modelled)')

    def histogram2d(self, a, k):
        from .interp import stamp, raise_py
        I = self.I
        x, y = self.as_array(a[0]), self.as_array(a[1])
        bins = I.force(k.get('bins', a[2] if len(a) > 2 else 10))
        if isinstance(bins, Seq) and len(bins.items) == 2 and not all(I.is_number(b_) for b_ in bins.items):
            xe, ye = self.edges_of(bins.items[0]), self.edges_of(bins.items[1])
        elif isinstance(bins, NDArr) and bins.ndim == 1:
            xe = ye = bins
        else:
            raise Unsupported('np.histogram2d with bin counts')
        nx, ny = self.dim_z(xe.shape[0]) - 1, self.dim_z(ye.shape[0]) - 1
        if I.ctx.branch(z3.Or(nx < 1, ny < 1), safety=True):
            raise_py('ValueError', 'bins must have at least two edges')
        H = I.ctx.fresh_fn('H', z3.IntSort(), z3.IntSort(), z3.RealSort())
        i, j = z3.Ints('h_i h_j')
        I.ctx.assume(z3.ForAll([i, j], H(i, j) >= 0, patterns=[H(i, j)]))
        self.ax('np.histogram2d(x, y, [xe, ye]): counts over half-open bins with a closed last edge; returns the edges it was given')
        Harr = self.new([self.norm_dim(nx), self.norm_dim(ny)], 'float', lambda a_, b_: H(a_, b_))
        Harr.hist_of = {'x': x.fn, 'y': y.fn, 'xe': xe, 'ye': ye, 'n': x.shape[0], 'H': H}
        xef, yef = xe.fn, ye.fn
        xe2 = self.new(list(xe.shape), 'float', lambda r: self.cast(xef(r), xe.dtype, 'float'))
        ye2 = self.new(list(ye.shape), 'float', lambda r: self.cast(yef(r), ye.dtype, 'float'))
        return stamp(Seq('tuple', [Harr, xe2, ye2]))

    def digitize(self, x, bins):
        I = self.I
        x, e = self.as_array(x), self.as_array(bins)
        if x.ndim != 1 or e.ndim != 1:
            raise Unsupported('np.digitize on these shapes')
        L = self.dim_z(e.shape[0])
        N = self.dim_z(x.shape[0])
        DG = I.ctx.fresh_fn('digitize', z3.IntSort(), z3.IntSort())
        xf, ef = x.fn, e.fn
        i = z3.Int('dg_i')
        xv = lambda t: self.cast(xf(t), x.dtype, 'float')
        ev = lambda t: self.cast(ef(t), e.dtype, 'float')
        I.ctx.assume(z3.ForAll([i], z3.Implies(z3.And(0 <= i, i < N),
                                               z3.And(0 <= DG(i), DG(i) <= L,
                                                      z3.Implies(DG(i) >= 1, ev(DG(i) - 1) <= xv(i)),
                                                      z3.Implies(DG(i) <= L - 1, xv(i) < ev(DG(i))))), patterns=[DG(i)]))
        self.ax('np.digitize(x, e)[i] = number of edges <= x[i] for increasing edges e (e[d-1] <= x < e[d])')
        out = self.new([x.shape[0]], 'int', lambda t: DG(t))
        out.digitize_of = (xf, e)
        return out

    def argsort(self, v):
        I = self.I
        v = self.as_array(v)
        if v.ndim != 1:
            raise Unsupported('np.argsort of a non 1-d array')
        M = self.dim_z(v.shape[0])
        P = I.ctx.fresh_fn('argsort', z3.IntSort(), z3.IntSort())
        Q = I.ctx.fresh_fn('argsort_inv', z3.IntSort(), z3.IntSort())
        vf = v.fn
        k, k2, j = z3.Ints('as_k as_k2 as_j')
        # (triggers avoid the loop P(k) -> Q(P(k)) -> P(Q(P(k))) ...)
        I.ctx.assume(z3.ForAll([k], z3.Implies(z3.And(0 <= k, k < M), z3.And(0 <= P(k), P(k) < M)), patterns=[P(k)]))
        I.ctx.assume(z3.ForAll([k], z3.Implies(z3.And(0 <= k, k < M), Q(P(k)) == k), patterns=[Q(P(k))]))
        I.ctx.assume(z3.ForAll([j], z3.Implies(z3.And(0 <= j, j < M), z3.And(0 <= Q(j), Q(j) < M, P(Q(j)) == j)), patterns=[Q(j)]))
        I.ctx.assume(z3.ForAll([k, k2], z3.Implies(z3.And(0 <= k, k < k2, k2 < M), z3.And(vf(P(k)) <= vf(P(k2)), P(k) != P(k2))),
                               patterns=[z3.MultiPattern(P(k), P(k2))]))
        self.ax('np.argsort(v): a permutation p of the positions with v[p[k]] non-decreasing in k')
        out = self.new([v.shape[0]], 'int', lambda t: P(t))
        out.perm = (P, Q, vf)
        out.sorted_src = v
        return out

    def cumsum(self, v):
        I = self.I
        v = self.as_array(v)
        if v.ndim != 1:
            raise Unsupported('np.cumsum of a non 1-d array')
        vals = self.concrete_values(v)
        if vals is not None and all(isinstance(x, int) for x in vals):
            acc, tot = [], 0
            for x in vals:
                tot += x
                acc.append(tot)
            return self.as_array(__import__('pyvc.interp', fromlist=['stamp']).stamp(Seq('list', acc)))
        M = self.dim_z(v.shape[0])
        dt = 'float' if v.dtype == 'float' else 'int'
        C = I.ctx.fresh_fn('cumsum', z3.IntSort(), z3.RealSort() if dt == 'float' else z3.IntSort())
        vf = v.fn
        val = lambda t: self.cast(vf(t), v.dtype, dt)
        k = z3.Int('cs_k')
        I.ctx.assume(C(z3.IntVal(0)) == val(z3.IntVal(0)))
        kp = z3.Int('cs_kp')
        # two-variable form: only instantiated for pairs of cumulative sums that are already being talked about
        # (the one-variable form C(k) -> C(k-1) -> C(k-2) ... is a matching loop)
        I.ctx.assume(z3.ForAll([k, kp], z3.Implies(z3.And(1 <= k, k < M, kp == k - 1), C(k) == C(kp) + val(k)),
                               patterns=[z3.MultiPattern(C(k), C(kp))]))
        self.ax('np.cumsum(v)[k] = v[0] + ... + v[k]')
        out = self.new([v.shape[0]], dt, lambda t: C(t))
        out.cumsum_of = (C, vf)
        return out

    # ---- column statistics (assumed textbook reductions: A-LIB) ---------------------------------
    def col_stat(self, name, X, axis, q=None):
        """np.mean/median/std/percentile, scipy.stats.gmean/mode over axis 0: an uninterpreted function of the
        column's values (as an Int->Real array) and its length.  Callers get STAT(lambda i. X[i, c], N)."""
        from .interp import raise_py
        I = self.I
        X = self.as_array(X)
        if axis not in (0, None) or (axis is None and X.ndim != 1):
            raise Unsupported('%s over axis %r' % (name, axis))
        if X.dtype not in ('float', 'int', 'uint', 'bool'):
            raise Unsupported('%s of a %s array' % (name, X.dtype))
        if q is not None and X.cls == 'FCSData' and X.dtype == 'float':
            # behavioural-subtyping precondition (measured on the installed NumPy: np.percentile probes float input
            # with arr[-1, ...]): the subclass' __getitem__ must accept that key
            self.ax('np.percentile indexes a float argument with (-1, Ellipsis) (NaN probe)')
            from .interp import stamp as _st
            I.getitem(X, _st(Seq('tuple', [-1, ELLIPSIS])))
        AS = z3.ArraySort(z3.IntSort(), z3.RealSort())
        sig = [AS, z3.IntSort()] + ([z3.RealSort()] if q is not None else []) + [z3.RealSort()]
        F = z3.Function('STAT_' + name, *sig)
        self.ax('%s(axis=0) is the textbook statistic of each column (assumed)' % name)
        N = self.dim_z(X.shape[0])
        xf = X.fn
        dt = X.dtype
        i = z3.Int('cs_i')

        def col(*rest):
            return z3.Lambda([i], self.cast(xf(i, *rest), dt, 'float'))
        extra = [I.z(q, 'real')] if q is not None else []
        if X.ndim == 1:
            return self.scalar(F(col(), N, *extra), 'float')
        if X.ndim == 2:
            return self.finish([X.shape[1]], 'float', lambda c: F(col(c), N, *extra), [X])
        raise Unsupported('%s of a %d-d array' % (name, X.ndim))

    def allclose(self, a, k):
        I = self.I
        A, B = self.as_array(a[0]), self.as_array(a[1])
        rtol = k.get('rtol', a[2] if len(a) > 2 else I.real(1e-05))
        atol = k.get('atol', a[3] if len(a) > 3 else I.real(1e-08))
        shape, (fa, fb) = self.broadcast([A, B])
        Afn, Bfn = A.fn, B.fn
        idx = [z3.Int('ac_i%d' % d) for d in range(len(shape))]
        rng = z3.And(*[z3.And(0 <= i, i < self.dim_z(s_)) for i, s_ in zip(idx, shape)]) if idx else z3.BoolVal(True)
        x = self.cast(Afn(*fa(idx)), A.dtype, 'float')
        y = self.cast(Bfn(*fb(idx)), B.dtype, 'float')
        ab = lambda e: z3.If(e < 0, -e, e)
        body = ab(x - y) <= I.z(atol, 'real') + I.z(rtol, 'real') * ab(y)
        self.ax('np.allclose: |a-b| <= atol + rtol*|b| elementwise (A-REAL)')
        return I.mk(z3.ForAll(idx, z3.Implies(rng, body)) if idx else body, 'bool')

    def scalar_ufunc(self, name, x):
        from . import interp as M
        I = self.I
        if isinstance(x, Inf):
            raise Unsupported('ufunc of infinity')
        if not I.is_number(x):
            from .interp import raise_py
            raise_py('TypeError', 'ufunc %s not supported for the input types' % name)
        I.real_axioms()
        e = I.z(x, 'real')
        if name in ('ceil', 'floor'):
            self.ceil_axioms()
            g = M.fceil if name == 'ceil' else M.ffloor
            r = SV(z3.ToReal(g(e)), 'real', True)
            r.int_valued = g(e)
            return r
        if name == 'abs':
            return self.I.builtins['abs'].fn(I, [x], {})
        f = {'log10': M.log10, 'log': M.flog, 'exp': M.fexp, 'sqrt': M.fsqrt, 'cos': M.fcos, 'sin': M.fsin,
             'log2': M.flog2}[name]
        self.ax('A-REAL:%s uninterpreted' % name)
        r = SV(f(e), 'real', True)
        return r
