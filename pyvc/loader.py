"""Loads the real sources from the working tree on every run."""
import ast
import hashlib
import os

REPO = os.environ.get('FLOWCAL_REPO', '/repo')

_cache = {}


def module_path(modname):
    # 'FlowCal.gate' -> /repo/FlowCal/gate.py
    parts = modname.split('.')
    p = os.path.join(REPO, *parts) + '.py'
    if os.path.exists(p):
        return p
    p2 = os.path.join(REPO, *parts, '__init__.py')
    return p2


def load_module_ast(modname):
    path = module_path(modname)
    st = os.stat(path)
    key = (path, st.st_mtime_ns, st.st_size)
    if key in _cache:
        return _cache[key]
    with open(path, 'rb') as f:
        src = f.read().decode('utf-8')
    tree = ast.parse(src, filename=path)
    _cache[key] = (tree, src, path)
    return _cache[key]


def find_def(modname, qual):
    """qual: 'start_end' or 'FCSData.__getitem__'. Returns (node, class_node_or_None)."""
    tree, src, path = load_module_ast(modname)
    parts = qual.split('.')
    body = tree.body
    cls = None
    node = None
    for i, p in enumerate(parts):
        found = None
        for n in body:
            if isinstance(n, (ast.FunctionDef, ast.ClassDef)) and n.name == p:
                found = n
        if found is None:
            raise KeyError('%s.%s not found in %s' % (modname, qual, path))
        if isinstance(found, ast.ClassDef) and i < len(parts) - 1:
            cls = found
        body = found.body
        node = found
    return node, cls


def source_hash(modname, qual):
    tree, src, path = load_module_ast(modname)
    node, _ = find_def(modname, qual)
    seg = ast.get_source_segment(src, node) or ''
    return hashlib.sha256(seg.encode('utf-8')).hexdigest()


def strip_docstring(body):
    if body and isinstance(body[0], ast.Expr) and isinstance(getattr(body[0], 'value', None), ast.Constant) \
            and isinstance(body[0].value.value, str):
        return body[1:]
    return body
