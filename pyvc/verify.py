"""Verification driver: explores a real function under a contract, collects and discharges obligations."""
import os
import subprocess
import threading
import tempfile
import time
import traceback
import z3

from .ctx import Explorer, Unsupported, PathAbort, Obligation
from .interp import Interp, _Return, LoopCut, EXC, exc_is
from .values import PyExc, ExcObj
from . import loader


class Outcome(object):
    def __init__(self, kind, value=None, exc=None):
        self.kind = kind      # 'return' | 'raise'
        self.value = value
        self.exc = exc

    def raised(self, name):
        return self.kind == 'raise' and exc_is(self.exc.cls, EXC[name])


class Contract(object):
    """Base class for sidecar contracts of one real function."""
    target = None            # 'FlowCal.gate.start_end'
    property_ids = ()
    config = {}
    assumptions = ()         # preconditions that exclude paths etc. (reported)

    def cases(self):
        return [{}]

    def setup(self, I, case):
        """-> (args, kwargs, aux); creates symbolic inputs and assumes the precondition"""
        raise NotImplementedError

    def check(self, I, case, aux, out):
        """called at the end of every path; states ensures via I.ctx.prove(name, formula)"""
        raise NotImplementedError

    def loop_specs(self):
        return {}

    def expected_outcomes(self, case):
        """labels of outcomes that must be reachable (vacuity guard)"""
        return ['return']

    def witness(self, model, case, aux):
        return None


def split_target(t):
    parts = t.split('.')
    # module is the longest prefix that is a file
    for i in range(len(parts), 0, -1):
        mod = '.'.join(parts[:i])
        p = loader.module_path(mod)
        if os.path.exists(p) and i < len(parts):
            return mod, '.'.join(parts[i:])
    raise KeyError(t)


class ObResult(object):
    def __init__(self, ob, status, backend, seconds, model=None, reason=None, case=None, path=None):
        self.name = ob.name
        self.kind = ob.kind
        self.fn = ob.fn
        self.status = status      # 'unsat' (discharged) | 'sat' | 'unknown'
        self.backend = backend
        self.seconds = seconds
        self.model = model
        self.reason = reason
        self.case = case
        self.path = path
        self.witness = None
        self.smt2 = None
        self.meta = ob.meta


def _fresh_smt2(ob):
    s = z3.Solver()
    for h in ob.hyps:
        s.add(h)
    s.add(z3.Not(ob.goal))
    return s.to_smt2()      # from a solver that never ran: z3 dumps its preprocessed state otherwise


def solve_obligation(ob, timeout_ms=20000, want_smt2=False, hints=()):
    """z3 first (short budget) with cvc5 started alongside on hard-looking queries, then z3 with other
    configurations.  'sat' only from z3 (a model is needed for replay)."""
    from .ctx import has_quantifier
    zver = 'z3-%s' % z3.get_version_string()
    s = z3.Solver()
    s.set('timeout', 700)
    for h in ob.hyps:
        s.add(h)
    s.add(z3.Not(ob.goal))
    t0 = time.time()
    r = s.check()
    proc = None
    cv_result = None
    smt2_bg = None
    if r == z3.unknown:
        # non-linear arithmetic makes z3 give up on queries whose proof never looks inside the products: try once with every
        # product of two symbolic factors abstracted to an uninterpreted function (sound for 'unsat')
        try:
            ab, n_ab = abstract_nonlinear(list(ob.hyps) + [z3.Not(ob.goal)])
            if n_ab:
                sa = z3.Solver()
                sa.set('timeout', min(timeout_ms, 6000))
                for h in ab:
                    sa.add(h)
                if sa.check() == z3.unsat:
                    return 'unsat', zver + '(products of symbolic factors abstracted to uninterpreted functions)', time.time() - t0, None, None, None
        except Exception:
            pass
    if r == z3.unknown:
        # hard: cvc5 and a second z3 (CLI) run as separate processes on the dumped query; no threads in this process
        # (z3's Python objects are not safe to finalise while another thread is inside the solver)
        smt2_bg = _fresh_smt2(ob)
        proc = start_cvc5(smt2_bg, timeout_ms)
        zproc = start_z3cli(smt2_bg, min(timeout_ms, 10000))
        zres = None
        while True:
            done_c = proc is None or proc.poll() is not None
            done_z = zproc is None or zproc.poll() is not None
            if done_c and proc is not None:
                cv_result = wait_cvc5(proc, 1000)
                proc = None
                if cv_result[0] == 'unsat':
                    stop_cvc5(zproc)
                    return 'unsat', 'cvc5-1.0.3', time.time() - t0, None, None, smt2_bg
            if done_z and zproc is not None:
                zres = wait_cvc5(zproc, 1000)[0]
                zproc = None
                if zres == 'unsat':
                    stop_cvc5(proc)
                    return 'unsat', zver + '(cli)', time.time() - t0, None, None, smt2_bg
            if proc is None and zproc is None:
                break
            time.sleep(0.03)
        if zres == 'sat':
            # a model is needed for the replay: repeat in-process
            s = z3.Solver()
            s.set('timeout', min(timeout_ms, 10000))
            for h in ob.hyps:
                s.add(h)
            s.add(z3.Not(ob.goal))
            r = s.check()
        else:
            r = z3.unknown
    dt = time.time() - t0
    if r == z3.unsat:
        stop_cvc5(proc)
        return 'unsat', zver, dt, None, None, None
    if r == z3.sat:
        stop_cvc5(proc)
        model = s.model()
        smt2 = _fresh_smt2(ob)
        # small-model bias for replay: try progressively weaker size hints
        for h in hints:
            s.push()
            s.add(h)
            if s.check() == z3.sat:
                model = s.model()
                s.pop()
                break
            s.pop()
        return 'sat', zver, dt, model, None, smt2
    reason = 'timeout/incomplete'
    smt2 = smt2_bg if smt2_bg is not None else _fresh_smt2(ob)
    st, secs = cv_result if cv_result is not None else ('not-run', 0.0)

    dt += secs
    if st == 'unsat':
        return 'unsat', 'cvc5-1.0.3', dt, None, None, smt2
    # hypotheses that the proof does not need can keep the quantifier engine busy for ever: retry without all hypotheses that
    # mention one uninterpreted function the goal does not mention (one query per such function, run in parallel as z3
    # processes).  Proving from fewer hypotheses is sound.
    try:
        fam = family_drop(ob, min(timeout_ms, 4000))
    except Exception:
        fam = None
    if fam is not None:
        return 'unsat', zver + '(cli; without the hypotheses mentioning %s)' % fam, time.time() - t0, None, None, smt2
    for cfg in ({'smt.mbqi': False, 'smt.random_seed': 7}, {'smt.arith.solver': 2, 'smt.random_seed': 3}, {}):
        s2 = z3.Solver()
        s2.set('timeout', timeout_ms)
        for kx, vx in cfg.items():
            try:
                s2.set(kx, vx)
            except Exception:
                pass
        for h in ob.hyps:
            s2.add(h)
        s2.add(z3.Not(ob.goal))
        t1 = time.time()
        r2 = s2.check()
        dt += time.time() - t1
        if r2 == z3.unsat:
            return 'unsat', zver + '(alt)', dt, None, None, smt2
        if r2 == z3.sat:
            return 'sat', zver + '(alt configuration; candidate only)', dt, s2.model(), None, smt2
    # last resort: drop the quantified hypotheses (sound: proving from fewer hypotheses)
    from .ctx import has_quantifier
    qf = [h for h in ob.hyps if not has_quantifier(h)]
    if len(qf) < len(ob.hyps):
        s3 = z3.Solver()
        s3.set('timeout', timeout_ms)
        for h in qf:
            s3.add(h)
        s3.add(z3.Not(ob.goal))
        t1 = time.time()
        r3 = s3.check()
        dt += time.time() - t1
        if r3 == z3.unsat:
            return 'unsat', zver + '(qf-hyps)', dt, None, None, smt2
    # candidate counterexample: instantiate the quantified hypotheses on the ground terms of the query and
    # look for a model of the quantifier-free result (a model of weakened hypotheses may be spurious: it is
    # only ever used as an input for the replay on the real code, never as a verdict by itself)
    try:
        ghyps = ground_instances(ob.hyps, ob.goal)
        s4 = z3.Solver()
        s4.set('timeout', timeout_ms)
        for h in ghyps:
            s4.add(h)
        s4.add(z3.Not(ob.goal))
        t1 = time.time()
        r4 = s4.check()
        dt += time.time() - t1
        if r4 == z3.sat:
            model = s4.model()
            for h in hints:
                s4.push()
                s4.add(h)
                if s4.check() == z3.sat:
                    model = s4.model()
                    s4.pop()
                    break
                s4.pop()
            return 'sat', zver + '(ground-instances; candidate only)', dt, model, None, smt2
    except Exception:
        pass
    return 'unknown', 'z3+cvc5', dt, None, '%s / cvc5:%s' % (reason, st), smt2


def _fn_symbols(e, acc, seen):
    stack = [e]
    while stack:
        x = stack.pop()
        i = x.get_id()
        if i in seen:
            continue
        seen.add(i)
        if z3.is_quantifier(x):
            stack.append(x.body())
            continue
        if z3.is_app(x):
            if x.num_args() > 0 and x.decl().kind() == z3.Z3_OP_UNINTERPRETED:
                acc.add(x.decl().name())
            stack.extend(x.children())


def family_drop(ob, timeout_ms, max_par=12):
    gsyms = set()
    _fn_symbols(ob.goal, gsyms, set())
    per_h = []
    allsyms = {}
    for h in ob.hyps:
        a = set()
        _fn_symbols(h, a, set())
        per_h.append(a)
        for n_ in a:
            allsyms[n_] = allsyms.get(n_, 0) + 1
    cands = sorted((n_ for n_ in allsyms if n_ not in gsyms), key=lambda n_: -allsyms[n_])[:36]
    if not cands:
        return None
    queue = list(cands)
    running = []
    found = None
    try:
        while (queue or running) and found is None:
            while queue and len(running) < max_par:
                name = queue.pop(0)
                sv = z3.Solver()
                for h, a in zip(ob.hyps, per_h):
                    if name not in a:
                        sv.add(h)
                sv.add(z3.Not(ob.goal))
                pr = start_z3cli(sv.to_smt2(), timeout_ms)
                if pr is not None:
                    running.append((name, pr))
            still = []
            for name, pr in running:
                if pr.poll() is None:
                    still.append((name, pr))
                    continue
                res = wait_cvc5(pr, 500)[0]
                if res == 'unsat' and found is None:
                    found = name
            running = still
            if found is None:
                time.sleep(0.03)
    finally:
        for _n, pr in running:
            stop_cvc5(pr)
    return found


_NL = {}


def _nl_fn(kind, sort):
    key = (kind, sort.name())
    if key not in _NL:
        _NL[key] = z3.Function('u_nl%s_%s' % (kind, sort.name().lower()), sort, sort, sort)
    return _NL[key]


def abstract_nonlinear(exprs):
    """every product of two non-numeral factors (and every quotient / div / mod by a non-numeral) becomes an application of an
    uninterpreted function.  The result has at least the models of the input, so 'unsat' carries over; 'sat' means nothing.
    Returns (new expressions, number of abstracted operators)."""
    cache = {}
    keep = []
    count = [0]
    fresh = [0]

    def is_num(e):
        if z3.is_int_value(e) or z3.is_rational_value(e) or z3.is_algebraic_value(e):
            return True
        if z3.is_app(e) and e.decl().kind() == z3.Z3_OP_UMINUS:
            return is_num(e.arg(0))
        if z3.is_app(e) and e.decl().kind() == z3.Z3_OP_TO_REAL:
            return is_num(e.arg(0))
        return False

    def go(e):
        i = e.get_id()
        if i in cache:
            return cache[i]
        keep.append(e)
        if z3.is_quantifier(e):
            nv = e.num_vars()
            vs = []
            for j in range(nv):
                fresh[0] += 1
                vs.append(z3.Const('nlbv!%d!%s' % (fresh[0], e.var_name(j)), e.var_sort(j)))
            body = z3.substitute_vars(go(e.body()), *reversed(vs))
            pats = []
            for j in range(e.num_patterns()):
                pt = e.pattern(j)
                terms = [z3.substitute_vars(go(pt.arg(a_)), *reversed(vs)) for a_ in range(pt.num_args())]
                pats.append(z3.MultiPattern(*terms) if len(terms) > 1 else terms[0])
            if e.is_forall():
                r = z3.ForAll(vs, body, patterns=pats) if pats else z3.ForAll(vs, body)
            else:
                r = z3.Exists(vs, body, patterns=pats) if pats else z3.Exists(vs, body)
        elif z3.is_app(e) and e.num_args() > 0:
            ch = [go(c_) for c_ in e.children()]
            k = e.decl().kind()
            if k == z3.Z3_OP_MUL:
                nums = [c_ for c_ in ch if is_num(c_)]
                rest = [c_ for c_ in ch if not is_num(c_)]
                if len(rest) >= 2:
                    count[0] += 1
                    f = _nl_fn('mul', e.sort())
                    acc = rest[0]
                    for c_ in rest[1:]:
                        acc = f(acc, c_)
                    for c_ in nums:
                        acc = c_ * acc
                    r = acc
                else:
                    r = e.decl()(*ch)
            elif k in (z3.Z3_OP_DIV, z3.Z3_OP_IDIV, z3.Z3_OP_MOD, z3.Z3_OP_REM) and not is_num(ch[1]):
                count[0] += 1
                r = _nl_fn({z3.Z3_OP_DIV: 'div', z3.Z3_OP_IDIV: 'idiv', z3.Z3_OP_MOD: 'mod', z3.Z3_OP_REM: 'rem'}[k], e.sort())(ch[0], ch[1])
            else:
                r = e.decl()(*ch)
        else:
            r = e
        cache[i] = r
        return r
    out = [go(e) for e in exprs]
    return out, count[0]


def _subterms(e, acc, seen):
    stack = [e]
    while stack:
        x = stack.pop()
        i = x.get_id()
        if i in seen:
            continue
        seen.add(i)
        if z3.is_quantifier(x):
            continue
        if z3.is_app(x):
            acc.setdefault(x.decl().name(), []).append(x)
            stack.extend(x.children())


def ground_instances(hyps, goal):
    from .ctx import has_quantifier
    ground = {}
    seen = set()
    qs = []
    out = []
    for h in hyps:
        if z3.is_quantifier(h) and h.is_forall():
            qs.append(h)
        elif has_quantifier(h):
            continue
        else:
            out.append(h)
            _subterms(h, ground, seen)
    _subterms(goal, ground, seen)
    for q in qs:
        nv = q.num_vars()
        if nv != 1 or q.num_patterns() == 0:
            continue
        pat = q.pattern(0)
        if pat.num_args() != 1 if hasattr(pat, 'num_args') else False:
            continue
        p0 = pat.arg(0) if pat.num_args() >= 1 else None
        if p0 is None or not z3.is_app(p0) or p0.num_args() != 1 or not z3.is_var(p0.arg(0)):
            continue
        fname = p0.decl().name()
        done = set()
        for t in ground.get(fname, [])[:200]:
            a = t.arg(0)
            if a.get_id() in done:
                continue
            done.add(a.get_id())
            out.append(z3.substitute_vars(q.body(), a))
    return out


def start_cvc5(smt2, timeout_ms):
    try:
        f = tempfile.NamedTemporaryFile('w', suffix='.smt2', delete=False)
        f.write('(set-logic ALL)\n')
        f.write(smt2)
        f.close()
        p = subprocess.Popen(['/usr/bin/cvc5', '--lang=smt2', '--strings-exp', '--tlimit=%d' % timeout_ms, f.name],
                             stdout=subprocess.PIPE, stderr=subprocess.PIPE, text=True)
        p._path = f.name
        p._t0 = time.time()
        return p
    except Exception:
        return None


def start_z3cli(smt2, timeout_ms):
    try:
        f = tempfile.NamedTemporaryFile('w', suffix='.smt2', delete=False)
        f.write(smt2)
        f.write('\n(check-sat)\n' if '(check-sat)' not in smt2 else '')
        f.close()
        p = subprocess.Popen(['z3-new', '-T:%d' % max(1, timeout_ms // 1000), f.name], stdout=subprocess.PIPE,
                             stderr=subprocess.PIPE, text=True)
        p._path = f.name
        p._t0 = time.time()
        return p
    except Exception:
        return None


def stop_cvc5(p):
    if p is None:
        return
    try:
        p.kill()
        p.communicate(timeout=5)
    except Exception:
        pass
    try:
        os.unlink(p._path)
    except Exception:
        pass


def wait_cvc5(p, timeout_ms):
    if p is None:
        return 'error:not-started', 0.0
    t0 = time.time()
    try:
        out, err = p.communicate(timeout=timeout_ms / 1000.0 + 5)
        lines = (out or '').strip().splitlines()
        st = lines[0] if lines else ('error:' + (err or '')[:100])
    except Exception as e:
        st = 'error:%s' % type(e).__name__
        try:
            p.kill()
        except Exception:
            pass
    try:
        os.unlink(p._path)
    except Exception:
        pass
    return st, time.time() - t0


def run_cvc5(smt2, timeout_ms):
    t0 = time.time()
    try:
        with tempfile.NamedTemporaryFile('w', suffix='.smt2', delete=False) as f:
            f.write('(set-logic ALL)\n')
            f.write(smt2)
            path = f.name
        try:
            p = subprocess.run(['/usr/bin/cvc5', '--lang=smt2', '--strings-exp', '--tlimit=%d' % timeout_ms, path],
                               capture_output=True, text=True, timeout=timeout_ms / 1000.0 + 5)
            out = (p.stdout or '').strip().splitlines()
            st = out[0] if out else 'error'
        finally:
            os.unlink(path)
    except Exception as e:
        st = 'error:%s' % type(e).__name__
    return st, time.time() - t0


class FnReport(object):
    def __init__(self, target):
        self.target = target
        self.source_sha256 = None
        self.cases = []
        self.results = []          # ObResult
        self.paths = 0
        self.unsupported = []      # reasons (function out of reach)
        self.covers = {}
        self.axioms_used = set()
        self.branch_queries = 0
        self.solver_s = 0.0
        self.wall_s = 0.0
        self.notes = []
        self.errors = []

    @property
    def obligations(self):
        return len(self.results)

    @property
    def discharged(self):
        return sum(1 for r in self.results if r.status == 'unsat')


def verify(contract, timeout_ms=20000, case_filter=None, mutate=None, verbose=False, stop_at_first_failure=False):
    """Explore the real function under `contract`; returns FnReport."""
    t_start = time.time()
    mod, qual = split_target(contract.target)
    rep = FnReport(contract.target)
    try:
        rep.source_sha256 = loader.source_hash(mod, qual)
    except Exception as e:
        rep.errors.append('cannot locate %s: %s' % (contract.target, e))
        return rep
    for ci, case in enumerate(contract.cases()):
        label = case.get('label', 'case%d' % ci)
        if case_filter and not case_filter(label):
            continue
        ex = Explorer(contract.target, **contract_budget(contract))
        aux_box = {}

        def runner(ctx, case=case):
            cfg = dict(contract.config)
            cfg['loop_specs'] = contract.loop_specs()
            I = Interp(ctx, cfg)
            if mutate is not None:
                I.ast_mutation = (contract.target, mutate)
                aux_box['I'] = I
            ctx.case = case
            args, kwargs, aux = contract.setup(I, case)
            aux_box['aux'] = aux
            ctx.aux = aux
            fn = resolve(I, mod, qual)
            I.entry_depth = len(I.fn_stack)
            from .interp import _stamp
            call_stamp = next(_stamp)
            n_writes0 = len(I.writes)
            try:
                v = I.call(fn, args, kwargs)
                out = Outcome('return', v)
            except PyExc as e:
                out = Outcome('raise', exc=e.exc)
            if getattr(contract, 'frame', True):
                frame_obligations(I, contract, args, kwargs, out, call_stamp, I.writes[n_writes0:])
            contract.check(I, case, aux, out)
            ctx.outcome_label = out.kind if out.kind == 'return' else 'raise:' + out.exc.cls.name
            return (out.kind, out)
        try:
            paths = ex.run(runner)
        except Unsupported as e:
            rep.unsupported.append('%s: %s' % (label, e))
            rep.cases.append({'label': label, 'paths': 0, 'unsupported': str(e)})
            if 'time budget' in str(e):
                raise
            continue
        except Exception as e:
            rep.errors.append('%s: internal error %s: %s\n%s' % (label, type(e).__name__, e, traceback.format_exc()))
            continue
        rep.branch_queries += ex.n_branch_queries
        rep.solver_s += ex.branch_solver_s
        n_live = 0
        outcomes = {}
        outcomes_infeasible = {}
        for pi, p in enumerate(paths):
            rep.axioms_used |= p.axioms_used
            if p.outcome == 'abort' and not (p.aborted or '').startswith('loop cut') and 'loop' not in (p.aborted or ''):
                pass
            if p.outcome != 'abort':
                n_live += 1
                lab = 'return' if p.outcome == 'return' and p.value.kind == 'return' else 'raise:' + p.value.exc.cls.name
                outcomes[lab] = outcomes.get(lab, 0) + 1
            for ob in p.obligations:
                ob.path_id = pi
                hints = contract.small_hints(case, getattr(p, 'aux', None) or aux_box.get('aux')) if hasattr(contract, 'small_hints') else ()
                st, be, secs, model, reason, smt2 = solve_obligation(ob, timeout_ms, hints=hints)
                r = ObResult(ob, st, be, secs, model, reason, case=label, path=pi)
                r.smt2 = smt2
                rep.solver_s += secs
                if st == 'sat':
                    try:
                        r.witness = contract.witness(model, case, getattr(p, 'aux', None) or aux_box.get('aux'))
                    except Exception as e:
                        r.witness = {'error': 'witness extraction failed: %s\n%s' % (e, traceback.format_exc()[-1200:])}
                    r.model_text = model_text(model)
                rep.results.append(r)
                if verbose:
                    print('   %-60s %-8s %s %.3fs' % (ob.name, st, be, secs))
                if stop_at_first_failure and st != 'unsat':
                    rep.stopped_early = True
                    break
            if getattr(rep, 'stopped_early', False):
                break
            # vacuity guard: a path whose hypotheses (path condition, assumed library contracts with their quantified axioms,
            # lemmas assumed after being proved) are contradictory is infeasible and proves nothing; such paths do not count
            # towards the reachability covers below
            if p.outcome != 'abort' and p.obligations:
                last = p.obligations[-1]
                sv = z3.Solver()
                sv.set('timeout', 700)
                for h in last.hyps:
                    sv.add(h)
                t1 = time.time()
                rv = sv.check()
                rep.solver_s += time.time() - t1
                rep.consistency_probes = getattr(rep, 'consistency_probes', 0) + 1
                if rv == z3.unsat:
                    rep.infeasible_paths = getattr(rep, 'infeasible_paths', 0) + 1
                    lab_ = 'return' if p.outcome == 'return' and p.value.kind == 'return' else 'raise:' + p.value.exc.cls.name
                    outcomes_infeasible[lab_] = outcomes_infeasible.get(lab_, 0) + 1
        # engine-vs-CPython cross-check (tier thorough): concrete inputs drawn from the path conditions of sampled paths; the
        # runner replays them on the real code and compares the outcome (return / exception class) with the path's
        n_x = int(os.environ.get('PYVC_CROSSCHECK', '0') or 0)
        if n_x and hasattr(contract, 'witness'):
            per_label = {}
            for pi, p in enumerate(paths):
                if p.outcome == 'abort':
                    continue
                lab = 'return' if p.outcome == 'return' and p.value.kind == 'return' else 'raise:' + p.value.exc.cls.name
                if per_label.get(lab, 0) >= n_x:
                    continue
                hyps = p.obligations[-1].hyps if p.obligations else p.pc
                sx = z3.Solver()
                sx.set('timeout', 2500)
                for h in hyps:
                    sx.add(h)
                hints = contract.small_hints(case, getattr(p, 'aux', None) or aux_box.get('aux')) if hasattr(contract, 'small_hints') else ()
                model = None
                t1 = time.time()
                for h in list(hints) + [None]:
                    sx.push()
                    if h is not None:
                        sx.add(h)
                    if sx.check() == z3.sat:
                        model = sx.model()
                        sx.pop()
                        break
                    sx.pop()
                rep.solver_s += time.time() - t1
                rep.cross_tried = getattr(rep, 'cross_tried', 0) + 1
                if model is None:
                    continue
                try:
                    w = contract.witness(model, case, getattr(p, 'aux', None) or aux_box.get('aux'))
                except Exception:
                    continue
                if not w or (isinstance(w, dict) and (w.get('error') or w.get('data', 1) is None)):
                    continue            # the model is too large to be written out as concrete inputs
                per_label[lab] = per_label.get(lab, 0) + 1
                rep.cross = getattr(rep, 'cross', []) + [{'case': label, 'path': pi, 'outcome': lab, 'witness': w,
                                                            'lib': sorted(a for a in p.axioms_used if a.startswith('A-LIB') or a.startswith('numpy') or a.startswith('contract:'))[:6]}]
        if mutate is not None and aux_box.get('I') is not None:
            rep.mutation = getattr(aux_box['I'], 'mutation_applied', None)
            from . import interp as _ip
            rep.mutation_executed = getattr(aux_box['I'], 'mutation_line', None) in _ip.MUT_LINES
        rep.paths += n_live
        rep.cases.append({'label': label, 'paths': n_live, 'outcomes': outcomes})
        for want in contract.expected_outcomes(case):
            key = '%s:%s' % (label, want)
            rep.covers[key] = outcomes.get(want, 0) - outcomes_infeasible.get(want, 0) > 0
        if getattr(rep, 'stopped_early', False):
            break
    rep.wall_s = time.time() - t_start
    return rep


def contract_budget(contract):
    b = {}
    for k in ('max_paths', 'max_decisions', 'branch_timeout_ms'):
        if hasattr(contract, k):
            b[k] = getattr(contract, k)
    return b


def model_text(model, limit=4000):
    try:
        s = str(model)
    except Exception:
        s = '<model>'
    return s[:limit]


def resolve(I, mod, qual):
    env = I.module_env(mod)
    parts = qual.split('.')
    v = env[parts[0]]
    for p in parts[1:]:
        v = I.getattr_(v, p)
    return v


class LoopSpec(object):
    """Invariant of one loop of the function under contract, keyed by (qualified name, loop ordinal).
    inv(I, env, k, st0) yields (name, formula) pairs describing the state after k iterations;
    havoc(I, env, st0) replaces everything the loop may modify by fresh symbols."""

    def __init__(self, inv, havoc=None, snapshot=None, keeps=()):
        self._inv = inv
        self._havoc = havoc
        self._snapshot = snapshot
        self._keeps = tuple(keeps)

    def inv(self, I, env, k, st0):
        return list(self._inv(I, env, k, st0))

    def havoc(self, I, env, st0):
        if self._havoc is not None:
            self._havoc(I, env, st0)

    def snapshot(self, I, env):
        return self._snapshot(I, env) if self._snapshot is not None else None

    def keeps(self, env):
        return self._keeps


# ---------------------------------------------------------------------------------------------
# frame conditions (C13): "modifies nothing reachable from the arguments", "results share no mutable state with them"
def _mutables(v, acc, seen, depth=0):
    from .values import Seq, SymSeq, PDict, SymDict, NDArr, Obj, NT, OptVal
    if id(v) in seen or depth > 6:
        return
    seen.add(id(v))
    if isinstance(v, OptVal):
        _mutables(v.val, acc, seen, depth + 1)
    elif isinstance(v, NDArr):
        acc.append(v)
        if v.cls == 'FCSData' and v.attrs:
            for x in v.attrs.values():
                _mutables(x, acc, seen, depth + 1)
    elif isinstance(v, Seq):
        if v.kind == 'list':
            acc.append(v)
        for x in v.items:
            _mutables(x, acc, seen, depth + 1)
    elif isinstance(v, SymSeq):
        if v.kind == 'list':
            acc.append(v)
        for (_, ov) in v.overlays:
            _mutables(ov, acc, seen, depth + 1)
    elif isinstance(v, (PDict, SymDict)):
        acc.append(v)
        if isinstance(v, PDict):
            for x in v.vals:
                _mutables(x, acc, seen, depth + 1)
    elif isinstance(v, NT):
        for x in v.values:
            _mutables(x, acc, seen, depth + 1)
    elif isinstance(v, Obj):
        acc.append(v)
        for x in v.attrs.values():
            _mutables(x, acc, seen, depth + 1)


def frame_obligations(I, contract, args, kwargs, out, call_stamp, writes):
    from .values import NDArr, SymSeq, Seq
    P = I.ctx.prove
    allowed = set(getattr(contract, 'frame_modifies', ()))
    ins = []
    seen = set()
    for i, a in enumerate(args):
        if i in allowed:
            continue
        _mutables(a, ins, seen)
    for k, a in kwargs.items():
        if k in allowed:
            continue
        _mutables(a, ins, seen)
    allowed_objs = []
    for i, a in enumerate(args):
        if i in allowed:
            _mutables(a, allowed_objs, set())
    allowed_ids = set(id(o) for o in allowed_objs)
    in_ids = dict((id(o), o) for o in ins)
    bad = []
    for w in writes:
        owner = getattr(w, 'owner', None)
        if id(w) in allowed_ids or (owner is not None and id(owner) in allowed_ids):
            continue
        if id(w) in in_ids or (getattr(w, 'birth', call_stamp) < call_stamp and not isinstance(w, type(None))):
            bad.append(w)
    what = ', '.join(sorted(set('%s%s' % (type(w).__name__, '(' + str(getattr(w, 'name', '') or '') + ')') for w in bad))) or 'nothing'
    P('frame.arguments-not-modified[%s]' % what, len(bad) == 0, kind='frame')
    # contents of symbolic input arrays are what they were (writes through views included)
    for o in ins:
        if isinstance(o, NDArr) and getattr(o, 'ufn', None) is not None and o.view_of is None and id(o) not in allowed_ids:
            idx = [I.ctx.fresh_int('fr_i%d' % d) for d in range(o.ndim)]
            rng = [z3.And(0 <= ii, ii < I.np.dim_z(sd)) for ii, sd in zip(idx, o.shape)]
            P('frame.events-of-%s-unchanged' % (o.name or 'argument'), z3.Implies(z3.And(*rng) if rng else z3.BoolVal(True), o.fn(*idx) == o.ufn(*idx)),
              kind='frame', assume_after=False)
    if out.kind != 'return':
        return
    mode = getattr(contract, 'frame_result', 'fresh')
    if mode is None:
        return
    outs = []
    _mutables(out.value, outs, set())
    shared = []
    tokens_in = set(o.elem_token for o in ins if isinstance(o, SymSeq) and o.elem_token is not None)
    echo_ids = set(id(kwargs[k_]) for k_ in getattr(contract, 'frame_echo', ()) if k_ in kwargs)   # arguments handed back as they are, by design
    for o in outs:
        if id(o) in echo_ids:
            continue
        if id(o) in in_ids:
            shared.append(o)
        elif isinstance(o, NDArr) and o.view_of is not None and id(o.root()) in in_ids and mode != 'may-view':
            shared.append(o)
        elif isinstance(o, SymSeq) and o.elem_token is not None and o.elem_token in tokens_in:
            shared.append(o)
    what = ', '.join(sorted(set(type(o).__name__ + ('(view)' if isinstance(o, NDArr) and o.view_of is not None else '') for o in shared))) or 'nothing'
    P('frame.result-shares-no-mutable-state-with-the-arguments[%s]' % what, len(shared) == 0, kind='frame')
