"""Registry: which contracts and bounded stand-ins decide which property."""

PROPS = {
    'C08': {
        'contracts': ['contracts.gate:StartEnd', 'contracts.gate:HighLow', 'contracts.gate:Ellipse'],
        'bounded': False,
        'level': 'proof',
        'explanation': 'gate.start_end / high_low / ellipse: mask == documented predicate, gated == data[mask], '
                       'metadata kept, error cases; all N, D, thresholds symbolic.',
    },
}

NOT_APPLICABLE = {}
