"""Registry: which contracts and bounded stand-ins decide which property."""

PROPS = {
    'C08': {
        'contracts': ['contracts.gate:StartEnd', 'contracts.gate:HighLow', 'contracts.gate:Ellipse'],
        'bounded': True,
        'level': 'proof',
        'explanation': 'gate.start_end / high_low / ellipse: mask == documented predicate, gated == data[mask], '
                       'metadata kept, error cases; all N, D, thresholds symbolic.',
    },
}

PROPS['C04'] = {
    'contracts': ['contracts.io:NameToIndex', 'contracts.io:Range', 'contracts.io:Resolution',
                  'contracts.io:AmplificationType', 'contracts.io:AmplifierGain', 'contracts.io:DetectorVoltage',
                  'contracts.io:ChannelLabels', 'contracts.io:ArrayFinalize', 'contracts.io:GetItem', 'contracts.io:SetItem'],
    'bounded': True,
    'level': 'proof',
    'explanation': 'FCSData.__getitem__ over the key grammar rows x cols (symbolic N, D, positions, names, list lengths): '
                   'values == plain array indexing of the translated key, every per-channel attribute == that of the selected '
                   'columns in order, refusals only for unknown names / out-of-range positions / forms outside the grammar.',
}

PROPS['C20'] = {
    'contracts': ['contracts.io:ArrayFinalize', 'contracts.io:PickleRoundTrip', 'contracts.io:FileEq', 'contracts.io:FileNe'],
    'bounded': True,
    'level': 'proof',
    'explanation': 'State invariant instead of history enumeration: for a sample with arbitrary (symbolic) attribute values, '
                   '__array_finalize__ propagates every attribute assigned in __new__ as a fresh deep copy (copy/deepcopy/view/'
                   'slice/ufunc results), __setstate__(__reduce__(x)) restores every attribute and the array part for both '
                   'shapes of the superclass state, FCSFile.__eq__/__ne__ are the conjunction over name, header, keywords, '
                   'events, analysis.',
}

PROPS['C06'] = {
    'contracts': ['contracts.transform:ToMef', 'contracts.io:NameToIndex'],
    'bounded': True,
    'level': 'proof',
    'explanation': 'transform.to_mef with symbolic numbers of curves, curve channels and requested channels (names or positions): '
                   'loop invariants for the coverage test and the conversion loop; requested columns carry their own curve, all '
                   'others and all non-range metadata identical, ranges follow the curve, input unmodified; refusal iff length '
                   'mismatch / uncovered channel / unknown name.',
}

PROPS['C03'] = {
    'contracts': ['contracts.transform:ToRfi', 'contracts.io:NameToIndex', 'contracts.io:AmplificationType',
                  'contracts.io:AmplifierGain', 'contracts.io:Resolution'],
    'bounded': True,
    'level': 'proof',
    'timeout_ms': 10000,
    'explanation': 'transform.to_rfi with a symbolic number of channels (names or positions) and per-entry optional overrides: loop '
                   'invariant over the conversion loop; each selected column carries a1*10^(a0*x/r) or x/g with override-or-file '
                   'parameters (over the reals), all other columns and non-range metadata identical, ranges are the law of the old '
                   'limits, input unmodified, inconsistent lengths refused.  One-call vs one-at-a-time vs any order follows from the '
                   'per-column postcondition (columns are independent and metadata other than range is unchanged).',
}

PROPS['C07'] = {
    'contracts': ['contracts.transform:ToRfi', 'contracts.transform:ToMef', 'contracts.gate:HighLow'],
    'bounded': True,
    'level': 'other',
    'timeout_ms': 10000,
    'explanation': 'Proved (over the reals, unbounded): after to_rfi/to_mef the limits of every converted channel are the SAME law term '
                   'applied to the old limits that is applied to that channel\'s events (obligations converted-range-*), unconverted '
                   'channels keep their limits (other-ranges-identical), and high_low defaults compare strictly against range()[c] of each '
                   'selected channel. NOT decidable by contracts: that evaluating the law on the limits and on the events gives bit-identical '
                   'floats (A-POINTWISE); this clause is checked only by the bounded stand-in: exact comparison of limits with converted '
                   'saturated events and of gate-before vs gate-after over an amplifier/curve parameter lattice (stated bound in coverage.bounded).',
    'level_note': 'A-REAL for the proved part; bitwise clause bounded only (parameter lattice + seeded draws).',
    'technique': 'contract-based deductive verification (range obligations of to_rfi/to_mef/high_low) + bounded bitwise sweep on the real code',
}

PROPS['C01'] = {
    'contracts': ['contracts.fcsio:DataSegment', 'contracts.fcsio_mixed:DataSegmentMixed'],
    'bounded': True,
    'level': 'other',
    'explanation': 'Proved (unbounded N, D, offsets, file content): read_fcs_data_segment for uniform integer widths 8/16/32/64 and '
                   'F/D floats: size guard (last byte / one past), every value equals the bytes at offset begin+(i*D+j)*B in the declared '
                   'byte order, range mask loop (invariant) reduces to the low ceil(log2 R) bits, result shape (N, D); unsupported layouts '
                   '(ASCII, non-byte-aligned, >64 bit, wrong float width, unknown datatype) refused. Generic decoder for odd / mixed '
                   'widths (per-byte accumulation loops, run-time upcast dtype): BOUNDED-SYMBOLIC contract DataSegmentMixed -- D = 1, 2 '
                   '(every width tuple over {8,...,64} that does not take the fast path) and six 3-parameter tuples, with N, offsets, '
                   'file bytes, byte order and ranges symbolic: every value equals the w-bit integer at row stride sum(B), column offset '
                   'sum(B before it), declared byte order, low bits of the range; same size guard. Bounded in D, never counted as '
                   'proved. FCSFile.__init__ glue (keywords -> arguments, HEADER/TEXT offsets): bounded stand-in (whole files written '
                   'by an independent generator).',
    'level_note': 'A-IO (memmap/read), A-INT, A-REAL(ceil, log2); the generic decoder is bounded in the number of parameters (D <= 3), '
                  'whole-file loading is bounded.',
    'technique': 'contract-based deductive verification of the real read_fcs_data_segment body (uniform widths and floats: unbounded; '
                 'generic decoder: symbolic execution bounded in the number of parameters) + bounded check of whole-file loading',
}

PROPS['C16'] = {
    'contracts': ['contracts.fcsio:DataSegment', 'contracts.fcsio_mixed:DataSegmentMixed'],
    'bounded': True,
    'level': 'other',
    'explanation': 'Proved (unbounded): a normal return of read_fcs_data_segment implies N*rowbytes in {declared extent, extent-1} AND '
                   'begin+N*rowbytes <= file size, so every decoded value comes from bytes inside the intact DATA extent; any other '
                   'declared size / missing bytes raises ValueError (uniform integer widths and floats; A-IO memmap axiom). TEXT/HEADER '
                   'truncation, keyword corruption and mixed-width files: bounded stand-in only (truncation at every byte of generated '
                   'files, single-field corruptions).',
    'level_note': 'A-IO axioms for read/memmap; TEXT-side clauses are bounded only.',
}

PROPS['C12'] = {
    'contracts': ['contracts.stats:' + n for n in ('Mean', 'Gmean', 'Median', 'Mode', 'Std', 'Cv', 'Gstd', 'Gcv', 'Iqr', 'Rcv')]
                 + ['contracts.io:GetItem', 'contracts.io:NameToIndex'],
    'bounded': True,
    'level': 'proof',
    'explanation': 'For each of the ten statistics and every container / channel form (symbolic N>=1, D, positions, names, list '
                   'lengths): the reduction receives exactly the requested columns in the requested order over axis 0, single channels '
                   'give scalars, lists give one entry per channel, and cv/gstd/gcv/iqr/rcv are the documented compositions '
                   '(identities CV=SD/mean, RCV=IQR/median, GCV=sqrt(exp(ln(GSD)^2)-1)); samples and plain arrays yield the same terms; '
                   'np.percentile\'s (-1, Ellipsis) probe is accepted by FCSData.__getitem__. The textbook meaning of the NumPy/SciPy '
                   'reductions themselves is assumed (checked by the bounded stand-in against direct definitions).',
    'level_note': 'np.mean/median/std/percentile, scipy.stats.gmean/mode assumed textbook (A-LIB); A-REAL for exp/log/sqrt.',
}

PROPS['C19'] = {
    'contracts': ['contracts.histbins:HistBins', 'contracts.io:Range', 'contracts.io:Resolution'],
    'bounded': True,
    'level': 'proof',
    'explanation': 'FCSData.hist_bins for symbolic channel requests (names/positions/lists), bin counts and scales: n+1 edges, strictly '
                   'increasing, covering the range (linear; log upper limit and positive lower limit), positive log edges, logicle edges = '
                   'transform of a uniform display grid, default count centres every channel value in its bin (linear), one entry per '
                   'requested channel depending only on that channel (map-style loop template), unknown scale refused, stored ranges '
                   'unmodified. Over the reals; the logicle transform enters through its C18 contract (M>0, strictly increasing).',
    'level_note': 'A-REAL (linspace, exp10/log10), C18 contract assumed for the logicle transform, FCSData accessors by their contracts.',
}

_ALL_CONTRACTS_WITH_FRAME = (
    ['contracts.gate:StartEnd', 'contracts.gate:HighLow', 'contracts.gate:Ellipse',
     'contracts.transform:ToRfi', 'contracts.transform:ToMef', 'contracts.histbins:HistBins',
     'contracts.io:NameToIndex', 'contracts.io:Range', 'contracts.io:Resolution', 'contracts.io:AmplificationType',
     'contracts.io:AmplifierGain', 'contracts.io:DetectorVoltage', 'contracts.io:ChannelLabels', 'contracts.io:ArrayFinalize',
     'contracts.io:GetItem', 'contracts.io:FileEq']
    + ['contracts.stats:' + n for n in ('Mean', 'Gmean', 'Median', 'Mode', 'Std', 'Cv', 'Gstd', 'Gcv', 'Iqr', 'Rcv')])

PROPS['C13'] = {
    'contracts': _ALL_CONTRACTS_WITH_FRAME,
    'bounded': True,
    'level': 'other',
    'timeout_ms': 10000,
    'explanation': 'Frame conditions proved for the functions under contract (gates start_end/high_low/ellipse, to_rfi, to_mef, the ten '
                   'statistics, hist_bins, the six accessors, _name_to_index, __getitem__, __array_finalize__, FCSFile.__eq__): on every '
                   'path the symbolic executor logs each heap write (list/dict/array stores, appends, attribute stores, writes through '
                   'views reach the root buffer); obligations frame.arguments-not-modified, frame.events-of-*-unchanged (contents equal the '
                   'original uninterpreted contents at an arbitrary index) and frame.result-shares-no-mutable-state (results of converting/'
                   'gating are fresh; slices/views may share the event buffer only; metadata is a deep copy by __array_finalize__). '
                   'Functions without a contract (plot.*, mef.*, gate.density2d, transform.transform, the FCS readers, excel_ui) are covered '
                   'only by the bounded fingerprint harness that enumerates every public function of the six modules (C13.frame).',
    'level_note': 'A-LIB-PURE: NumPy/SciPy calls do not mutate their arguments except the modelled in-place operations; functions without '
                  'contract: bounded only.',
}

PROPS['C17'] = {
    'contracts': ['contracts.fcsmeta:NewSample', 'contracts.fcsmeta:ParseTime', 'contracts.fcsmeta:ParseDate',
                  'contracts.fcsmeta:AcquisitionTime'],
    'bounded': True,
    'level': 'other',
    'timeout_ms': 8000,
    'explanation': 'Proved for an arbitrary (symbolic) keyword map with the required keywords well-formed and a symbolic number of parameters: '
                   'FCSData.__new__ never raises whatever the optional keywords contain; time step = $TIMESTEP else TIMETICKS/1000 else None '
                   '(unparseable -> None); start/end time = parsed time, combined with the date iff a date parsed, else None; per channel '
                   '(map-style loop template, arbitrary channel i): name=$PnN, label=$PnS, range=[0,R-1], resolution=int(R), amplification '
                   '= $PnE with (a0!=0,a1=0)->(a0,1), voltage = $PnV else BD$WORD{12+i} iff CREATOR contains CellQuest Pro, gain = $PnG else '
                   'CytekP{i:02d}G iff CREATOR contains FlowJoCollectorsEdition, unparseable -> None. _parse_time_string/_parse_date_string '
                   'never raise. acquisition_time for D=1..3 channels (bounded in D only). float()/int()/strptime are partial uninterpreted '
                   'functions, so the VALUE of a parsed time/date string (three time formats, four date formats) is checked by the bounded '
                   'stand-in only; the per-channel clauses are proved on files without optional time keywords in the quick tier and on the '
                   'full product in the thorough tier.',
    'level_note': 'A-STR/A-LIB partial parsers; FCSFile summarised; value of parsed times: bounded only.',
}

PROPS['C18'] = {
    'contracts': ['contracts.logicle:LogicleInit', 'contracts.logicle:LogicleTransformFn'],
    'bounded': True,
    'level': 'other',
    'timeout_ms': 15000,
    'explanation': 'Proved over the reals: transform_non_affine is the published biexponential T*10^-(M-W)*(10^(s-W) - p^2*10^(-(s-W)/p) + '
                   'p^2 - 1), maps display W to data 0 and is strictly increasing in s for T>0, p>=1 (exp10 axioms); __init__ derives T (largest '
                   'range limit or largest value), M = max(4.5, 4.5*log10(T)/log10(262144)), W = max(0, (M-log10(T/|r|))/2 over samples with '
                   'negative events), honours explicit T/M/W, refuses T<=0, M<=0, W<0 and multidimensional data without channel; arrays, '
                   'samples and lists of samples with symbolic lengths. ASSUMED (bounded only): scipy.optimize.root returns p>=1 solving '
                   'W = 2p*log10(p)/(p+1); accuracy and monotonicity of the interpolated inverse; _LogicleScale glue.',
    'level_note': 'Root finder convergence and inverse accuracy (1e-4*M) are numerical facts outside contract reach: bounded lattice only.',
}

PROPS['C09'] = {
    'contracts': ['contracts.mef:FitBeads'],
    'bounded': True,
    'level': 'other',
    'timeout_ms': 15000,
    'explanation': 'Proved for every fit (symbolic bead values, symbolic optimiser result within the bounds actually handed to minimize): '
                   'the standard curve is odd, zero at zero, increasing for positive slope; the fitted autofluorescence is >= 0 because the '
                   'bound (0, None) is attached to parameter 2; the bead model equals the standard curve minus the autofluorescence for '
                   'positive inputs; both closures use the same fitted parameters; fewer than three populations / mismatched lengths raise. '
                   'Recovery of the generating law within 5% (convergence of L-BFGS-B) is outside contract reach: bounded lattice only. '
                   'Floating-point corner cases (0*inf) are invisible over the reals: the bounded stand-in checks std_crv(0) numerically.',
    'level_note': 'A-REAL axioms for exp/log/pow; minimize assumed to respect its bounds; recovery clause bounded only.',
}

_EXCEL_NOTE = ('Bounded in the table layout (one instrument configuration: FSC-H, SSC-H, FL1..FL3 with Units columns for FL1, FL2); '
               'library steps uninterpreted with the exception classes of their own contracts; plot=False, verbose=False; '
               'process_beads_table, add_*_stats and generate_histograms_table are covered by the bounded stand-in only.')
PROPS['C10'] = {
    'contracts': ['contracts.excel:ProcessSamples', 'contracts.excel:ProcessBeads', 'contracts.excel:GenerateHistograms'],
    'bounded': True,
    'level': 'other',
    'explanation': 'Proved for an arbitrary row of a Samples table with any number of rows (loop cut, arbitrary prior state) and symbolic '
                   'cell contents: the sample stored for a healthy row is exactly the term density2d(high_low?(start_end(U2(U1(to_rfi(load, '
                   '[FSC,SSC]))), 250, 100), [FSC,SSC]+reported), [FSC,SSC], fraction) with U = identity for channel, to_rfi for rfi/a.u./au, '
                   'bead transform after to_rfi for mef (case-insensitive, stripped), channels without units skipped, high_low iff integer '
                   'data, reported channels in instrument order. Beads table (ProcessBeads), arbitrary row: the gated beads sample is '
                   'the documented composition and the calibration is exactly one get_transform_fxn call with this row\'s sample, the '
                   'values parsed from this row\'s MEF cells (element j = int(piece j) or NaN), the channels that have values in '
                   'instrument order and this row\'s clustering channels. Histogram sheet (GenerateHistograms), arbitrary row: bin '
                   'centres and np.histogram counts of each reported channel come from ONE hist_bins(channel, 2*min(resolution, '
                   'max_bins), linear iff units are Channel) call on the row\'s own sample. ' + _EXCEL_NOTE,
    'level_note': _EXCEL_NOTE,
}
PROPS['C11'] = {
    'contracts': ['contracts.excel:ProcessSamples', 'contracts.excel:ProcessBeads'],
    'bounded': True,
    'level': 'other',
    'explanation': 'Proved for an arbitrary row (loop cut): no exception escapes the batch whatever the row contains; the row ends as an '
                   'ExcelUIException exactly when one of the documented faults holds (file not found, fewer than 400 events, unrecognised '
                   'units, calibration missing for the beads or the channel, beads on another instrument / other amplifier type / other '
                   'detector voltage, gate fraction outside [0,1]) and as the documented sample otherwise; the entry is stored under the '
                   'row identifier; what is stored depends only on the row, the instrument/beads tables and the bead transforms (the prior '
                   'state is arbitrary); an empty table gives an empty result. The same for the beads table (ProcessBeads): a row '
                   'with a documented fault (file not found, fewer than 400 events, gate fraction outside [0,1], unequal numbers of MEF '
                   'values across channels) stores (the exception, None[, None]), nothing escapes, everything else stores the '
                   'documented results under the row identifier. ' + _EXCEL_NOTE,
    'level_note': _EXCEL_NOTE,
}

PROPS['C15'] = {
    'contracts': ['contracts.excel:Run', 'contracts.excel:ReadTable', 'contracts.excel:ProcessSamples'],
    'bounded': True,
    'level': 'other',
    'explanation': 'Proved: run() reads Instruments/Beads/Samples by ID from the input workbook, processes beads then samples (with the beads '
                   'table and the bead transforms), adds statistics after processing, generates the histogram sheet iff requested, and '
                   'writes exactly the sheets Instruments, Beads, Samples, (Histograms), About Analysis in this order to the given path or '
                   '<input stem>_output.xlsx next to the input; read_table drops the rows without identifier and THEN refuses duplicated '
                   'identifiers, refuses list/None sheet names; process_samples_table never lets an exception escape (C11). NOT within '
                   'contract reach (bounded stand-in only): termination/exception freedom of the real processing stack, preservation of '
                   'rows/columns by the pandas operations, figure files, xlsx write/read fidelity.',
    'level_note': 'Processing steps, pandas and os.path summarised; liveness of the whole run is bounded only.',
}

PROPS['C05'] = {
    'contracts': ['contracts.gate:Density2dArguments', 'contracts.gate:Density2d'],
    'bounded': True,
    'level': 'proof',
    'timeout_ms': 20000,
    'explanation': 'gate.density2d on explicit, strictly increasing per-axis edges (arrays and samples; all event sets, grid shapes, '
                   'fractions, smoothing widths symbolic), proved of the real body: an event is kept iff it is inside the grid and the bin '
                   'holding it under the documented rule (e[a] <= v < e[a+1], last edge closed) is in the bin mask -- so bins are kept or '
                   'dropped whole, no out-of-grid event is kept, and re-gating with returned edges + mask reproduces the set (the re-gate '
                   'path satisfies the same formula); the target n is ceil(f * #in-grid); the cumulative histogram count over the kept '
                   'bins reaches n and falls below it without the least dense kept bin; the bin mask is exactly the densest end of the '
                   'sorted order and no kept bin is less dense than a dropped one; ValueError iff f outside [0,1]; other than two channels '
                   'or fewer than two events are refused. Library steps are assumed contracts (np.histogram2d counts incl. A-COUNT, '
                   'np.digitize bracket, np.argsort permutation/sortedness, np.cumsum recurrence, gaussian_filter uninterpreted, '
                   'find_contours abstracted away). BOUNDED only: bins given as counts or derived from a sample (hist_bins), '
                   'order independence, monotonicity in f, f = 1 keeps all in-grid events, the contour output.',
    'level_note': 'proof for explicit edges under the stated NumPy/SciPy contracts (A-LIB, A-COUNT, A-REAL); bounded stand-in for '
                  'count / sample-derived bins and the relational clauses (order independence, monotonicity).',
    'technique': 'contract-based deductive verification of the real density2d body (event mapping, target, cumulative cut, density '
                 'order; scatter-loop template, library contracts) + bounded check of the real function for the remaining clauses',
}
PROPS['C02'] = {
    'contracts': ['contracts.mef:GetTransformFxn', 'contracts.mef:FitBeads', 'contracts.transform:ToMef'],
    'bounded': True,
    'level': 'other',
    'timeout_ms': 15000,
    'explanation': 'Two parts. PROVED (orchestration of the real mef.get_transform_fxn, for every clustering / statistic / selection / '
                   'fitting function -- they are parameters of the function -- all N, all numbers of values K and populations found, '
                   '1 or 2 channels): labels reported unchanged (one per event); populations = groups of equal label ordered by '
                   'non-decreasing distance of their mean to the origin; one statistic per population, k-th statistic = statistic of '
                   'column c of the k-th population; per channel the fit receives exactly the pairs (statistic_k, value[c][k]) of the '
                   'positions selected for that channel whose value is known in that channel (others keep their own values; lists '
                   'paired and of equal length, reported as passed); the transformation is partial(to_mef, curves in channel order, '
                   'calibrated channels); refusal only when populations found != values given. What to_mef then does (ToMef) and the '
                   'structural identities of the fit (FitBeads) are the C06/C09 contracts, re-checked here. BOUNDED (statistical, no '
                   'contract within reach decides them): the default GMM clustering groups events by generating subpopulation, the '
                   'conversion is within 10 % of the truth, independence of event order / channel count / clustering channels, '
                   'reproducibility for a fixed seed, selection_std\'s own exclusion rule.',
    'level_note': 'orchestration proved modulo A-LIB (set/argsort/mean contracts) and determinism of the callables; recovery accuracy, '
                  'clustering quality and reproducibility are bounded (sampled synthetic bead files).',
    'technique': 'contract-based deductive verification of the real get_transform_fxn/to_mef/fit bodies (uninterpreted callables, '
                 'generated-element arrays, NaN-carrying arrays) + bounded check of the end-to-end statistical clauses',
}
PROPS['C14'] = {
    'contracts': ['contracts.fcsio:TextSegmentEarlyExits', 'contracts.fcsio:TextSegmentTokens'],
    'bounded': True,
    'level': 'other',
    'timeout_ms': 10000,
    'explanation': 'BOUNDED for the tokenizer (never counted as proved). Proved without bound (file model, symbolic offsets and content): '
                   'a supplemental segment without delimiter, a segment shorter than declared and a primary segment not starting with '
                   'the delimiter raise ValueError; an empty declared extent gives ({}, None). BOUNDED-SYMBOLIC (contract '
                   'TextSegmentTokens, symbolic execution of the real function): every segment made of up to 7 tokens separated by up '
                   'to 6 delimiter occurrences, with ARBITRARY token contents (any strings without the delimiter, any lengths, every '
                   'emptiness pattern), any delimiter character, primary and supplemental, is read exactly as a left-to-right '
                   'reference reading of the escaping rule (written from the property text) reads it, refused exactly when that '
                   'reading fails, and the tolerated ending is read with a warning -- except for the two recorded findings (text after '
                   'the last delimiter is ignored; an even run of four or more closing delimiters). The unbounded equivalence of the '
                   'backward run scan with the left-to-right rule needs an induction over the run structure of strings that neither '
                   'solver carries. BOUNDED-CONCRETE: every string over {delimiter, a, b} up to length 9 (quick) / 12 (thorough), and '
                   'encode/decode round trips through whole files.',
    'level_note': 'bounded stand-ins decide (symbolic in the token contents up to 6 delimiter occurrences; exhaustive concrete strings); '
                  'only the early exits are proved.',
    'technique': 'bounded-symbolic execution of the real tokenizer against a reference reading (bound: delimiter occurrences) + bounded '
                 'exhaustive check of the real function + contract-based proof of the early-exit paths',
}

NOT_APPLICABLE = {}
