"""Generators of the bounded stand-ins for C12 (summary statistics), C17 (acquisition metadata) and C19 (histogram bins).
Oracles: replay_meta.py.  Plain Python only (no NumPy / FlowCal import here).  Every random choice uses the run's `rnd`.

Ordering (it changes nothing in the set of cases): bounded.py keeps a bounded number of failure witnesses, so each property starts with a small
hand-picked 'survey' part showing every kind of case once, then runs all generators on the cases OUTSIDE the zone where the unchanged
tree is already known to fail ('main'), and finally the same generators (same random stream) on the cases INSIDE that zone
('known_zone').  The zone predicates below only look at the inputs; they decide the order, never the verdict."""
import itertools
import random
import re

STATS = ['mean', 'gmean', 'median', 'std', 'cv', 'gstd', 'gcv', 'iqr', 'rcv', 'mode']
GEOMETRIC = ('gmean', 'gstd', 'gcv')
NAMES5 = ['FSC-H', 'SSC-H', 'FL1-H', 'FL2-H', 'FL3-H']


# ====================================================================================================== C12
def c12_containers(D, tier, frac):
    """container configurations able to hold the matrix (frac: matrix has non-integer values)"""
    lin = ['0,0'] * D
    mix = ['4,1', '0,0', '4.5,0.5', '2,0', '0,0'][:D]
    out = [{'container': 'ndarray', 'dtype': 'float64'},
           {'container': 'fcs-raw', 'dtype': 'D', 'amp': lin},
           {'container': 'fcs-rfi', 'dtype': 'D', 'amp': lin, 'gains': [2.0] + [None] * (D - 1)}]
    if tier != 'quick':
        out += [{'container': 'ndarray', 'dtype': 'float32'}, {'container': 'fcs-raw', 'dtype': 'F', 'amp': lin}]
    if not frac:
        out = [{'container': 'ndarray', 'dtype': 'int64'},
               {'container': 'fcs-raw', 'dtype': 'I32', 'amp': lin},
               {'container': 'fcs-raw', 'dtype': 'I16', 'amp': lin},
               {'container': 'fcs-rfi', 'dtype': 'I32', 'amp': lin},
               {'container': 'fcs-rfi', 'dtype': 'I16', 'amp': mix, 'ranges': [1024] * D}] + out
        if tier != 'quick':
            out += [{'container': 'ndarray', 'dtype': 'uint32'}, {'container': 'fcs-raw', 'dtype': 'I32', 'amp': mix, 'ranges': [1024] * D},
                    {'container': 'fcs-rfi', 'dtype': 'I32', 'amp': lin, 'gains': [None] * (D - 1) + [4.0]}]
    return out


def c12_forms(D, named, rnd, n_extra):
    """channel argument forms: absent, position, name, list of either, single-element list"""
    nm = NAMES5[:D]
    core = [None, rnd.randrange(D), [rnd.randrange(D)], list(range(D))]
    extra = [D - 1, -1, 0, list(reversed(range(D))), rnd.sample(range(D), max(1, D - 1)), [-1]]
    if named:
        core += [nm[rnd.randrange(D)], [nm[rnd.randrange(D)]]]
        extra += [nm[0], nm[-1], list(nm), list(reversed(nm)), [nm[-1], 0] if D > 1 else [nm[0]],
                  [(nm[c] if rnd.random() < 0.5 else c) for c in rnd.sample(range(D), D)]]
    forms = core + rnd.sample(extra, min(n_extra, len(extra)))
    seen, out = set(), []
    for f in forms:
        if repr(f) not in seen:
            seen.add(repr(f))
            out.append(f)
    return out


def c12_matrices(tier, rnd):
    """(matrix, frac): 1..Nmax events, ties, constant columns, positive (some with zeros for the arithmetic statistics)"""
    fixed = [
        [[5, 7, 9]],                                                   # one event
        [[3, 8], [3, 2]],                                              # two events, a tie / a constant column
        [[4, 4, 4], [4, 1, 9], [4, 1, 2]],                             # constant column, tie
        [[1, 2, 3, 4], [2, 2, 1, 4], [3, 2, 3, 4], [4, 9, 1, 5]],      # every value tied in column 1 but one
        [[2, 1], [2, 1], [7, 5], [7, 5], [3, 9]],                      # two most frequent values
        [[0, 5], [0, 6], [3, 7], [9, 7]],                              # zeros: arithmetic statistics only
        [[1000], [1001], [1003], [1001]],                              # narrow peak
    ]
    for m in fixed:
        yield m, False
    yield [[1.5, 2.25], [1.5, 8.0], [0.75, 2.25]], True
    yield [[10.5], [10.5], [10.5]], True
    nmax, reps = (12, 12) if tier == 'quick' else (60, 64)
    for k in range(reps):
        N = rnd.randint(1, nmax)
        D = rnd.randint(1, 4)
        style = k % 4
        if style == 0:      # small alphabet: many ties
            m = [[rnd.randint(1, 6) for _ in range(D)] for _ in range(N)]
        elif style == 1:    # wide
            m = [[rnd.randint(1, 1000) for _ in range(D)] for _ in range(N)]
        elif style == 2:    # some constant columns
            const = [rnd.random() < 0.4 for _ in range(D)]
            cv = [rnd.randint(1, 900) for _ in range(D)]
            m = [[cv[j] if const[j] else rnd.randint(1, 50) for j in range(D)] for _ in range(N)]
        else:               # fractional values (float containers only)
            m = [[rnd.randint(1, 400) / 4.0 for _ in range(D)] for _ in range(N)]
        yield m, style == 3


def c12_case(stat, m, cfg, form):
    x = {'stat': stat, 'data': m, 'channels': form}
    x.update(cfg)
    return 'C12.stats', x


SURVEY_M = [[100, 3, 7], [101, 3, 1], [103, 5, 4], [101, 9, 4], [100, 3, 2]]


def g_c12_survey(tier, rnd):
    D = 3
    lin = ['0,0'] * D
    nd = {'container': 'ndarray', 'dtype': 'int64'}
    raw = {'container': 'fcs-raw', 'dtype': 'I32', 'amp': lin}
    rfi = {'container': 'fcs-rfi', 'dtype': 'I16', 'amp': lin}
    for stat in STATS:
        yield c12_case(stat, SURVEY_M, nd, None)
    for stat in STATS[:-1]:
        yield c12_case(stat, SURVEY_M, raw, 'SSC-H')
    yield c12_case('mode', SURVEY_M, nd, 1)
    yield c12_case('iqr', SURVEY_M, rfi, [2, 0])
    yield c12_case('rcv', SURVEY_M, rfi, 'FL1-H')
    yield c12_case('gcv', SURVEY_M, {'container': 'fcs-raw', 'dtype': 'I16', 'amp': lin}, 0)
    yield c12_case('gstd', SURVEY_M, {'container': 'fcs-raw', 'dtype': 'I8', 'amp': lin}, [0])
    for stat in ('mean', 'gmean', 'median', 'std', 'cv', 'gstd', 'gcv'):
        yield c12_case(stat, SURVEY_M, {'container': 'fcs-rfi', 'dtype': 'I16', 'amp': ['4,1', '0,0', '4.5,0.5'], 'ranges': [1024] * D},
                       ['FL1-H', 0])


def g_c12_matrix(tier, rnd):
    n_extra = 2 if tier == 'quick' else 6
    for m, frac in c12_matrices(tier, rnd):
        D = len(m[0])
        positive = all(v > 0 for r in m for v in r)
        for cfg in c12_containers(D, tier, frac):
            for form in c12_forms(D, cfg['container'] != 'ndarray', rnd, n_extra):
                for stat in STATS:
                    if stat in GEOMETRIC and not positive:
                        continue
                    yield c12_case(stat, m, cfg, form)


def g_c12_narrow(tier, rnd):
    """raw integer samples stored in 8 and 16 bits: narrow and wide peaks"""
    ms = [[[100], [101], [103]], [[200, 3], [201, 90], [200, 250]], [[1, 2], [4, 8], [16, 32], [64, 128]]]
    if tier != 'quick':
        ms += [[[rnd.randint(90, 110) for _ in range(2)] for _ in range(rnd.randint(2, 30))] for _ in range(10)]
    for m in ms:
        D = len(m[0])
        for dt in ('I8', 'I16'):
            cfg = {'container': 'fcs-raw', 'dtype': dt, 'amp': ['0,0'] * D}
            for form in (None, 0, NAMES5[D - 1]):
                for stat in STATS:
                    yield c12_case(stat, m, cfg, form)
        for stat in STATS:
            yield c12_case(stat, m, {'container': 'ndarray', 'dtype': 'uint8'}, 0)
            yield c12_case(stat, m, {'container': 'ndarray', 'dtype': 'uint16'}, None)


# ====================================================================================================== C17
VERSIONS = ['FCS2.0', 'FCS3.0', 'FCS3.1']
TS_OK = ['0.01', '1', '0.001', '1e-3', '2.5']
TS_BAD = ['abc', '0,01', ' ', '1/100']
TT_OK = ['10', '100', '0.5']
TT_BAD = ['ticks', ' ', '10ms']
TIME_OK = ['00:00:00', '09:05:07', '12:30:45', '23:59:59',                       # hh:mm:ss
           '10:00:00.00', '10:00:05.50', '01:02:03.07', '23:59:59.99',           # hh:mm:ss.cc
           '10:00:00:00', '10:00:05:30', '01:02:03:20', '23:59:59:59']           # hh:mm:ss:tt (1/60 s)
TIME_BAD = ['ab:cd:ef', '10:00:xx', '10:00:00:xx', '10:00:00.xx', 'noon',        # non-numeric
            '10:00', '10', '10:00:00:00:00',                                     # wrong field count
            '24:00:00', '10:60:00', '10:00:60', '25:61:61', '10:00:00:60', '10:00:00:75',   # out-of-range fields
            ' ']                                                                 # empty (a blank: FCS cannot hold a zero-length value)
DATE_OK = ['15-Mar-21', '01-Jan-99',                  # dd-mmm-yy
           '15-MAR-2021', '29-Feb-2020', '31-dec-1999',  # dd-mmm-yyyy
           '21-mar-15', '99-Dec-31',                  # yy-mmm-dd
           '2021-Mar-15', '1999-DEC-31']              # yyyy-mmm-dd
DATE_BAD = ['garbage', '2021-03-15', '15/Mar/2021', '32-Jan-2021', '15-Foo-2021', '15-Mar', '15-Mar-2021-1', ' ', '29-Feb-2021',
            '00-Jan-2021']
NUM_OK = ['450', '450.5', '1e2', '0', '8.0']
NUM_BAD = ['abc', '45,5', ' ', '4 5']
LABELS = ['FITC', 'CD4 PE', 'GFP-A']
CREATORS = ['CellQuest Pro 5.2.1', 'FlowJoCollectorsEdition 7.5.110.7', 'BD FACSDiva Software Version 6.1.3']
FAMILIES = ['$TIMESTEP', 'TIMETICKS', '$BTIM', '$ETIM', '$DATE', '$PnV', '$PnG', '$PnS', 'CREATOR', 'BD$WORDn', 'CytekPnnG']
AMPS = ['0,0', '4,1', '4,0', '4.5,0.5', None, '0,0', '3,0', '0,0', '4,1', '5,0.1', '0,0', '2,1']
TIME_NAMES = [None, 'Time', 'TIME', 'time', 'tImE']


def c17_names(D, tname, rnd, two=False):
    names = ['P%d-A' % (i + 1) for i in range(D)]
    if tname is not None:
        names[rnd.randrange(D)] = tname
    if two:
        names[0], names[-1] = 'Time', 'TIME'
    return names


def c17_case(version, names, kw, rnd, n_events=None):
    D = len(names)
    N = n_events or rnd.choice([1, 2, 3, 5])
    rows = [[(11 * i + 3 * j + (i * i) % 7) % 900 + 5 * i for j in range(D)] for i in range(N)]
    rows = [[min(v, 1000) for v in r] for r in rows]
    for j in range(D):          # every column non-decreasing, so any column can play the time channel
        col = sorted(r[j] for r in rows)
        for i in range(N):
            rows[i][j] = col[i]
    ranges = [rnd.choice([1024, 4096, 65536, 1001]) for _ in range(D)]
    off = rnd.randrange(len(AMPS))
    amp = [AMPS[(off + j) % len(AMPS)] for j in range(D)]
    if version != 'FCS2.0':
        amp = [a if a is not None else '0,0' for a in amp]      # $PnE is required from FCS3.0 on
    return 'C17.meta', {'version': version, 'names': names, 'data': rows, 'ranges': ranges, 'amp': amp, 'kw': [list(p) for p in kw]}


def c17_family_kw(fam, D, rnd, pool_ok, bad=None, chans=None):
    """keyword/value pairs of one family; per-channel families on a seeded non-empty subset of channels"""
    if fam in ('$TIMESTEP', 'TIMETICKS', '$BTIM', '$ETIM', '$DATE', 'CREATOR'):
        return [(fam, bad if bad is not None else rnd.choice(pool_ok))]
    if chans is None:
        chans = [i for i in range(1, D + 1) if rnd.random() < 0.6] or [rnd.randint(1, D)]
        if D >= 10 and 10 not in chans:
            chans.append(10)
    fmt = {'$PnV': '$P%dV', '$PnG': '$P%dG', '$PnS': '$P%dS', 'BD$WORDn': 'BD$WORD%d', 'CytekPnnG': 'CytekP%02dG'}[fam]
    out = []
    for n in chans:
        key = fmt % (n + 12 if fam == 'BD$WORDn' else n)
        out.append((key, bad if (bad is not None and rnd.random() < 0.7) else rnd.choice(pool_ok)))
    if bad is not None and not any(v == bad for _, v in out):
        out[0] = (out[0][0], bad)
    return out


POOLS = {'$TIMESTEP': TS_OK, 'TIMETICKS': TT_OK, '$BTIM': TIME_OK, '$ETIM': TIME_OK, '$DATE': DATE_OK, '$PnV': NUM_OK, '$PnG': NUM_OK,
         '$PnS': LABELS, 'CREATOR': CREATORS, 'BD$WORDn': NUM_OK, 'CytekPnnG': NUM_OK}
BADS = {'$TIMESTEP': TS_BAD, 'TIMETICKS': TT_BAD, '$BTIM': TIME_BAD, '$ETIM': TIME_BAD, '$DATE': DATE_BAD, '$PnV': NUM_BAD, '$PnG': NUM_BAD,
        'BD$WORDn': NUM_BAD, 'CytekPnnG': NUM_BAD}


def g_c17_survey(tier, rnd):
    P = ['A', 'B', 'C']
    T = ['A', 'Time', 'C']
    full = [('$TIMESTEP', '0.01'), ('$BTIM', '10:00:00'), ('$ETIM', '10:01:30.50'), ('$DATE', '15-Mar-2021'), ('$P1V', '450'),
            ('$P2G', '8.0'), ('$P1S', 'FITC')]
    cases = [
        ('FCS3.0', P, []),
        ('FCS3.0', P, [('$TIMESTEP', 'abc')]),
        ('FCS2.0', T, [('TIMETICKS', '100'), ('CREATOR', 'CellQuest Pro 5.2.1'), ('BD$WORD13', '550'), ('BD$WORD15', 'abc')]),
        ('FCS3.0', P, [('$BTIM', '10:00:00:xx')]),
        ('FCS3.1', T, full),
        ('FCS3.0', T, []),
        ('FCS3.0', P, [('$BTIM', '10:00:00'), ('$ETIM', '10:00:05')]),
        ('FCS2.0', P, [('TIMETICKS', 'ticks')]),
        ('FCS3.0', P, full),
        ('FCS3.0', P, [('$ETIM', '10:00:00:xx'), ('$BTIM', '09:00:00')]),
        ('FCS3.0', ['A', 'TIME', 'C'], [('$BTIM', '10:00:00:30'), ('$ETIM', '10:00:05:00'), ('$DATE', '21-mar-15')]),
        ('FCS3.1', P, [('$BTIM', '10:00:00.25'), ('$ETIM', '10:00:05.75'), ('$DATE', '2021-Mar-15')]),
        ('FCS3.0', P, [('$BTIM', '25:00:00'), ('$ETIM', 'noon'), ('$DATE', 'garbage'), ('$P1V', 'abc'), ('$P2G', ' ')]),
        ('FCS3.0', ['Time', 'B', 'TIME'], [('$TIMESTEP', '0.5')]),
        ('FCS3.0', ['a', 'time', 'c'], [('$TIMESTEP', '0.5'), ('TIMETICKS', '100')]),
        ('FCS3.0', P, [('$DATE', '15-Mar-21'), ('$BTIM', '23:59:59'), ('$ETIM', '23:59:59.99')]),
        ('FCS3.0', P, [('CREATOR', 'BD FACSDiva Software Version 6.1.3'), ('BD$WORD13', '550'), ('CytekP01G', '4.0')]),
    ]
    for v, names, kw in cases:
        yield c17_case(v, list(names), kw, rnd)
    names11 = c17_names(11, None, rnd)
    yield c17_case('FCS3.0', names11, [('CREATOR', 'FlowJoCollectorsEdition 7.5.110.7'), ('CytekP01G', '2.0'), ('CytekP10G', '8.0'),
                                       ('CytekP11G', 'x'), ('$P3G', '1.5'), ('CytekP03G', '9')], rnd)
    yield c17_case('FCS2.0', names11, [('CREATOR', 'CellQuest Pro 5.2.1'), ('BD$WORD13', '550'), ('BD$WORD22', '600'), ('$P2V', 'abc'),
                                       ('BD$WORD14', '700'), ('$P3V', '300'), ('BD$WORD15', '301')], rnd)


def g_c17_lattice(tier, rnd):
    """every subset of the 11 optional keyword families, well-formed values"""
    rounds = 2 if tier == 'quick' else 8
    for _ in range(rounds):
        for mask in range(2 ** len(FAMILIES)):
            fams = [f for b, f in enumerate(FAMILIES) if mask >> b & 1]
            D = 11 if ('BD$WORDn' in fams or 'CytekPnnG' in fams or rnd.random() < 0.15) else rnd.choice([1, 2, 3])
            kw = []
            for f in fams:
                kw += c17_family_kw(f, D, rnd, POOLS[f])
            names = c17_names(D, rnd.choice(TIME_NAMES), rnd)
            yield c17_case(rnd.choice(VERSIONS), names, kw, rnd)


def g_c17_formats(tier, rnd):
    """every accepted time format for $BTIM and $ETIM x every accepted date format x presence"""
    dates = [None] + DATE_OK
    for b in TIME_OK:
        for e in (TIME_OK if tier != 'quick' else rnd.sample(TIME_OK, 3)):
            for dte in (dates if tier != 'quick' else [None] + rnd.sample(DATE_OK, 3)):
                kw = [('$BTIM', b), ('$ETIM', e)] + ([('$DATE', dte)] if dte else [])
                yield c17_case(rnd.choice(VERSIONS), c17_names(2, None, rnd), kw, rnd)
    for dte in DATE_OK:
        for v in VERSIONS:
            for t in TIME_OK[::3]:
                yield c17_case(v, c17_names(2, None, rnd), [('$DATE', dte), ('$BTIM', t)], rnd)
                yield c17_case(v, c17_names(2, 'Time', rnd), [('$DATE', dte), ('$ETIM', t), ('$TIMESTEP', '0.1')], rnd)


def g_c17_illformed(tier, rnd):
    """every ill-formed value of every keyword family, alone and among well-formed neighbours, with and without a time channel"""
    for fam, bads in BADS.items():
        for bad in bads:
            for ctx in ('alone', 'full'):
                for tname in (None, 'Time'):
                    for v in (VERSIONS if tier != 'quick' else [rnd.choice(VERSIONS)]):
                        D = 11 if fam in ('BD$WORDn', 'CytekPnnG') else 3
                        kw = c17_family_kw(fam, D, rnd, POOLS[fam], bad=bad)
                        if fam == 'BD$WORDn':
                            kw.append(('CREATOR', CREATORS[0]))
                        if fam == 'CytekPnnG':
                            kw.append(('CREATOR', CREATORS[1]))
                        if ctx == 'full':
                            have = set(k for k, _ in kw)
                            for f in ('$TIMESTEP', '$BTIM', '$ETIM', '$DATE', '$PnV', '$PnG', '$PnS'):
                                if f != fam and not (f == '$PnV' and fam == 'BD$WORDn') and not (f == '$PnG' and fam == 'CytekPnnG'):
                                    kw += [p for p in c17_family_kw(f, D, rnd, POOLS[f]) if p[0] not in have]
                        yield c17_case(v, c17_names(D, tname, rnd), kw, rnd)


def g_c17_duration(tier, rnd):
    """time channel (absent, four spellings, two of them) x time step source x start/end x date"""
    steps = [[], [('$TIMESTEP', '0.01')], [('TIMETICKS', '100')], [('$TIMESTEP', '0.5'), ('TIMETICKS', '100')],
             [('$TIMESTEP', 'abc')], [('$TIMESTEP', 'abc'), ('TIMETICKS', '100')], [('TIMETICKS', ' ')]]
    bes = [[], [('$BTIM', '10:00:00'), ('$ETIM', '10:01:30')], [('$BTIM', '10:00:00.50'), ('$ETIM', '10:00:00:45')], [('$BTIM', '10:00:00')],
           [('$ETIM', '10:00:00')], [('$BTIM', '23:59:50'), ('$ETIM', '00:00:10')], [('$BTIM', '10:00:00'), ('$ETIM', '10:xx:00')]]
    dts = [[], [('$DATE', '15-Mar-2021')], [('$DATE', 'garbage')]]
    for tname in TIME_NAMES + ['two']:
        for st in steps:
            for be in bes:
                for dt in dts:
                    names = c17_names(3, None if tname == 'two' else tname, rnd, two=(tname == 'two'))
                    for n_ev in ((1, 4) if tier != 'quick' else (rnd.choice([1, 3, 4]),)):
                        yield c17_case(rnd.choice(VERSIONS), names, st + be + dt, rnd, n_events=n_ev)


def g_c17_random(tier, rnd):
    """each family independently absent / well-formed / ill-formed"""
    reps = 1500 if tier == 'quick' else 30000
    for _ in range(reps):
        D = rnd.choice([1, 3, 11, 12])
        kw = []
        for f in FAMILIES:
            r = rnd.random()
            if r < 0.45:
                continue
            bad = rnd.choice(BADS[f]) if (r > 0.85 and f in BADS) else None
            kw += c17_family_kw(f, D, rnd, POOLS[f], bad=bad)
        two = rnd.random() < 0.04 and D > 1
        yield c17_case(rnd.choice(VERSIONS), c17_names(D, rnd.choice(TIME_NAMES), rnd, two=two), kw, rnd)


# ====================================================================================================== C19
POW2 = [2 ** k for k in range(8, 19)]
NONPOW = [1000, 3000, 10000, 100000, 257]
C19_NAMES = ['FSC-H', 'SSC-H', 'FL1-H', 'FL2-H']


def c19_sample(R, amp=None, gains=None, convert=None, mef=None, datatype='I', events=None):
    D = len(R)
    x = {'R': list(R), 'amp': list(amp) if amp else ['0,0', '4,1', '4.5,0.5', '4,0'][:D], 'gains': gains, 'convert': convert}
    if convert == 'mef':
        x['mef'] = mef or {'m': 1.08, 'b': 2.0}
    if datatype != 'I':
        x['datatype'] = datatype
    if events:
        x['events'] = events
    return x


def c19_case(sample, channels, nbins, scale, **kwargs):
    x = dict(sample)
    x.update({'channels': channels, 'nbins': nbins, 'scale': scale, 'kwargs': kwargs})
    return 'C19.bins', x


def g_c19_survey(tier, rnd):
    raw = c19_sample([1024, 1024, 1024])
    rfi = c19_sample([1024, 1024, 1000], convert='rfi')
    mef = c19_sample([1024, 1024, 1024], convert='mef')
    yield c19_case(raw, 'FSC-H', None, 'linear')
    yield c19_case(raw, 'FSC-H', None, 'log')
    yield c19_case(raw, 'FL1-H', None, 'logicle')
    yield c19_case(raw, 'FSC-H', 10, 'cubic')
    yield c19_case(rfi, 'SSC-H', None, 'log')
    yield c19_case(rfi, 2, None, 'log')
    yield c19_case(raw, ['FSC-H', 'SSC-H', 2], [None, 5, 1], ['linear', 'logicle', 'linear'])
    yield c19_case(rfi, None, 7, 'linear')
    yield c19_case(mef, ['SSC-H'], 100, 'logicle')
    yield c19_case(mef, 'FSC-H', 2, 'log')
    yield c19_case(rfi, [1, 2], None, ['log', 'log'])
    yield c19_case(raw, None, [1, 2, None], ['logicle', 'log', 'linear'])
    yield c19_case(raw, 1, 50, 'logicle', T=262144, M=4.5, W=0.5)
    yield c19_case(c19_sample([1024, 1024], amp=['0,0', '0,0'], datatype='D', events=[[5.5, -60.0], [100.0, 3.0], [900.0, -2.0]]), 1, 64, 'logicle')
    yield c19_case(raw, [0, 1], 10, ['linear', 'nope'])


def c19_grid(tier, rnd):
    if tier == 'quick':
        res = POW2 + [1000, 3000, 10000]
        nbs = [None, 1, 2, 37, 'R+1']
    else:
        res = POW2 + NONPOW
        nbs = [None, 1, 2, 37, 1000, 'R-1', 'R+1']
    for r in res * (1 if tier == 'quick' else 3):
        for convert in (None, 'rfi', 'mef'):
            gains = rnd.choice([None, [2.0, None, None], [8.0, None, None]])
            amp = ['0,0', rnd.choice(['4,1', '4,0', '5,1']), rnd.choice(['4.5,0.5', '3,10', '4,0.01'])]
            s = c19_sample([r, r, r], amp=amp, gains=gains, convert=convert,
                           mef={'m': round(rnd.uniform(0.9, 1.2), 3), 'b': round(rnd.uniform(0.5, 6.0), 3)})
            yield r, s, nbs


def g_c19_grid(tier, rnd):
    """resolution x conversion x scale x bin count x single-channel form"""
    for r, s, nbs in c19_grid(tier, rnd):
        for scale in ('linear', 'log', 'logicle'):
            for nb in nbs:
                n = r - 1 if nb == 'R-1' else r + 1 if nb == 'R+1' else nb
                c = rnd.randrange(3)
                forms = [C19_NAMES[c], c] if tier == 'quick' else [C19_NAMES[c], c, c - 3, [c], [C19_NAMES[c]]]
                if r >= 65536 and n is None and tier == 'quick':
                    forms = forms[:1]
                for ch in forms:
                    yield c19_case(s, ch, n, scale)


def g_c19_lists(tier, rnd):
    """several channels (lists, all) x per-channel bin counts and scales"""
    scales = ['linear', 'log', 'logicle']
    reps = 400 if tier == 'quick' else 3000
    for _ in range(reps):
        r = [rnd.choice([256, 1000, 1024, 4096] + ([] if tier == 'quick' else [65536, 3000])) for _ in range(3)]
        s = c19_sample(r, gains=rnd.choice([None, [2.0, None, None]]), convert=rnd.choice([None, 'rfi', 'mef']))
        k = rnd.choice([None, 1, 2, 3])
        if k is None:
            ch, L = None, 3
        else:
            cols = rnd.sample(range(3), k)
            ch, L = [(C19_NAMES[c] if rnd.random() < 0.5 else c) for c in cols], k
        nb = rnd.choice([None, 1, 2, 11, [rnd.choice([None, 1, 2, 5, 300]) for _ in range(L)]])
        sc = rnd.choice(scales + [[rnd.choice(scales) for _ in range(L)]] * 3)
        yield c19_case(s, ch, nb, sc)
    for sc in (['linear', 'sqrt', 'log'], 'biexp', ['logicle', 'logicle', 'Linear']):
        yield c19_case(c19_sample([256, 256, 256]), None, 4, sc)


def g_c19_logicle(tier, rnd):
    """logicle overrides T, M, W and negative events (default W)"""
    Ts = [None, 262144, 1000, 1e6]
    Ms = [None, 4.5, 5.5, 3.0]
    Ws = [None, 0, 0.5, 1.0]
    combos = list(itertools.product(Ts, Ms, Ws))
    for T, M, W in combos:
        for convert in (None, 'rfi', 'mef'):
            r = rnd.choice([256, 1024, 4096, 1000] + ([] if tier == 'quick' else [65536, 262144]))
            s = c19_sample([r, r, r], convert=convert)
            kw = {k: v for k, v in (('T', T), ('M', M), ('W', W)) if v is not None}
            yield c19_case(s, rnd.choice(C19_NAMES[:3]), rnd.choice([None, 1, 2, 64]), 'logicle', **kw)
            yield c19_case(s, None, [None, 2, 9], 'logicle', **kw)
    for neg in (-1.0, -60.0, -0.001, -900.0):
        for r in (256, 1024, 4096):
            ev = [[5.5, neg], [100.0, 3.0], [r - 1.0, neg / 2]]
            s = c19_sample([r, r], amp=['0,0', '0,0'], datatype='D', events=ev)
            for nb in (None, 1, 32):
                yield c19_case(s, 1, nb, 'logicle')
                yield c19_case(s, [1, 0], nb, ['logicle', 'linear'])
    # several logicle channels of the same range whose most negative events differ (each channel has its own W)
    for (n0, n1) in ((-2.0, -300.0), (-300.0, -2.0), (-0.5, -40.0), (5.0, -90.0), (-90.0, 5.0)):
        for r in (256, 1024):
            ev = [[n0, n1], [100.0, 3.0], [r - 1.0, 20.0], [7.0, r - 2.0]]
            s = c19_sample([r, r], amp=['0,0', '0,0'], datatype='D', events=ev)
            for ch in ([0, 1], [1, 0], None, ['FSC-H', 'SSC-H']):
                yield c19_case(s, ch, rnd.choice([None, 8, 33]), 'logicle')


# ====================================================================================================== registry
def c12_zone(inp):
    st, cont, dt = inp['stat'], inp['container'], inp['dtype']
    return (st == 'mode' or (st in ('iqr', 'rcv') and (cont == 'fcs-rfi' or (cont == 'fcs-raw' and dt in ('D', 'F'))))
            or (st in ('gstd', 'gcv') and cont != 'fcs-rfi' and dt in ('I8', 'I16', 'uint8', 'uint16')))


def _wf_time(v):
    m = re.fullmatch(r'(\d\d):(\d\d):(\d\d)(?:\.(\d+)|:(\d\d))?', v or '')
    return bool(m) and int(m.group(1)) < 24 and int(m.group(2)) < 60 and int(m.group(3)) < 60 and (m.group(5) is None or int(m.group(5)) < 60)


def c17_zone(inp):
    kw = {k: v for k, v in inp['kw']}
    tch = sum(1 for n in inp['names'] if n.lower() == 'time')
    ts_ok = kw.get('$TIMESTEP') in TS_OK or ('$TIMESTEP' not in kw and kw.get('TIMETICKS') in TT_OK)
    bad_ts = ('$TIMESTEP' in kw and kw['$TIMESTEP'] not in TS_OK) or ('TIMETICKS' in kw and kw['TIMETICKS'] not in TT_OK)
    bad4 = any(kw.get(k, '').count(':') == 3 and not kw[k].split(':')[3].isdigit() for k in ('$BTIM', '$ETIM'))
    nodate = tch == 0 and _wf_time(kw.get('$BTIM')) and _wf_time(kw.get('$ETIM')) and kw.get('$DATE') not in DATE_OK
    return bad_ts or bad4 or (tch == 1 and not ts_ok) or nodate


def c19_zone(inp):
    sc = inp['scale']
    return 'log' in (sc if isinstance(sc, list) else [sc])


_STREAM = {}


def two_pass(pid, subgens, zone):
    def main(tier, rnd):
        _STREAM[(pid, tier)] = rnd.getstate()
        for g in subgens:
            for t, inp in g(tier, rnd):
                if not zone(inp):
                    yield t, inp

    def known_zone(tier, rnd):
        st = _STREAM.pop((pid, tier), None)
        r2 = rnd
        if st is not None:
            r2 = random.Random()
            r2.setstate(st)
        for g in subgens:
            for t, inp in g(tier, r2):
                if zone(inp):
                    yield t, inp
    return [('main', main), ('known_zone', known_zone)]


GENS = {
    'C12': [('survey', g_c12_survey)] + two_pass('C12', [g_c12_matrix, g_c12_narrow], c12_zone),
    'C17': [('survey', g_c17_survey)] + two_pass('C17', [g_c17_duration, g_c17_illformed, g_c17_formats, g_c17_lattice, g_c17_random],
                                                 c17_zone),
    'C19': [('survey', g_c19_survey)] + two_pass('C19', [g_c19_grid, g_c19_lists, g_c19_logicle], c19_zone),
}

BOUNDS = {
    'C12': ('ten statistics x event matrices (7 fixed integer matrices: 1 event, 2 events, ties, constant columns, two equally frequent '
            'values, zeros [arithmetic statistics only], a narrow peak; 2 fixed fractional matrices; seeded matrices with 1..12 events '
            '(quick, 12 draws) / 1..60 events (thorough, 64 draws), 1..4 channels, four styles: small alphabet, wide, constant columns, '
            'fractional) x containers {ndarray int64/float64 (+uint32/float32 thorough), sample loaded from 32- and 16-bit integer / double '
            '(+single thorough) files, the same after to_rfi with linear amplifiers (gain 1, 2, 4) and with mixed log/linear '
            'amplifiers} x channel argument {absent, position, single-element list, all positions; for samples also name and '
            '[name]; plus 2 (quick) / 6 (thorough) seeded forms out of last, -1, reversed list, ordered subset, mixed name/position '
            'lists}; one fixed 5x3 survey matrix (32 hand-picked cases); a narrow-integer part (8/16-bit '
            'files, uint8/uint16 arrays). Oracle: pure-Python definition on the channel values (population SD, percentiles by linear '
            'interpolation), relative tolerance 1e-6 (64 eps for float32 events), result shape, mode = any most frequent value, '
            'identities CV=SD/mean, RCV=IQR/median, GCV=sqrt(exp(ln(GSD)^2)-1) between the library results; events unchanged'),
    'C17': ('generated FCS files, 1..5 events, 1..12 parameters (11/12 whenever BD$WORDn or CytekPnnG occur, so n=10 is covered), versions '
            'FCS2.0/3.0/3.1 drawn per case: all 2^11 subsets of the optional keyword families with well-formed seeded values (x2 quick, x8 '
            'thorough; per-channel families on a seeded subset of channels); $BTIM x $ETIM over 12 well-formed strings (4 per format '
            'hh:mm:ss, hh:mm:ss.cc, hh:mm:ss:tt) x 9 dates (all four formats, month in three letter cases) x date absent (quick: 3 of 12 '
            'x 3 of 9); every ill-formed value (4 time steps, 3 tick values, 15 times: non-numeric / wrong field count / out-of-range / '
            'blank, 10 dates, 4 numbers per $PnV, $PnG, BD$WORDn, CytekPnnG) alone and among well-formed neighbours, with and without a '
            'time channel; duration lattice: time channel {absent, Time, TIME, time, tImE, two} x 7 time-step situations x 7 start/end '
            'situations x 3 date situations; seeded mixes (1500 quick / 30000 thorough) with each family absent / well-formed / ill-formed. '
            'A zero-length value cannot be stored in an FCS TEXT segment: "empty" is a single blank. Oracle: independent parsers in '
            'replay_meta.py; where the statement leaves two readings open (ill-formed standard keyword with a valid fallback, fallback '
            'keyword without CREATOR, two-digit year century, end before start) both are accepted'),
    'C19': ('samples with 3 channels (linear, log a1>0, log with other offsets; optional linear gain 2 or 8) and resolutions 2^8..2^18 and '
            '{1000, 3000, 10000} (quick) / 2^8..2^18 and {1000, 3000, 10000, 100000, 257} (thorough, three seeded amplifier/gain/curve draws each), raw / to_rfi / to_mef '
            '(seeded power-law curve) ranges (lower limits 0, 1, 0.5, 10, 0.01 and their MEF images) x scale {linear, log, logicle} x bin '
            'count {default, 1, 2, 37, R+1} (+1000, R-1 thorough) x single-channel forms {name, position} (+negative position, [position], '
            '[name] thorough); 400 (quick) / 3000 (thorough) seeded multi-channel requests (all / ordered subsets by name or position) with '
            'scalar or per-channel bin counts and scales; unknown scales; logicle overrides T in {-, 262144, 1000, 1e6} x M in {-, 4.5, '
            '5.5, 3} x W in {-, 0, 0.5, 1} (all 64 combinations) and double-precision samples with negative events '
            '(default W). Oracle: n+1 finite strictly increasing edges; first edge <= lower limit and last edge >= upper limit (lower '
            'limit not required in log scale when it is <= 0; upper limit not required when the caller overrides T below the range or M '
            'below 4.5); log edges > 0; logicle edges mapped back through an independent logicle implementation (documented default T, M, '
            'W) are a uniform grid to 1e-6; default count = resolution with every value at its bin centre (linear on raw integer data, '
            'log on log-amplified channels after to_rfi); list requests equal the single-channel answers exactly; unknown scale raises; '
            'ranges, resolution and events identical before and after the call'),
}


def failure_class(target, inp, detail):
    if target not in ('C12.stats', 'C17.meta', 'C19.bins'):
        return None
    s = str(detail)
    if s.startswith('[') and ']' in s:
        return s[1:s.index(']')]
    return s[:50]
