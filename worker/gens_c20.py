"""C20 bounded generator: states reached by up to three steps x {copy, copy.copy, deepcopy, view, pickle protocols 0..5}"""
import itertools

STEPS = [('channels-list', [2, 0]), ('channels-list', [1, 2]), ('channels-pos', [0, 2]), ('channels-range', 1, 3), ('channel-one', 1),
         ('events', 1, 4), ('mask', 2), ('rfi',), ('gate', 1, 1)]
OPS = ['copy()', 'copy.copy', 'copy.deepcopy', 'view()'] + ['pickle-%d' % p for p in range(6)]


def _meta():
    return {'channels': ['FSC-H', 'SSC-H', 'FL1-H'], 'range': [[0.0, 255.0], [0.0, 1023.0], [0.0, 1023.0]],
            'amplification_type': [[0.0, 0.0], [4.0, 1.0], [4.5, 0.5]], 'amplifier_gain': [2.0, None, None],
            'detector_voltage': [450.0, None, 500.0], 'resolution': [256, 1024, 1024]}


def g_c20(tier, rnd):
    rows = [[float((7 * i + 3 * j) % 200 + 1) for j in range(3)] for i in range(6)]
    seqs = [()] + [(s,) for s in STEPS] + list(itertools.permutations(STEPS, 2))
    if tier != 'quick':
        seqs += rnd.sample(list(itertools.permutations(STEPS, 3)), 150)
    else:
        seqs = seqs[:10] + rnd.sample(seqs[10:], 30)
    for dt in ('D', 'I'):
        for sq in seqs:
            # a single-channel slice makes a 1-d sample: later channel steps do not apply
            ok, oned = True, False
            for st in sq:
                if oned and st[0].startswith('channel'):
                    ok = False
                if st[0] == 'channel-one':
                    oned = True
                if st[0] == 'rfi' and oned:
                    ok = False
                if st[0] in ('gate',) and oned:
                    ok = False
            # channel positions must exist after earlier channel slices: keep sequences with at most one channel step
            if sum(1 for st in sq if st[0].startswith('channel')) > 1:
                ok = False
            if not ok:
                continue
            for op in OPS:
                yield 'C20.states', {'data': rows, 'meta': _meta(), 'datatype': dt, 'steps': [list(s) for s in sq], 'op': op}


GENS = {'C20': [('states x operations', g_c20)]}
BOUNDS = {'C20': 'one 6x3 sample (float and integer data, distinct per-channel metadata) x states reached by 0, 1 or 2 (thorough: a sample of '
                 '3) of {channel list / positions / range / single channel, event slice, boolean mask, to_rfi, start_end gate} x {copy(), '
                 'copy.copy, copy.deepcopy, view(), pickle protocols 0..5}: equality of events, dtype, every metadata attribute; independence'}


def failure_class(target, inp, detail):
    if target == 'C20.states':
        d = str(detail)
        return d[1:d.index(']')] if d.startswith('[') and ']' in d else 'other'
    return None
