"""Replays a counterexample (concrete inputs) against the REAL functions in /repo and evaluates the
property's clause concretely. Runs under /venv/bin/python.

usage: replay.py <replay.json>      prints a JSON verdict {violates: bool, detail: str, observed: ..., expected: ...}
"""
import json
import math
import os
import shutil
import sys
import tempfile
import traceback
import warnings

HERE = os.path.dirname(os.path.abspath(__file__))
sys.path.insert(0, HERE)
sys.path.insert(0, os.path.dirname(HERE))
REPO = os.environ.get('FLOWCAL_REPO', '/repo')
sys.path.insert(0, REPO)
warnings.simplefilter('ignore')

import numpy as np  # noqa: E402


def fnum(x):
    if isinstance(x, str):
        if '/' in x:
            a, b = x.split('/')
            return int(a) / int(b)
        return float(x)
    return x


def to_matrix(rows, ndim=2):
    a = np.array([[fnum(v) for v in r] for r in rows], dtype=float) if ndim == 2 else np.array([fnum(v) for v in rows], dtype=float)
    return a


def make_fcs(tmp, rows, meta=None, datatype='D', names=None):
    """FCSData with the given event values; metadata overridden from `meta` (a dict of per-channel lists)."""
    import gen_fcs
    import FlowCal
    D = len(rows[0]) if rows else len((meta or {}).get('channels') or names or [None])
    if not rows:
        # zero events cannot be written with the 'last byte' convention: load one event and slice it away
        d = gen_fcs.load_sample(tmp, [[0.0] * D], names=names, datatype=datatype)[0:0]
    else:
        d = gen_fcs.load_sample(tmp, [[fnum(v) for v in r] for r in rows], names=names, datatype=datatype)
    if meta:
        if 'channels' in meta:
            d._channels = tuple(meta['channels'])
        if 'range' in meta:
            d._range = [None if r is None else [fnum(r[0]), fnum(r[1])] for r in meta['range']]
        if 'amplification_type' in meta:
            d._amplification_type = tuple(None if a is None else (fnum(a[0]), fnum(a[1])) for a in meta['amplification_type'])
        if 'amplifier_gain' in meta:
            d._amplifier_gain = tuple(None if g is None else fnum(g) for g in meta['amplifier_gain'])
        if 'resolution' in meta:
            d._resolution = tuple(int(r) for r in meta['resolution'])
        if 'detector_voltage' in meta:
            d._detector_voltage = tuple(None if g is None else fnum(g) for g in meta['detector_voltage'])
        if 'channel_labels' in meta:
            d._channel_labels = tuple(meta['channel_labels'])
    return d


def meta_of(d):
    return {a: getattr(d, '_' + a) for a in ('channels', 'amplification_type', 'detector_voltage', 'amplifier_gain',
                                             'channel_labels', 'range', 'resolution')}


def same_meta(a, b):
    ma, mb = meta_of(a), meta_of(b)
    for k in ma:
        if list(ma[k]) != list(mb[k]) and not (repr(ma[k]) == repr(mb[k])):
            return False, k
    return True, None


def call(fn, *a, **k):
    try:
        return ('return', fn(*a, **k))
    except Exception as e:   # noqa
        return ('raise', e)


REPLAYERS = {}


def replayer(target):
    def deco(f):
        REPLAYERS[target] = f
        return f
    return deco


def data_input(tmp, inp):
    if inp.get('container') == 'FCSData':
        return make_fcs(tmp, inp['data'], inp.get('meta'))
    return to_matrix(inp['data'], inp.get('ndim', 2))


def check_gate_result(data, res, full, expected_mask, fields):
    """gated == data[mask], mask == expected, metadata kept, short form == gated of full form"""
    if res[0] == 'raise':
        return True, 'unexpected %s: %s' % (type(res[1]).__name__, res[1])
    out = res[1]
    if full:
        if tuple(getattr(out, '_fields', ())) != tuple(fields):
            return True, 'full output fields %r' % (getattr(out, '_fields', None),)
        gated, mask = out.gated_data, out.mask
        if mask.dtype != bool or not np.array_equal(np.asarray(mask), expected_mask):
            return True, 'mask %s != documented predicate %s' % (np.asarray(mask).tolist(), expected_mask.tolist())
    else:
        gated = out
    exp = np.asarray(data)[expected_mask]
    if np.asarray(gated).shape != exp.shape or not np.array_equal(np.asarray(gated), exp, equal_nan=True):
        return True, 'gated data %s != input restricted to the predicate %s' % (np.asarray(gated).tolist(), exp.tolist())
    if type(gated) is not type(data):
        return True, 'container kind changed: %s -> %s' % (type(data).__name__, type(gated).__name__)
    if hasattr(data, '_channels'):
        ok, k = same_meta(data, gated)
        if not ok:
            return True, 'metadata attribute %s differs' % k
    return False, 'agrees with the documented predicate'


@replayer('FlowCal.gate.start_end')
def r_start_end(tmp, inp):
    import FlowCal
    data = data_input(tmp, inp)
    ns, ne = int(inp['num_start']), int(inp['num_end'])
    N = data.shape[0]
    s, e = max(ns, 0), max(ne, 0)
    res = call(FlowCal.gate.start_end, data, num_start=ns, num_end=ne, full_output=inp['full'])
    if N < s + e:
        ok = res[0] == 'raise' and isinstance(res[1], ValueError)
        return (not ok), 'N=%d < %d+%d must raise ValueError; observed %s' % (N, s, e, res[0] if res[0] == 'return' else repr(res[1]))
    exp = np.array([s <= i < N - e for i in range(N)], dtype=bool)
    return check_gate_result(data, res, inp['full'], exp, ('gated_data', 'mask'))


def main():
    path = sys.argv[1]
    with open(path) as f:
        rp = json.load(f)
    tmp = tempfile.mkdtemp(prefix='flowcal_replay_')
    try:
        target = rp['target']
        if target not in REPLAYERS:
            # replayers living in sibling modules
            import importlib
            for m in ('replay_transform', 'replay_io', 'replay_misc'):
                try:
                    importlib.import_module(m)
                except ImportError:
                    pass
        if target not in REPLAYERS:
            print(json.dumps({'violates': None, 'detail': 'no replayer for ' + target}))
            return
        try:
            v, detail = REPLAYERS[target](tmp, rp['inputs'])
            print(json.dumps({'violates': bool(v), 'detail': str(detail)[:2000]}))
        except Exception as e:   # noqa
            print(json.dumps({'violates': None, 'detail': 'replayer error: %s\n%s' % (e, traceback.format_exc()[-1500:])}))
    finally:
        shutil.rmtree(tmp, ignore_errors=True)


if __name__ == '__main__':
    main()
