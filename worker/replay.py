"""Replays a counterexample (concrete inputs) against the REAL functions in /repo and evaluates the
property's clause concretely. Runs under /venv/bin/python.

usage: replay.py <replay.json>      prints a JSON verdict {violates: bool, detail: str, observed: ..., expected: ...}
"""
import json
import math
import os
import shutil
import sys
import tempfile
import traceback
import warnings

HERE = os.path.dirname(os.path.abspath(__file__))
sys.path.insert(0, HERE)
sys.path.insert(0, os.path.dirname(HERE))
REPO = os.environ.get('FLOWCAL_REPO', '/repo')
sys.path.insert(0, REPO)
warnings.simplefilter('ignore')

import numpy as np  # noqa: E402


def fnum(x):
    if isinstance(x, str):
        if '/' in x:
            a, b = x.split('/')
            return int(a) / int(b)
        return float(x)
    return x


def to_matrix(rows, ndim=2):
    a = np.array([[fnum(v) for v in r] for r in rows], dtype=float) if ndim == 2 else np.array([fnum(v) for v in rows], dtype=float)
    return a


def make_fcs(tmp, rows, meta=None, datatype='D', names=None):
    """FCSData with the given event values; metadata overridden from `meta` (a dict of per-channel lists)."""
    import gen_fcs
    import FlowCal
    D = len(rows[0]) if rows else len((meta or {}).get('channels') or names or [None])
    if not rows:
        # zero events cannot be written with the 'last byte' convention: load one event and slice it away
        d = gen_fcs.load_sample(tmp, [[0.0] * D], names=names, datatype=datatype)[0:0]
    else:
        d = gen_fcs.load_sample(tmp, [[fnum(v) for v in r] for r in rows], names=names, datatype=datatype)
    if meta:
        if 'channels' in meta:
            d._channels = tuple(meta['channels'])
        if 'range' in meta:
            d._range = [None if r is None else [fnum(r[0]), fnum(r[1])] for r in meta['range']]
        if 'amplification_type' in meta:
            d._amplification_type = tuple(None if a is None else (fnum(a[0]), fnum(a[1])) for a in meta['amplification_type'])
        if 'amplifier_gain' in meta:
            d._amplifier_gain = tuple(None if g is None else fnum(g) for g in meta['amplifier_gain'])
        if 'resolution' in meta:
            d._resolution = tuple(int(r) for r in meta['resolution'])
        if 'detector_voltage' in meta:
            d._detector_voltage = tuple(None if g is None else fnum(g) for g in meta['detector_voltage'])
        if 'channel_labels' in meta:
            d._channel_labels = tuple(meta['channel_labels'])
    return d


def meta_of(d):
    return {a: getattr(d, '_' + a) for a in ('channels', 'amplification_type', 'detector_voltage', 'amplifier_gain',
                                             'channel_labels', 'range', 'resolution')}


def same_meta(a, b):
    ma, mb = meta_of(a), meta_of(b)
    for k in ma:
        if list(ma[k]) != list(mb[k]) and not (repr(ma[k]) == repr(mb[k])):
            return False, k
    return True, None


CALL_LOG = []       # (qualified name of the real function, 'return' | 'raise:<Class>') for every call made through call()


def call(fn, *a, **k):
    name = '%s.%s' % (getattr(fn, '__module__', '?'), getattr(fn, '__qualname__', getattr(fn, '__name__', '?')))
    if hasattr(fn, '__self__') and not isinstance(fn.__self__, type(sys)):
        name = '%s.%s.%s' % (type(fn.__self__).__module__, type(fn.__self__).__qualname__, getattr(fn, '__name__', '?'))
    try:
        r = fn(*a, **k)
        if len(CALL_LOG) < 200:
            CALL_LOG.append((name, 'return'))
        return ('return', r)
    except Exception as e:   # noqa
        if len(CALL_LOG) < 200:
            CALL_LOG.append((name, 'raise:' + type(e).__name__))
        return ('raise', e)


REPLAYERS = {}


def replayer(target):
    def deco(f):
        REPLAYERS[target] = f
        return f
    return deco


def data_input(tmp, inp):
    if inp.get('container') == 'FCSData':
        return make_fcs(tmp, inp['data'], inp.get('meta'))
    a = to_matrix(inp['data'], inp.get('ndim', 2))
    if inp.get('ndim', 2) == 2 and a.ndim != 2:
        a = a.reshape((len(inp['data']), (inp.get('shape') or [0, 0])[1]))
    return a


def check_gate_result(data, res, full, expected_mask, fields):
    """gated == data[mask], mask == expected, metadata kept, short form == gated of full form"""
    if res[0] == 'raise':
        return True, 'unexpected %s: %s' % (type(res[1]).__name__, res[1])
    out = res[1]
    if full:
        if tuple(getattr(out, '_fields', ())) != tuple(fields):
            return True, 'full output fields %r' % (getattr(out, '_fields', None),)
        gated, mask = out.gated_data, out.mask
        if mask.dtype != bool or not np.array_equal(np.asarray(mask), expected_mask):
            return True, 'mask %s != documented predicate %s' % (np.asarray(mask).tolist(), expected_mask.tolist())
    else:
        gated = out
    exp = np.asarray(data)[expected_mask]
    if np.asarray(gated).shape != exp.shape or not np.array_equal(np.asarray(gated), exp, equal_nan=True):
        return True, 'gated data %s != input restricted to the predicate %s' % (np.asarray(gated).tolist(), exp.tolist())
    if type(gated) is not type(data):
        return True, 'container kind changed: %s -> %s' % (type(data).__name__, type(gated).__name__)
    if hasattr(data, '_channels'):
        ok, k = same_meta(data, gated)
        if not ok:
            return True, 'metadata attribute %s differs' % k
    return False, 'agrees with the documented predicate'


@replayer('FlowCal.gate.start_end')
def r_start_end(tmp, inp):
    import FlowCal
    data = data_input(tmp, inp)
    ns, ne = int(inp['num_start']), int(inp['num_end'])
    N = data.shape[0]
    s, e = max(ns, 0), max(ne, 0)
    res = call(FlowCal.gate.start_end, data, num_start=ns, num_end=ne, full_output=inp['full'])
    if N < s + e:
        ok = res[0] == 'raise' and isinstance(res[1], ValueError)
        return (not ok), 'N=%d < %d+%d must raise ValueError; observed %s' % (N, s, e, res[0] if res[0] == 'return' else repr(res[1]))
    exp = np.array([s <= i < N - e for i in range(N)], dtype=bool)
    return check_gate_result(data, res, inp['full'], exp, ('gated_data', 'mask'))


@replayer('FlowCal.gate.high_low')
def r_high_low(tmp, inp):
    import FlowCal
    data = data_input(tmp, inp)
    ch = inp['channels']
    high = None if inp['high'] is None else fnum(inp['high'])
    low = None if inp['low'] is None else fnum(inp['low'])
    N, D = data.shape
    names = list(getattr(data, '_channels', []) or [])

    def resolve(c):
        if isinstance(c, str):
            return names.index(c) if c in names else None
        return c + D if -D <= c < 0 else (c if 0 <= c < D else None)
    if ch is None:
        cols = list(range(D))
    elif isinstance(ch, list):
        cols = [resolve(c) for c in ch]
    else:
        cols = [resolve(ch)]
    res = call(FlowCal.gate.high_low, data, channels=ch, high=high, low=low, full_output=inp['full'])
    if any(c is None for c in cols):
        ok = res[0] == 'raise'
        return (not ok), 'unknown name / out-of-range position must raise; observed %s' % res[0]
    X = np.asarray(data)
    rng = getattr(data, '_range', None)
    exp = np.ones(N, dtype=bool)
    for c in cols:
        hi = high if high is not None else (rng[c][1] if (rng is not None and rng[c] is not None) else np.inf)
        lo = low if low is not None else (rng[c][0] if (rng is not None and rng[c] is not None) else -np.inf)
        exp &= (X[:, c] < hi) & (X[:, c] > lo)
    return check_gate_result(data, res, inp['full'], exp, ('gated_data', 'mask'))


@replayer('FlowCal.gate.ellipse')
def r_ellipse(tmp, inp):
    import FlowCal
    data = data_input(tmp, inp)
    ch = inp['channels']
    N, D = data.shape
    if ch is None:
        res = call(FlowCal.gate.ellipse, data, [0], center=[0, 0], a=1, b=1)
        return not (res[0] == 'raise' and isinstance(res[1], ValueError)), 'one channel must raise ValueError; observed %s' % res[0]
    # theta: the model only fixes (cos, sin); recover an angle with those values when they are consistent
    co, si = fnum(inp['cos']), fnum(inp['sin'])
    if abs(co * co + si * si - 1) > 1e-9:
        theta = fnum(inp['theta'])
    else:
        theta = math.atan2(si, co)
    cx, cy = [fnum(v) for v in inp['center']]
    a, b = fnum(inp['a']), fnum(inp['b'])
    names = list(getattr(data, '_channels', []) or [])
    cols = [(names.index(c) if c in names else None) if isinstance(c, str) else (c % D if -D <= c < D else None) for c in ch]
    res = call(FlowCal.gate.ellipse, data, ch, center=[cx, cy], a=a, b=b, theta=theta, log=inp['log'], full_output=inp['full'])
    if any(c is None for c in cols):
        return res[0] != 'raise', 'invalid channel must raise; observed %s' % res[0]
    X = np.asarray(data, dtype=float)
    px, py = X[:, cols[0]], X[:, cols[1]]
    if inp['log']:
        with np.errstate(all='ignore'):
            px, py = np.log10(px), np.log10(py)
    co, si = math.cos(theta), math.sin(theta)
    u = co * (px - cx) + si * (py - cy)
    w = -si * (px - cx) + co * (py - cy)
    q = (u / a) ** 2 + (w / b) ** 2
    # events numerically on the boundary are not decisive in floating point: skip the replay there
    if np.any(np.abs(q - 1) < 1e-9):
        return False, 'event on the boundary within rounding: not decisive'
    exp = q <= 1
    v, d = check_gate_result(data, res, inp['full'], exp, ('gated_data', 'mask', 'contour'))
    if v or not inp['full']:
        return v, d
    cnt = res[1].contour
    if not (isinstance(cnt, list) and len(cnt) == 1 and np.ndim(cnt[0]) == 2 and cnt[0].shape[1] == 2):
        return True, 'contour is not a list with one Kx2 array'
    P = np.asarray(cnt[0], dtype=float)
    if inp['log']:
        P = np.log10(P)
    uu = co * (P[:, 0] - cx) + si * (P[:, 1] - cy)
    ww = -si * (P[:, 0] - cx) + co * (P[:, 1] - cy)
    qq = (uu / a) ** 2 + (ww / b) ** 2
    if not np.allclose(qq, 1, rtol=1e-6, atol=1e-6):
        return True, 'contour points do not lie on the ellipse: max |q-1| = %g' % float(np.max(np.abs(qq - 1)))
    return False, 'agrees'


def main():
    path = sys.argv[1]
    with open(path) as f:
        rp = json.load(f)
    tmp = tempfile.mkdtemp(prefix='flowcal_replay_')
    try:
        target = rp['target']
        if target not in REPLAYERS:
            # replayers living in sibling modules (they register into this module's table)
            import importlib
            sys.modules.setdefault('replay', sys.modules['__main__'])
            import glob
            for p_ in sorted(glob.glob(os.path.join(HERE, 'replay_*.py'))):
                try:
                    importlib.import_module(os.path.basename(p_)[:-3])
                except Exception as e_:
                    print('replay plug-in %s failed to import: %r' % (p_, e_), file=sys.stderr)
        for m in list(sys.modules.values()):
            al = getattr(m, 'REPLAYERS_ALIAS', None)
            if al and target in al:
                target = al[target]
        if target not in REPLAYERS:
            print(json.dumps({'violates': None, 'detail': 'no replayer for ' + target}))
            return
        try:
            v, detail = REPLAYERS[target](tmp, rp['inputs'])
            print(json.dumps({'violates': bool(v), 'detail': str(detail)[:2000], 'calls': CALL_LOG[:40]}))
        except Exception as e:   # noqa
            print(json.dumps({'violates': None, 'detail': 'replayer error: %s\n%s' % (e, traceback.format_exc()[-1500:])}))
    finally:
        shutil.rmtree(tmp, ignore_errors=True)


if __name__ == '__main__':
    main()
