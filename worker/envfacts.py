"""Facts about the installed interpreter/libraries that the engine must not guess. Run under /venv/bin/python."""
import json
import sys


def main():
    import numpy as np
    import scipy
    import scipy.stats
    facts = {
        'python': sys.version.split()[0],
        'numpy': np.__version__,
        'scipy': scipy.__version__,
        'numpy_has': {n: hasattr(np, n) for n in ('Inf', 'inf', 'NaN', 'nan', 'float', 'int', 'bool', 'infty', 'PINF', 'NINF')},
        'valueerror_has_message': hasattr(ValueError('x'), 'message'),
    }
    try:
        r = scipy.stats.mode(np.array([[1, 2], [1, 3], [2, 3]]), axis=0)
        facts['scipy_mode_result_ndim_2d_input'] = int(np.ndim(r[0]))
        r1 = scipy.stats.mode(np.array([1, 1, 2]), axis=0)
        facts['scipy_mode_result_ndim_1d_input'] = int(np.ndim(r1[0]))
    except Exception as e:
        facts['scipy_mode_error'] = repr(e)
    try:
        import pandas
        facts['pandas'] = pandas.__version__
    except Exception:
        pass
    try:
        import sklearn
        facts['sklearn'] = sklearn.__version__
    except Exception:
        pass
    json.dump(facts, sys.stdout)


if __name__ == '__main__':
    main()
