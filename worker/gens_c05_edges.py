"""Targeted C05 cases (quick tier): events a hair above the top bin edge, and fractions whose product with the in-grid count lands
a rounding error above an integer (cumulative counts hitting integers exactly: one event per bin)."""
import numpy as np


def g_top_edge(tier, rnd):
    edges = {'edges': [float(v) for v in np.linspace(0.0, 1000.0, 11)]}
    top = 1000.0
    for extra in ([np.nextafter(top, 2 * top)] * 6, [top * (1 + 2e-7)] * 6, [top + 0.004] * 6, [np.nextafter(top, 2 * top), top + 1e-9, top * (1 + 1e-7)] * 2):
        rows = []
        # a dense population saturating at the top edge, a broad background, and the events just above the edge
        for i in range(30):
            rows.append([top, top])
        for i in range(40):
            rows.append([float(rnd.uniform(0, 990)), float(rnd.uniform(0, 990))])
        for v in extra:
            rows.append([float(v), float(v)])
        for chs in ([0, 1], [1, 0]):
            yield 'C05.density', {'kind': 'gate', 'container': 'ndarray', 'data': rows, 'channels': chs, 'bins': [edges, edges],
                                  'xscale': 'logicle', 'yscale': 'logicle', 'sigma': 1.0, 'fractions': [0.3, 0.5, 0.8, 1.0],
                                  'perm_seed': rnd.randrange(10 ** 6), 'events': 'top-edge'}


def g_integral_products(tier, rnd):
    # one event per bin on a 10 x 10 grid: cumulative counts take every integer value
    edges = {'edges': [float(v) for v in range(0, 11)]}
    rows = [[i + 0.5, j + 0.5] for i in range(10) for j in range(10)]
    rnd.shuffle(rows)
    fr = [0.07, 0.14, 0.28, 0.29, 0.56, 0.57, 0.58, 1e-12, 0.55, 0.035 * 2]
    yield 'C05.density', {'kind': 'gate', 'container': 'ndarray', 'data': rows, 'channels': [0, 1], 'bins': [edges, edges],
                          'xscale': 'logicle', 'yscale': 'logicle', 'sigma': 1.0, 'fractions': fr, 'perm_seed': 7, 'events': 'one-per-bin'}
    rows2 = [[i + 0.5, j + 0.5] for i in range(7) for j in range(7)]
    edges2 = {'edges': [float(v) for v in range(0, 8)]}
    yield 'C05.density', {'kind': 'gate', 'container': 'ndarray', 'data': rows2, 'channels': [0, 1], 'bins': [edges2, edges2],
                          'xscale': 'logicle', 'yscale': 'logicle', 'sigma': 0.5, 'fractions': [k / 49.0 for k in range(1, 49, 3)] + [0.1, 0.3, 0.7],
                          'perm_seed': 11, 'events': 'one-per-bin'}


GENS = {'C05': [('top_edge', g_top_edge), ('integral_products', g_integral_products)]}
BOUNDS = {'C05': 'targeted: explicit 10x10 edges with a population saturating at the top edge and events 1 ulp / 2e-7 relative / 0.004 above it; '
                 'one event per bin on 10x10 and 7x7 grids with fractions whose product with the in-grid count is within rounding of an integer'}
