"""Generators of the bounded stand-ins for the numerical properties C05 (density gate), C18 (logicle), C09 (bead fit) and
C02 (bead calibration end to end).  Oracles: replay_num.py.  Everything random is drawn from the run's `rnd`
(numpy generators are seeded from it)."""
import math
import re

import numpy as np


def _rs(rnd):
    return np.random.RandomState(rnd.randrange(2 ** 31 - 1))


def _r(v, nd=6):
    return float(round(float(v), nd))


# =====================================================================================================
# C05
# =====================================================================================================
SIGMAS = [0.5, 1.0, 2.0, 3.0, 10.0, [1.0, 3.0], [2.5, 0.7]]
SCALES = ['linear', 'log', 'logicle']
FNAMES = ['FSC-H', 'SSC-H', 'FL1-H']


def _events(rs, kind, N, D):
    """N x D event values; the first two kinds are continuous, the others heavily tied integers"""
    if kind == 'cont_cluster':
        k = rs.randint(1, 4)
        cen = rs.uniform(10, 90, size=(k, D))
        sd = rs.uniform(1, 12, size=(k, D))
        w = rs.randint(0, k, size=N)
        X = cen[w] + sd[w] * rs.normal(size=(N, D))
    elif kind == 'cont_uniform':
        X = rs.uniform(0, 100, size=(N, D))
    elif kind == 'lognormal':
        X = 10 ** rs.normal(2, 0.6, size=(N, D))
    elif kind == 'int_small':
        X = rs.randint(0, rs.choice([3, 5, 8]), size=(N, D)).astype(float)
    elif kind == 'int_cluster':
        cen = rs.uniform(2, 14, size=D)
        X = np.rint(cen + rs.uniform(0.5, 3) * rs.normal(size=(N, D)))
    else:
        raise ValueError(kind)
    return np.round(X, 6)


def _edges(rs, col, how, k):
    lo, hi = float(np.min(col)), float(np.max(col))
    if hi <= lo:
        hi = lo + 1.0
    if how == 'cover':
        pad = 0.01 * (hi - lo) + 1e-3
        e = np.linspace(lo - pad, hi + pad, k + 1)
    elif how == 'partial':                       # events below and above the grid
        a, b = np.percentile(col, [15, 85])
        if b <= a:
            b = a + 1.0
        e = np.linspace(a, b, k + 1)
    elif how == 'aligned':                       # edges on data values: events exactly on inner edges and on the last edge
        a = math.floor(np.percentile(col, 10))
        b = max(math.ceil(np.percentile(col, 90)), a + 2)
        step = max(1, int(round((b - a) / float(k))))
        e = np.arange(a, b + step, step, dtype=float)
        srt = np.sort(col)
        inside = srt[(srt >= e[0]) & (srt <= e[-1])]
        if len(inside) and len(e) > 2 and inside[-1] > e[-2]:
            e[-1] = inside[-1]                   # the largest covered event sits exactly on the right edge
    else:                                        # 'random': non-uniform widths
        e = np.sort(rs.uniform(lo - 0.1 * (hi - lo), hi + 0.1 * (hi - lo), size=k + 1))
        e = e[np.concatenate([[True], np.diff(e) > 1e-6])]
    e = np.unique(np.round(e, 6))
    if len(e) < 3:
        e = np.array([lo - 1.0, 0.5 * (lo + hi), hi + 1.0])
    return {'edges': [float(v) for v in e]}


def _ingrid_count(X, spec):
    if not (isinstance(spec, list) and all(isinstance(s, dict) for s in spec)) and not isinstance(spec, dict):
        return X.shape[0]
    sx, sy = (spec, spec) if isinstance(spec, dict) else spec
    ex, ey = sx['edges'], sy['edges']
    return int(np.sum((X[:, 0] >= ex[0]) & (X[:, 0] <= ex[-1]) & (X[:, 1] >= ey[0]) & (X[:, 1] <= ey[-1])))


def _fractions(rnd, n, nf):
    fs = [0.0, 1.0]
    if n > 0:
        for _ in range(3):
            fs.append(rnd.randint(0, n) / float(n))          # f*n integral (up to the rounding of the quotient)
    pool = [0.5, 0.25, 0.75, 0.1, 0.2, 0.3, 0.6, 0.65, 0.7, 0.9, 0.125, 0.05, 0.95]
    if n % 10 == 0 or n % 5 == 0:
        fs.append(rnd.choice([0.1, 0.2, 0.3, 0.6, 0.7]))        # decimal fractions whose product with n is integral in exact arithmetic
    while len(fs) < nf:
        fs.append(rnd.choice(pool) if rnd.random() < 0.6 else _r(rnd.random(), 4))
    return sorted(set(fs))


def g_c05_arrays(tier, rnd):
    reps = 600 if tier == 'quick' else 4000
    sizes = [2, 3, 4, 5, 8, 10, 13, 20, 30, 50, 80, 120] + ([200, 400] if tier != 'quick' else [])
    kinds = ['cont_cluster', 'cont_uniform', 'lognormal', 'int_small', 'int_cluster']
    hows = ['cover', 'partial', 'aligned', 'random']
    for i in range(reps):
        rs = _rs(rnd)
        N = sizes[i % len(sizes)]
        D = rnd.choice([2, 2, 3])
        kind = kinds[(i // len(sizes)) % len(kinds)] if i < 60 else rnd.choice(kinds)
        X = _events(rs, kind, N, D)
        ch = rnd.choice([[0, 1], [1, 0]] + ([[2, 0], [-1, 1]] if D == 3 else []))
        cols = [c % D for c in ch]
        form = rnd.choice(['count', 'count2', 'edges1', 'edges2', 'count_edges', 'edges_count'])
        kx, ky = rnd.randint(2, 14), rnd.randint(2, 14)
        ex = _edges(rs, X[:, cols[0]], rnd.choice(hows), kx)
        ey = _edges(rs, X[:, cols[1]], rnd.choice(hows), ky)
        if form == 'count':
            spec = rnd.choice([1, 2, 3, 16]) if rnd.random() < 0.2 else rnd.randint(2, 16)
        elif form == 'count2':
            spec = [kx, ky]
        elif form == 'edges1':
            both = np.concatenate([X[:, cols[0]], X[:, cols[1]]])
            spec = _edges(rs, both, rnd.choice(hows), kx)
        elif form == 'edges2':
            spec = [ex, ey]
        elif form == 'count_edges':
            spec = [kx, ey]
        else:
            spec = [ex, ky]
        n = _ingrid_count(X[:, cols], spec)
        yield 'C05.density', {'kind': 'gate', 'container': 'ndarray', 'data': X.tolist(), 'channels': ch, 'bins': spec,
                              'xscale': 'logicle', 'yscale': 'logicle', 'sigma': rnd.choice(SIGMAS),
                              'fractions': _fractions(rnd, n, 7), 'perm_seed': rnd.randrange(10 ** 6), 'events': kind}


def g_c05_samples(tier, rnd):
    reps = 400 if tier == 'quick' else 2500
    sizes = [2, 3, 5, 8, 10, 20, 40, 70, 120] + ([250, 400] if tier != 'quick' else [])
    hows = ['cover', 'partial', 'aligned', 'random']
    for i in range(reps):
        rs = _rs(rnd)
        N = sizes[i % len(sizes)]
        D = rnd.choice([2, 3])
        R = rnd.choice([32, 64, 128, 256] if tier != 'quick' else [32, 64, 128])
        style = rnd.choice(['clipped', 'inside', 'negative', 'uniform'])
        if style == 'uniform':
            X = rs.randint(0, R, size=(N, D)).astype(float)
        else:
            k = rs.randint(1, 4)
            cen = rs.uniform(0.05 * R, 0.95 * R, size=(k, D))
            sd = rs.uniform(0.02 * R, 0.25 * R, size=(k, D))
            w = rs.randint(0, k, size=N)
            X = np.rint(cen[w] + sd[w] * rs.normal(size=(N, D)))
            if style == 'clipped':                # events pile up on both limits
                X = np.clip(X, 0, R - 1)
            elif style == 'inside':
                X = np.clip(X, 1, R - 2)
            else:                                 # some events below and above the range
                X = X - rs.randint(0, R // 4)
        names = FNAMES[:D]
        meta = {'channels': names, 'range': [[0.0, float(R - 1)]] * D, 'resolution': [R] * D,
                'amplification_type': [[0.0, 0.0]] * D, 'amplifier_gain': [None] * D, 'detector_voltage': [None] * D}
        ch = rnd.choice([[0, 1], [1, 0], [names[0], names[1]], [names[-1], 0]])
        cols = [names.index(c) if isinstance(c, str) else c for c in ch]
        kx, ky = rnd.randint(2, 20), rnd.randint(2, 20)
        ex = _edges(rs, X[:, cols[0]], rnd.choice(hows), min(kx, 12))
        ey = _edges(rs, X[:, cols[1]], rnd.choice(hows), min(ky, 12))
        form = ['none', 'count', 'none_count', 'count_none', 'count2', 'edges_none', 'none_edges', 'count_edges', 'edges1', 'edges2'][i % 10] \
            if i < 40 else rnd.choice(['none', 'count', 'none_count', 'count_none', 'count2', 'edges_none', 'none_edges', 'count_edges',
                                       'edges1', 'edges2'])
        spec = {'none': None, 'count': kx, 'none_count': [None, ky], 'count_none': [kx, None], 'count2': [kx, ky], 'edges_none': [ex, None],
                'none_edges': [None, ey], 'count_edges': [kx, ey], 'edges1': ex, 'edges2': [ex, ey]}[form]
        n = _ingrid_count(X[:, cols], spec)
        yield 'C05.density', {'kind': 'gate', 'container': 'FCSData', 'data': X.tolist(), 'meta': meta, 'channels': ch, 'bins': spec,
                              'xscale': SCALES[i % 3] if i < 40 else rnd.choice(SCALES), 'yscale': rnd.choice(SCALES),
                              'sigma': rnd.choice(SIGMAS), 'fractions': _fractions(rnd, n, 6), 'perm_seed': rnd.randrange(10 ** 6),
                              'events': 'sample_' + style}


def g_c05_refuse(tier, rnd):
    rs = _rs(rnd)
    for cont in ('ndarray', 'FCSData'):
        X = np.rint(rs.uniform(0, 31, size=(12, 3)))
        base = {'kind': 'refuse', 'container': cont, 'data': X.tolist(), 'bins': 4, 'xscale': 'linear', 'yscale': 'linear', 'sigma': 1.0}
        if cont == 'FCSData':
            base['meta'] = {'channels': FNAMES, 'range': [[0.0, 31.0]] * 3, 'resolution': [32] * 3}
        for f in (-0.1, -1e-9, 1.0000001, 1.5, 2, -1):
            x = dict(base)
            x.update({'what': 'fraction', 'fraction': f, 'channels': [0, 1]})
            yield 'C05.density', x
        for ch in ([0], [0, 1, 2], []) + ((['FL1-H'], ['FSC-H', 'SSC-H', 'FL1-H']) if cont == 'FCSData' else ()):
            x = dict(base)
            x.update({'what': 'channels', 'fraction': 0.5, 'channels': list(ch)})
            yield 'C05.density', x
        for n in (0, 1):
            for bins in (4, {'edges': [0.0, 10.0, 20.0, 31.0]}):
                x = dict(base)
                x.update({'what': 'events', 'fraction': 0.5, 'channels': [0, 1], 'data': X[:n].tolist(), 'ncols': 3, 'bins': bins})
                yield 'C05.density', x


# =====================================================================================================
# C18
# =====================================================================================================
T_LAT = [1.0, 10.0, 100.0, 1000.0, 1023.0, 1e4, 65536.0, 262144.0, 1e6, 1e7, 1e8]
M_LAT = [0.2, 0.5, 1.0, 2.0, 3.0, 4.0, 4.5, 5.0, 6.0, 8.0, 10.0, 12.0]
W_FR = [0.0, 0.001, 0.01, 0.05, 0.1, 0.2, 1.0 / 3, 0.5, 0.75, 1.0, 1.25, 1.5]


def g_c18_lattice(tier, rnd):
    n = 0
    if tier == 'quick':
        Ts, Ms, Ws = T_LAT[::2], M_LAT, W_FR
    else:
        Ts = T_LAT
        Ms = sorted(set(M_LAT + [0.3, 0.75, 1.5, 2.5, 3.5, 5.5, 7.0, 9.0, 11.0]))
        Ws = sorted(set(W_FR + [1e-4, 0.003, 0.03, 0.15, 0.25, 0.4, 0.6, 0.9, 1.1, 1.4]))
    for T in Ts:
        for M in Ms:
            for w in Ws:
                n += 1
                yield 'C18.logicle', {'kind': 'triple', 'T': T, 'M': M, 'W': w * M, 'via': 'axis' if n % 37 == 0 else 'class'}
    reps = 3000 if tier == 'quick' else 100000
    for _ in range(reps):
        M = rnd.uniform(0.2, 12.0)
        yield 'C18.logicle', {'kind': 'triple', 'T': 10 ** rnd.uniform(0, 8), 'M': M, 'W': rnd.choice([rnd.uniform(0, 1.5 * M), rnd.uniform(0, 0.1 * M)]),
                              'via': 'class'}


def g_c18_derived(tier, rnd):
    reps = 400 if tier == 'quick' else 6000
    for i in range(reps):
        rs = _rs(rnd)
        ns = rnd.choice([1, 1, 2, 3])
        cont = rnd.choice(['FCSData', 'ndarray', 'ndarray1d', 'mixed'])
        D = rnd.choice([1, 2, 3])
        ch_i = rnd.randrange(D)
        names = ['FL1-H', 'FL2-H', 'FL3-H'][:D]
        by_name = cont == 'FCSData' and rnd.random() < 0.5
        samples = []
        scale = 10 ** rnd.uniform(0.5, 6.5)
        negstyle = rnd.choice(['none', 'small', 'large', 'huge', 'allneg'])
        for k in range(ns):
            N = rnd.randint(1, 12)
            X = np.round(scale * rs.lognormal(0, 1.0, size=(N, D)) / 3.0, 3)
            if negstyle == 'small':
                X[rs.randint(0, N)] = -np.round(scale * 10 ** rs.uniform(-6, -3, size=D), 6)
            elif negstyle == 'large':
                X[rs.randint(0, N)] = -np.round(scale * 10 ** rs.uniform(-2, 0, size=D), 4)
            elif negstyle == 'huge':
                X[rs.randint(0, N)] = -np.round(scale * 10 ** rs.uniform(0.5, 2, size=D), 3)
            elif negstyle == 'allneg' and i % 5 == 0:
                X = -np.abs(X) - 1.0
            c = cont if cont != 'mixed' else rnd.choice(['FCSData', 'ndarray'])
            if c == 'FCSData':
                R = rnd.choice([1024.0, 262144.0, 10000.0, _r(scale * rnd.uniform(0.5, 20), 3), 1.0])
                samples.append({'container': 'FCSData', 'data': X.tolist(),
                                'meta': {'channels': names, 'range': [[0.0, R - 1.0 if R > 1 else 1.0]] * D, 'resolution': [1024] * D}})
            elif c == 'ndarray1d':
                samples.append({'container': 'ndarray', 'ndim': 1, 'data': X[:, ch_i].tolist()})
            else:
                samples.append({'container': 'ndarray', 'ndim': 2, 'data': X.tolist()})
        yield 'C18.logicle', {'kind': 'derived', 'samples': samples, 'channel': (names[ch_i] if by_name else (None if cont == 'ndarray1d' else ch_i)),
                              'as_list': ns > 1 or rnd.random() < 0.5}


def g_c18_refuse(tier, rnd):
    for via in ('class', 'axis'):
        for kw in ({'T': 0.0}, {'T': -1.0}, {'T': -262144.0, 'M': 4.5, 'W': 0.5}, {'M': 0.0}, {'M': -4.5}, {'T': 1000.0, 'M': -1e-9, 'W': 0.0},
                   {'W': -0.1}, {'W': -1e-9}, {'T': 1e5, 'M': 4.0, 'W': -2.0}, {'T': 0.0, 'M': 0.0, 'W': -1.0}):
            x = {'kind': 'refuse', 'via': via, 'T': None, 'M': None, 'W': None}
            x.update(kw)
            yield 'C18.logicle', x


# =====================================================================================================
# C09
# =====================================================================================================
LADDERS = {   # manufacturer-style MEF ladders (blank first)
    'rcp30_mefl': [0, 692, 2192, 6028, 17493, 35674, 126907, 290983],
    'rcp30_mepe': [0, 505, 1777, 4974, 20516, 34715, 133879, 276897],
    'rcp30_mepcy': [0, 1614, 4035, 12025, 31896, 95682, 353225, 1077421],
    'urcp_mefl': [0, 792, 2079, 6588, 16471, 47497, 137049, 271647],
    'example_fl1': [0, 646, 1704, 4827, 15991, 47609, 135896, 273006],
    'ten_peak': [0, 120, 410, 1250, 3800, 11500, 35000, 105000, 320000, 960000],
}


def _ladder(rnd, auto):
    """5..10 increasing MEF values, at least five above 3x autofluorescence; blank (0) only when there is autofluorescence"""
    for _ in range(200):
        if rnd.random() < 0.6:
            base = list(LADDERS[rnd.choice(sorted(LADDERS))])
        else:
            v = rnd.uniform(80, 3000)
            base = [0]
            for _k in range(rnd.randint(5, 9)):
                base.append(round(v))
                v *= rnd.uniform(2.0, 4.5)
        if auto == 0 or rnd.random() < 0.3:
            base = base[1:]
        lo = rnd.randint(0, max(0, len(base) - 5))
        sub = base[lo:] if rnd.random() < 0.7 else base[:1] + base[1 + lo:]
        while len(sub) > 5 and rnd.random() < 0.3:
            sub = sub[:-1]
        if 5 <= len(sub) <= 10 and sum(1 for v in sub if v > 3 * auto) >= 5 and all(b > a for a, b in zip(sub, sub[1:])) \
                and (auto > 0 or sub[0] > 0):
            return [float(v) for v in sub]
    return [float(v) for v in LADDERS['ten_peak'][1:]]


def g_c09_recover(tier, rnd):
    ms = [0.85, 0.9, 0.95, 1.0, 1.05, 1.1, 1.15, 1.2, 1.25]
    bs = [0.0, 1.0, 2.0, 3.0, 4.0, 5.0, 6.0, 7.0]
    autos = [0.0, 1.0, 10.0, 100.0, 1000.0, 5000.0]
    per = 1 if tier == 'quick' else 4
    for m in ms:
        for b in bs:
            for a in autos:
                for _ in range(per):
                    yield 'C09.fit', {'kind': 'recover', 'm': m, 'b': b, 'auto': a, 'mef': _ladder(rnd, a)}
    reps = 300 if tier == 'quick' else 4000
    for _ in range(reps):
        a = rnd.choice([0.0, _r(10 ** rnd.uniform(0, math.log10(5000)), 3)])
        yield 'C09.fit', {'kind': 'recover', 'm': _r(rnd.uniform(0.85, 1.25), 4), 'b': _r(rnd.uniform(0, 7), 4), 'auto': a, 'mef': _ladder(rnd, a)}


def g_c09_struct(tier, rnd):
    reps = 400 if tier == 'quick' else 3000
    for i in range(reps):
        n = rnd.choice([3, 3, 4, 5, 6, 8, 10, 12])
        style = i % 4
        if style == 0:        # increasing, roughly a power law with noise
            rfi = sorted(10 ** rnd.uniform(0, 5) for _ in range(n))
            m, b = rnd.uniform(0.5, 2.0), rnd.uniform(-2, 9)
            mef = [math.exp(b) * r ** m * 10 ** rnd.uniform(-0.3, 0.3) for r in rfi]
        elif style == 1:      # both increasing, otherwise unrelated
            rfi = sorted(10 ** rnd.uniform(-1, 6) for _ in range(n))
            mef = sorted(10 ** rnd.uniform(0, 7) for _ in range(n))
        elif style == 2:      # arbitrary order
            rfi = [10 ** rnd.uniform(-1, 6) for _ in range(n)]
            mef = [10 ** rnd.uniform(0, 7) for _ in range(n)]
        else:                 # small integers with ties
            rfi = [float(rnd.randint(1, 6)) for _ in range(n)]
            mef = [float(rnd.randint(1, 50)) for _ in range(n)]
        yield 'C09.fit', {'kind': 'struct', 'rfi': [_r(v, 5) for v in rfi], 'mef': [_r(v, 4) for v in mef], 'style': style}


def g_c09_refuse(tier, rnd):
    for rfi, mef in (([], []), ([10.0], [100.0]), ([10.0, 100.0], [50.0, 700.0]), ([10.0, 100.0, 1000.0], [50.0, 700.0]),
                     ([10.0, 100.0], [50.0, 700.0, 9000.0]), ([10.0, 100.0, 1000.0, 5000.0], [50.0, 700.0, 9000.0]),
                     ([10.0, 100.0, 1000.0], [50.0, 700.0, 9000.0, 50000.0]), ([10.0, 100.0, 1000.0], [])):
        yield 'C09.fit', {'kind': 'refuse', 'rfi': rfi, 'mef': mef}


# =====================================================================================================
# C02
# =====================================================================================================
def _c02_recipe(rnd):
    K = rnd.randint(6, 8)
    nfl = rnd.randint(1, 3)
    R = rnd.choice([262144, 1048576])
    blank = rnd.random() < 0.5
    sat = rnd.choice(['none', 'none', 'high', 'low', 'both'])
    if rnd.random() < 0.4:                                  # about equal subpopulation sizes (within 1.25x)
        n0 = rnd.randint(200, 640)
        sizes = [rnd.randint(n0, int(1.25 * n0)) for _ in range(K)]
    else:
        sizes = [rnd.randint(200, 800) for _ in range(K)]
    chans = []
    if rnd.random() < 0.5:
        chans.append({'name': 'FSC-H', 'kind': 'scatter', 'mean': _r(rnd.uniform(300, 0.3 * R), 2), 'sd': _r(rnd.uniform(5, 40), 2)})
    fl_names = ['FL1-H', 'FL2-H', 'FL3-H'][:nfl]
    for ci, nm in enumerate(fl_names):
        # saturation is a property of one detector: each channel decides on its own (the first one follows `sat`)
        s = sat if ci == 0 else rnd.choice(['none', 'none', sat])
        state = ['ok'] * K
        if s in ('high', 'both'):
            state[K - 1] = 'sat_high'
        if s in ('low', 'both'):
            state[0] = 'sat_low'
        ok = [k for k in range(K) if state[k] == 'ok']
        m, b = rnd.uniform(0.9, 1.2), rnd.uniform(1.0, 5.0)
        for _ in range(1000):
            ratios = [rnd.uniform(2.5, 4.0) for _ in range(K - 1)]
            if blank and state[0] == 'ok':
                lo_ratio = max(2.5, 3.0 ** (1.0 / m) * 1.03)       # autofluorescence below half the dimmest non-blank bead
                ratios[0] = rnd.uniform(lo_ratio, 4.0)
            span = 1.0
            for k in range(ok[0], ok[-1]):
                span *= ratios[k]
            top_max = 0.45 * R
            if 20.0 * span <= top_max:
                break
        r_lo = math.exp(rnd.uniform(math.log(20.0), math.log(top_max / span)))
        nom = [None] * K                                    # nominal brightness ladder (what an unlimited detector would see)
        nom[ok[0]] = r_lo
        for k in range(ok[0] + 1, K):
            nom[k] = nom[k - 1] * ratios[k - 1]
        for k in range(ok[0] - 1, -1, -1):
            nom[k] = nom[k + 1] / ratios[k]
        eb = math.exp(b)
        first = 1 if blank else 0                           # dimmest non-blank bead
        if blank and state[0] == 'ok':
            auto = eb * nom[0] ** m                         # the blank shows the autofluorescence only
        else:
            fr = rnd.uniform(0.0, 0.5)
            auto = fr / (1.0 + fr) * eb * nom[first] ** m   # auto = fr * mef[first], fr < 1/2
        mef = [0.0 if (blank and k == 0) else eb * nom[k] ** m - auto for k in range(K)]
        rfi = list(nom)
        if state[K - 1] == 'sat_high':
            rfi[K - 1] = R * rnd.uniform(1.0, 1.6)          # nominal brightness at or above the detector limit: most events pile up there
        if state[0] == 'sat_low':
            rfi[0] = -rnd.uniform(0.0, 3.0)                 # nominal value at or below zero: most events pile up at zero
        # unknown entries: keep at least five subpopulations taking part
        free = len(ok)
        nunk = 0 if free <= 5 else rnd.choice([0, 0, 1, min(2, free - 5)])
        unk = rnd.sample(ok, nunk) if nunk else []
        if rnd.random() < 0.15 and state[K - 1] != 'ok' and nunk == 0:
            unk = [K - 1]                                   # a saturated population may also be unknown
        mefj = [None if k in unk else float(v) for k, v in enumerate(mef)]
        chans.append({'name': nm, 'kind': 'fl', 'm': m, 'b': b, 'auto': auto, 'rfi': [float(v) for v in rfi], 'mef': mefj, 'state': state,
                      'cv': [_r(rnd.uniform(0.02, 0.05), 4) for _ in range(K)], 'sd_low': _r(rnd.uniform(1.0, 3.0), 3)})
    ncal = rnd.randint(1, nfl)
    mef_channels = rnd.sample(fl_names, ncal)
    cc = rnd.choice(['default', 'default', 'reversed', 'first', 'all_fl', 'with_other'])
    if cc == 'default':
        clch = None
    elif cc == 'reversed':
        clch = list(reversed(mef_channels))
    elif cc == 'first':
        clch = [mef_channels[0]]
    elif cc == 'all_fl':
        clch = list(fl_names)
    else:
        clch = list(fl_names) + [c['name'] for c in chans if c['kind'] == 'scatter']
    rnd.shuffle(chans)
    return {'K': K, 'R': R, 'sizes': sizes, 'file_channels': chans, 'mef_channels': mef_channels, 'clustering_channels': clch,
            'datatype': rnd.choice(['F', 'F', 'D', 'I']), 'statistic': rnd.choice(['median', 'median', 'mean']),
            'unknown_as': rnd.choice(['None', 'nan']), 'single_channel_form': rnd.random() < 0.5,
            'event_seed': rnd.randrange(10 ** 6), 'np_seed': rnd.randrange(10 ** 6), 'blank': blank, 'saturated': sat}


def g_c02_beads(tier, rnd):
    reps = 24 if tier == 'quick' else 200
    for _ in range(reps):
        yield 'C02.beads', _c02_recipe(rnd)


def g_c02_selection(tier, rnd):
    reps = 2 if tier == 'quick' else 8
    for _ in range(reps):
        rs = _rs(rnd)
        for cont in ('ndarray', 'FCSData'):
            for scale in ('linear', 'log', 'logicle'):
                for thr in ('given', 'default'):
                    if cont == 'ndarray' and thr == 'default':
                        continue
                    npop = rnd.randint(2, 5)
                    pops = []
                    for k in range(npop):
                        c = 10 ** rnd.uniform(0.3, 2.9)
                        v = np.clip(np.rint(c * np.exp(rs.normal(0, 0.1, size=rnd.randint(3, 12)))), 0, 1023)
                        if k == 0 and rnd.random() < 0.5:
                            v[:2] = 0.0
                        pops.append(v.tolist())
                    x = {'container': cont, 'scale': scale, 'pops': pops, 'range': [0.0, 1023.0], 'resolution': 1024}
                    if thr == 'given':
                        x.update({'low': 1.0 if scale == 'log' else 0.0, 'high': 1023.0})
                    yield 'C02.selection', x


# =====================================================================================================
GENS = {
    'C05': [('density_arrays', g_c05_arrays), ('density_samples', g_c05_samples), ('density_refuse', g_c05_refuse)],
    'C18': [('logicle_lattice', g_c18_lattice), ('logicle_derived', g_c18_derived), ('logicle_refuse', g_c18_refuse)],
    'C09': [('fit_recover', g_c09_recover), ('fit_struct', g_c09_struct), ('fit_refuse', g_c09_refuse)],
    'C02': [('beads', g_c02_beads), ('selection_std', g_c02_selection)],
}

BOUNDS = {
    'C05': ('density gate, seeded sample (quick 600+400 / thorough 4000+2500 data sets, each gated at up to 7 distinct fractions (once more without full_output), re-gated with the '
            'returned edges and bin mask at every fraction and gated again after a seeded permutation of the events): plain arrays with '
            '2..120 (thorough ..400) events, 2 or 3 columns, channel pairs [0,1],[1,0],[2,0],[-1,1]; event kinds: continuous clustered '
            '(1-3 Gaussians), continuous uniform, lognormal, integers from 3/5/8 values, rounded Gaussian integers; bins: count 1..16, '
            '[count,count], one edge array, [edges,edges], [count,edges], [edges,count] with edges covering all events / the 15-85% '
            'quantile range (events outside the grid) / on integer data values incl. an event exactly on the last edge / random widths; '
            'FCSData samples with 2..120 (..400) integer-valued events in [0,R-1], R in {32,64,128(,256)}, clustered and clipped at both '
            'limits / strictly inside / shifted partly below the range / uniform; bins None, count, [None,count], [count,None], '
            '[count,count], [edges,None], [None,edges], [count,edges], edges, [edges,edges] x xscale,yscale in linear/log/logicle '
            '(sample-derived edges compared with the sample\'s own hist_bins); sigma in {0.5,1,2,3,10,[1,3],[2.5,0.7]}; fractions: 0, 1, '
            'three k/n (n = in-grid events), decimal fractions with integral product, dyadic and seeded random ones; ceil(f*n) is '
            'accepted for f*n within 2^-48 relative rounding; density ties within 1e-12 of the largest smoothed density count as equal. '
            'Error cases (both containers): 6 fractions outside [0,1], 1/3/0 channels, 0 and 1 events. The caller\'s bins argument is '
            'compared before/after every call'),
    'C18': ('logicle: lattice T in {1,10,1e2,1e3,1023,1e4,65536,262144,1e6,1e7,1e8} (quick: every second) x M in '
            '{0.2,0.5,1,2,3,4,4.5,5,6,8,10,12} (thorough: 21 values) x W/M in {0,0.001,0.01,0.05,0.1,0.2,1/3,0.5,0.75,1,1.25,1.5} '
            '(thorough: 22 values), plus 3000 / 100000 seeded random triples (T log-uniform in [1,1e8], M uniform in [0.2,12], W uniform in '
            '[0,1.5M] or [0,0.1M]); every 37th lattice point goes through a matplotlib axis with set_xscale(\'logicle\'); display grid of '
            '2001 points on [0,M]; p solved by 200 bisection steps; the equation is compared with a tolerance of 1e-6*M display units '
            '(times the local slope) and W->0 likewise, the inverse with 1e-4*M as stated, inverse monotonicity on 5002 sorted data values; '
            '400 / 6000 seeded data sets for the derived parameters: 1-3 samples of 1-12 events x 1-3 channels, FCSData (range upper limit '
            'in {1023, 262143, 9999, seeded, 1}), 2-D arrays, 1-D arrays and mixtures, passed alone or as a list, channel by position or '
            'name, no / tiny / moderate / beyond-T negative events and all-negative arrays; 10 invalid parameter sets x class/axis'),
    'C09': ('bead fit: recovery on the lattice m in {0.85..1.25 step 0.05} x b in {0..7} x autofluorescence in {0,1,10,100,1000,5000} '
            '(432 points, x4 ladders each in thorough) plus 300 / 4000 seeded (m,b,autofluorescence) draws, each with a seeded ladder of '
            '5..10 populations cut from 6 manufacturer-style ladders or a geometric ladder (ratio 2..4.5), blank (MEF 0) included only with '
            'positive autofluorescence (under the model a blank without autofluorescence has no fluorescence), at least five populations '
            'above 3x autofluorescence; exact model data; 5% compared on 200 log-spaced points over the bead span. Structural clauses on '
            'every recovery fit and on 400 / 3000 seeded positive pair sets of 3..12 populations (noisy power law, both increasing, '
            'arbitrary order, small tied integers), checked on 181 log-spaced inputs in [1e-3,1e6] and their negatives and 0; zero-at-zero '
            'and monotonicity are demanded for fitted slope > 0. 8 invalid requests (fewer than three, mismatched lengths)'),
    'C02': ('bead calibration end to end: 24 (quick) / 200 (thorough) seeded synthetic bead files written with gen_fcs (datatype F, D or '
            '32-bit I; range 262144 or 1048576): 6..8 subpopulations of 200..800 lognormal events each (40% of the files with sizes within 1.25x of each other, else independent), CV 2..5%, adjacent brightness '
            'ratio 2.5..4, dimmest unsaturated population >= 20, brightest <= 0.45 x range, 1..3 fluorescence channels with independent '
            'laws (m in [0.9,1.2], b in [1,5], autofluorescence < half the dimmest non-blank bead), optional scatter channel, optional '
            'blank, optional population piled up at the upper limit / at zero decided per channel, 0..2 unknown entries (None or NaN) per '
            'channel leaving >= 5 populations in the fit, 1..3 channels calibrated at once (also the scalar single-channel call form), '
            'clustering channels default / reversed / first only / all fluorescence / plus scatter, statistic median or mean, fixed numpy '
            'seed; each file is calibrated three times (run, same seed again, seeded permutation of the events). Expected participants: '
            'every population that is neither unknown nor piled up at a limit in that channel. selection_std: 18 / 72 seeded calls '
            '(arrays with thresholds, one-channel FCSData with given/default thresholds x linear/log/logicle) checking that the list, '
            'the events and the ranges handed in are unchanged'),
}

_TAG = re.compile(r'^\[([a-zA-Z0-9_\-]+)\]')
_TARGETS = ('C05.density', 'C18.logicle', 'C09.fit', 'C02.beads', 'C02.selection')


def failure_class(target, inp, detail):
    if target not in _TARGETS:
        return None
    m = _TAG.match(str(detail))
    cls = m.group(1) if m else re.sub(r'[^a-z]+', '-', str(detail).lower())[:40]
    if target == 'C05.density' and cls in ('bins-argument-modified', 'edges-differ'):
        return '%s:%s' % (inp.get('container'), cls)
    if target == 'C18.logicle':
        return '%s:%s' % (inp.get('kind'), cls)
    if target == 'C09.fit':
        r = inp.get('rfi') or []
        if cls == 'non-finite-parameters' and len(r) >= 2:
            # the initial guess divides by log(rfi[-1]) - log(rfi[-2])
            cls += ':two-brightest-rfi-equal' if r[-1] == r[-2] else ':other'
        return '%s:%s' % (inp.get('kind'), cls)
    if target == 'C02.beads' and cls in ('grouping', 'raised', 'statistic-order', 'selection', 'order-dependent', 'conversion-off',
                                         'differs-from-fit-to-true-statistics', 'inconsistent-output'):
        # circumstances that matter for the triage (each one alone makes the clustering step go wrong on the unchanged tree)
        sz = inp.get('sizes') or [1]
        scat = set(c['name'] for c in inp.get('file_channels', []) if c.get('kind') == 'scatter')
        if inp.get('datatype') == 'I':
            cls += ':integer-events'
        if max(sz) > 1.25 * min(sz):
            cls += ':sizes-unequal'
        if scat & set(inp.get('clustering_channels') or []):
            cls += ':clustering-with-scatter'
        return cls
    if target == 'C02.selection':
        return '%s:%s:%s' % (inp.get('container'), inp.get('scale'), cls)
    return cls
