"""Bounded stand-in / cross-check: runs the REAL functions on an enumerated or seeded-sampled finite
domain and judges each run with the same concrete oracles the replays use (worker/replay*.py).
Labelled bounded in the evidence; never counted as proved.  Runs under /venv/bin/python.

usage: bounded.py <PROPERTY> --tier quick|thorough --seed N      -> one JSON line on stdout
"""
import argparse
import hashlib
import itertools
import json
import os
import random
import shutil
import sys
import tempfile
import time
import traceback
import warnings

HERE = os.path.dirname(os.path.abspath(__file__))
sys.path.insert(0, HERE)
sys.path.insert(0, os.path.dirname(HERE))
sys.path.insert(0, os.environ.get('FLOWCAL_REPO', '/repo'))
warnings.simplefilter('ignore')

import replay  # noqa: E402
sys.modules.setdefault('replay', replay)
import glob  # noqa: E402
import importlib  # noqa: E402
for _p in sorted(glob.glob(os.path.join(HERE, 'replay_*.py'))):
    try:
        importlib.import_module(os.path.basename(_p)[:-3])
    except Exception as _e:
        print('replay plug-in %s failed to import: %r' % (_p, _e), file=sys.stderr)
import gens  # noqa: E402


def main():
    ap = argparse.ArgumentParser()
    ap.add_argument('pid')
    ap.add_argument('--tier', default='quick')
    ap.add_argument('--seed', type=int, default=0)
    a = ap.parse_args()
    rnd = random.Random(a.seed)
    t0 = time.time()
    tmp = tempfile.mkdtemp(prefix='flowcal_bounded_')
    cases = 0
    distinct = set()
    failures = []
    per_class = {}
    samples = []
    parts = {}
    errors = []
    try:
        for part, gen in gens.generators(a.pid):
            n_part = 0
            budget = gens.budget(a.pid, part, a.tier)
            t_part = time.time()
            for target, inp in gen(a.tier, rnd):
                if time.time() - t_part > budget:
                    break
                cases += 1
                n_part += 1
                key = hashlib.sha1(json.dumps([target, inp], sort_keys=True, default=str).encode()).hexdigest()
                if gens.nontrivial(target, inp):
                    distinct.add(key)
                if len(samples) < 3 and n_part in (1, 7):
                    samples.append({'target': target, 'inputs': inp})
                try:
                    rp = replay.REPLAYERS[replay_alias(target)]
                    v, detail = rp(tmp, inp)
                except Exception as e:   # noqa
                    errors.append('%s: %s' % (target, traceback.format_exc()[-600:]))
                    if len(errors) > 5:
                        break
                    continue
                if v:
                    fkey = '%s::%s' % (target, gens.failure_class(target, inp, detail))
                    per_class[fkey] = per_class.get(fkey, 0) + 1
                    if per_class[fkey] <= 2 and len(failures) < 80:      # a couple of witnesses per failure class
                        failures.append({'key': fkey, 'what': str(detail)[:400], 'target': target, 'inputs': inp})
            parts[part] = n_part
        out = {'property': a.pid, 'cases': cases, 'distinct_nontrivial': len(distinct), 'failures': failures, 'samples': samples,
               'parts': parts, 'failure_classes': per_class, 'domain': gens.domain_text(a.pid, a.tier), 'bound': gens.bound_text(a.pid, a.tier),
               'rule': gens.RULE, 'exhaustive': False}
        if errors:
            out['error'] = 'oracle crashed: ' + errors[0]
    finally:
        shutil.rmtree(tmp, ignore_errors=True)
    print(json.dumps(out, default=str))


def replay_alias(target):
    for m in list(sys.modules.values()):
        al = getattr(m, 'REPLAYERS_ALIAS', None)
        if al and target in al:
            return al[target]
    return target


if __name__ == '__main__':
    main()
