"""Replayers for FlowCal.io contracts (C04, C20, C17 ...)."""
import numpy as np

from replay import replayer, make_fcs, fnum, call, meta_of

ATTRS = ('channels', 'amplification_type', 'detector_voltage', 'amplifier_gain', 'channel_labels', 'range', 'resolution')


def build_key_part(p):
    """JSON key part -> (python key object, kind)"""
    if p is None:
        return None, 'absent'
    if p == 'Ellipsis':
        return Ellipsis, 'ellipsis'
    if p == 'None':
        return None, 'newaxis'
    if p == 'triple':
        return (slice(None),) * 3, 'triple'
    if isinstance(p, dict):
        if 'slice' in p:
            a, b = p['slice']
            return slice(a, b), 'slice'
        if 'mask' in p:
            return np.array(p['mask'], dtype=bool), 'mask'
        if 'npint' in p:
            return np.int64(p['npint']), 'npint'
        if 'list' in p:
            return list(p['list']), 'list'
        if 'tuple' in p:
            return tuple(p['tuple']), 'tuple'
        if 'bools' in p:
            return list(p['bools']), 'bools'
    if isinstance(p, list):
        return list(p), 'list'
    return p, 'scalar'


def positions(names, D, ck, kind):
    """column positions the property assigns to a channel key of the documented grammar, or None (invalid),
    or 'other' for forms outside the grammar"""
    def one(c):
        if isinstance(c, bool) or isinstance(c, (np.integer,)):
            return 'other'
        if isinstance(c, str):
            return names.index(c) if c in names else None
        if isinstance(c, int):
            return c + D if -D <= c < 0 else (c if 0 <= c < D else None)
        return 'other'
    if kind == 'slice':
        return list(range(D))[ck], 'slice'
    if kind in ('list', 'tuple'):
        ps = [one(c) for c in ck]
        if any(p == 'other' for p in ps):
            return 'other', 'seq'
        if any(p is None for p in ps):
            return None, 'seq'
        return ps, 'seq'
    if kind == 'scalar':
        p = one(ck)
        return p, 'scalar'
    return 'other', kind


@replayer('FlowCal.io.FCSData.__getitem__')
def r_getitem(tmp, inp):
    d = make_fcs(tmp, inp['data'], inp.get('meta'))
    X = np.asarray(d).copy()
    N, D = X.shape
    names = list(d._channels)
    key = inp['key']
    rk, rkind = build_key_part(key.get('rows'))
    if inp.get('single'):
        pykey = rk
        res = call(lambda: d[pykey])
        exp = call(lambda: X[pykey])
        if rkind in ('triple',) or isinstance(rk, str):
            return False, 'form outside the grammar'
        if exp[0] == 'raise':
            return res[0] != 'raise', 'plain indexing raises; sample returned'
        if res[0] == 'raise':
            return True, 'sample refuses a row key that plain indexing accepts: %r' % (res[1],)
        if not np.array_equal(np.asarray(res[1]), exp[1]):
            return True, 'values differ from plain array indexing'
        if isinstance(res[1], np.ndarray) and np.asarray(res[1]).ndim == 2 and hasattr(res[1], '_channels'):
            if list(res[1]._channels) != names:
                return True, 'row-only indexing changed the channel names'
        return False, 'agrees'
    ck, ckind = build_key_part(key.get('cols'))
    if ckind == 'newaxis' or rkind == 'newaxis':
        return False, 'newaxis form: outside the grammar'
    pos, pform = positions(names, D, ck, ckind)
    res = call(lambda: d[rk, ck])
    if pos == 'other':
        if res[0] == 'raise':
            return False, 'other form refused'
        out = res[1]
        if not hasattr(out, '_channels') or np.ndim(out) == 0:
            return False, 'other form returned a plain value'
        if np.ndim(out) == 2 or (np.ndim(out) == 1 and isinstance(rk, (int, np.integer))):
            ncols = out.shape[-1]
        else:
            return False, 'other form without a column axis: not decisive'
        for a in ATTRS:
            if len(getattr(out, '_' + a)) != ncols:
                return True, 'other form %r accepted but %s has %d entries for %d column(s)' % (ck, a, len(getattr(out, '_' + a)), ncols)
        return False, 'other form returned aligned metadata'
    if pos is None:
        return res[0] != 'raise', 'unknown name / out-of-range position must raise; observed %s' % res[0]
    exp = call(lambda: X[rk, pos])
    if exp[0] == 'raise':
        return res[0] != 'raise', 'plain indexing raises (%r); sample returned' % (exp[1],)
    if res[0] == 'raise':
        return True, 'refused a key of the documented grammar: %r' % (res[1],)
    out = res[1]
    if not np.array_equal(np.asarray(out), exp[1]):
        return True, 'values differ from plain array indexing with the corresponding column positions'
    if np.ndim(exp[1]) == 0:
        if isinstance(out, np.ndarray):
            return True, 'single value is not a plain scalar'
        return False, 'scalar ok'
    cols = pos if isinstance(pos, list) else [pos]
    src = meta_of(d)
    got = meta_of(out)
    for a in ATTRS:
        want = [src[a][c] for c in cols]
        if list(got[a]) != want:
            return True, 'metadata %s = %r, expected that of the selected columns %r' % (a, list(got[a]), want)
    return False, 'agrees'


@replayer('FlowCal.io.FCSData.__setitem__')
def r_setitem(tmp, inp):
    d = make_fcs(tmp, inp['data'], inp.get('meta'))
    X = np.asarray(d).copy()
    N, D = X.shape
    names = list(d._channels)
    key = inp['key']
    item = fnum(inp['item'])
    rk, rkind = build_key_part(key.get('rows'))
    before = meta_of(d)
    if inp.get('single'):
        res = call(lambda: d.__setitem__(rk, item))
        exp = call(lambda: X.__setitem__(rk, item))
    else:
        ck, ckind = build_key_part(key.get('cols'))
        pos, _ = positions(names, D, ck, ckind)
        if pos == 'other':
            return False, 'form outside the grammar'
        res = call(lambda: d.__setitem__((rk, ck), item))
        if pos is None:
            return res[0] != 'raise', 'unknown name / out-of-range position must raise on assignment; observed %s' % res[0]
        exp = call(lambda: X.__setitem__((rk, pos), item))
    if exp[0] == 'raise':
        return res[0] != 'raise', 'plain assignment raises; sample accepted it'
    if res[0] == 'raise':
        return True, 'assignment refused: %r' % (res[1],)
    if not np.array_equal(np.asarray(d), X):
        return True, 'cells written differ from plain array assignment: %d cell(s) differ' % int(np.sum(np.asarray(d) != X))
    if repr(meta_of(d)) != repr(before):
        return True, 'assignment changed metadata'
    return False, 'agrees'
