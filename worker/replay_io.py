"""Replayers for FlowCal.io contracts (C04, C20, C17 ...)."""
import numpy as np

from replay import replayer, make_fcs, fnum, call, meta_of

ATTRS = ('channels', 'amplification_type', 'detector_voltage', 'amplifier_gain', 'channel_labels', 'range', 'resolution')


def build_key_part(p):
    """JSON key part -> (python key object, kind)"""
    if p is None:
        return None, 'absent'
    if p == 'Ellipsis':
        return Ellipsis, 'ellipsis'
    if p == 'None':
        return None, 'newaxis'
    if p == 'triple':
        return (slice(None),) * 3, 'triple'
    if isinstance(p, dict):
        if 'slice' in p:
            a, b = p['slice']
            return slice(a, b), 'slice'
        if 'mask' in p:
            return np.array(p['mask'], dtype=bool), 'mask'
        if 'npint' in p:
            return np.int64(p['npint']), 'npint'
        if 'list' in p:
            return list(p['list']), 'list'
        if 'tuple' in p:
            return tuple(p['tuple']), 'tuple'
        if 'bools' in p:
            return list(p['bools']), 'bools'
    if isinstance(p, list):
        return list(p), 'list'
    return p, 'scalar'


def positions(names, D, ck, kind):
    """column positions the property assigns to a channel key of the documented grammar, or None (invalid),
    or 'other' for forms outside the grammar"""
    def one(c):
        if isinstance(c, bool) or isinstance(c, (np.integer,)):
            return 'other'
        if isinstance(c, str):
            return names.index(c) if c in names else None
        if isinstance(c, int):
            return c + D if -D <= c < 0 else (c if 0 <= c < D else None)
        return 'other'
    if kind == 'slice':
        return list(range(D))[ck], 'slice'
    if kind in ('list', 'tuple'):
        ps = [one(c) for c in ck]
        if any(p == 'other' for p in ps):
            return 'other', 'seq'
        if any(p is None for p in ps):
            return None, 'seq'
        return ps, 'seq'
    if kind == 'scalar':
        p = one(ck)
        return p, 'scalar'
    return 'other', kind


@replayer('FlowCal.io.FCSData.__getitem__')
def r_getitem(tmp, inp):
    d = make_fcs(tmp, inp['data'], inp.get('meta'))
    X = np.asarray(d).copy()
    N, D = X.shape
    names = list(d._channels)
    key = inp['key']
    rk, rkind = build_key_part(key.get('rows'))
    if inp.get('single'):
        pykey = rk
        res = call(lambda: d[pykey])
        exp = call(lambda: X[pykey])
        if rkind in ('triple',) or isinstance(rk, str):
            return False, 'form outside the grammar'
        if exp[0] == 'raise':
            return res[0] != 'raise', 'plain indexing raises; sample returned'
        if res[0] == 'raise':
            return True, 'sample refuses a row key that plain indexing accepts: %r' % (res[1],)
        if not np.array_equal(np.asarray(res[1]), exp[1]):
            return True, 'values differ from plain array indexing'
        if isinstance(res[1], np.ndarray) and np.asarray(res[1]).ndim == 2 and hasattr(res[1], '_channels'):
            if list(res[1]._channels) != names:
                return True, 'row-only indexing changed the channel names'
        return False, 'agrees'
    ck, ckind = build_key_part(key.get('cols'))
    if ckind == 'newaxis' or rkind == 'newaxis':
        return False, 'newaxis form: outside the grammar'
    pos, pform = positions(names, D, ck, ckind)
    res = call(lambda: d[rk, ck])
    if pos == 'other':
        if res[0] == 'raise':
            return False, 'other form refused'
        out = res[1]
        if not hasattr(out, '_channels') or np.ndim(out) == 0:
            return False, 'other form returned a plain value'
        if np.ndim(out) == 2 or (np.ndim(out) == 1 and isinstance(rk, (int, np.integer))):
            ncols = out.shape[-1]
        else:
            return False, 'other form without a column axis: not decisive'
        for a in ATTRS:
            if len(getattr(out, '_' + a)) != ncols:
                return True, 'other form %r accepted but %s has %d entries for %d column(s)' % (ck, a, len(getattr(out, '_' + a)), ncols)
        return False, 'other form returned aligned metadata'
    if pos is None:
        return res[0] != 'raise', 'unknown name / out-of-range position must raise; observed %s' % res[0]
    exp = call(lambda: X[rk, ck if pform == 'slice' else pos])
    if exp[0] == 'raise':
        return res[0] != 'raise', 'plain indexing raises (%r); sample returned' % (exp[1],)
    if res[0] == 'raise':
        return True, 'refused a key of the documented grammar: %r' % (res[1],)
    out = res[1]
    if not np.array_equal(np.asarray(out), exp[1]):
        return True, 'values differ from plain array indexing with the corresponding column positions'
    if np.ndim(exp[1]) == 0:
        if isinstance(out, np.ndarray):
            return True, 'single value is not a plain scalar'
        return False, 'scalar ok'
    cols = pos if isinstance(pos, list) else [pos]
    src = meta_of(d)
    got = meta_of(out)
    for a in ATTRS:
        want = [src[a][c] for c in cols]
        if list(got[a]) != want:
            return True, 'metadata %s = %r, expected that of the selected columns %r' % (a, list(got[a]), want)
    return False, 'agrees'


@replayer('FlowCal.io.FCSData.__setitem__')
def r_setitem(tmp, inp):
    d = make_fcs(tmp, inp['data'], inp.get('meta'))
    X = np.asarray(d).copy()
    N, D = X.shape
    names = list(d._channels)
    key = inp['key']
    item = fnum(inp['item'])
    rk, rkind = build_key_part(key.get('rows'))
    before = meta_of(d)
    if inp.get('single'):
        res = call(lambda: d.__setitem__(rk, item))
        exp = call(lambda: X.__setitem__(rk, item))
    else:
        ck, ckind = build_key_part(key.get('cols'))
        pos, _ = positions(names, D, ck, ckind)
        if pos == 'other':
            return False, 'form outside the grammar'
        res = call(lambda: d.__setitem__((rk, ck), item))
        if pos is None:
            return res[0] != 'raise', 'unknown name / out-of-range position must raise on assignment; observed %s' % res[0]
        exp = call(lambda: X.__setitem__((rk, ck if ckind == 'slice' else pos), item))
    if exp[0] == 'raise':
        return res[0] != 'raise', 'plain assignment raises; sample accepted it'
    if res[0] == 'raise':
        return True, 'assignment refused: %r' % (res[1],)
    if not np.array_equal(np.asarray(d), X):
        return True, 'cells written differ from plain array assignment: %d cell(s) differ' % int(np.sum(np.asarray(d) != X))
    if repr(meta_of(d)) != repr(before):
        return True, 'assignment changed metadata'
    return False, 'agrees'


@replayer('FlowCal.io.FCSData.__array_finalize__')
def r_finalize(tmp, inp):
    """derived samples (copy, view, slices) carry every attribute and share no mutable metadata"""
    import copy
    import FlowCal
    d = make_fcs(tmp, [[1.0, 2.0, 3.0], [4.0, 5.0, 6.0], [7.0, 8.0, 9.0]])
    ops = {'copy': lambda x: x.copy(), 'deepcopy': copy.deepcopy, 'view': lambda x: x.view(), 'rows': lambda x: x[1:],
           'cols': lambda x: x[:, [0, 2]], 'astype': lambda x: x.astype(float), 'ufunc': lambda x: x + 1}
    for name, op in ops.items():
        c = op(d)
        for a in ('_infile', '_text', '_analysis', '_data_type', '_time_step', '_acquisition_start_time',
                  '_acquisition_end_time', '_channels', '_amplification_type', '_detector_voltage', '_amplifier_gain',
                  '_channel_labels', '_range', '_resolution'):
            if not hasattr(c, a):
                return True, '%s: attribute %s not propagated' % (name, a)
            if name not in ('cols',) and repr(getattr(c, a)) != repr(getattr(d, a)):
                return True, '%s: attribute %s differs' % (name, a)
        before = (copy.deepcopy(d._range), dict(d._text))
        c._range[0][0] = -12345.0
        c._text['$VERIF'] = 'x'
        if repr(d._range) != repr(before[0]) or d._text != before[1]:
            return True, '%s: editing the derived sample\'s range/keywords changed the original' % name
        d2 = op(d)
        d._range[0][1] = 54321.0
        if d2._range[0][1] == 54321.0:
            return True, '%s: editing the original\'s range changed the derived sample' % name
        d._range[0][1] = before[0][0][1]
    return False, 'derived samples are independent'


@replayer('FlowCal.io.FCSFile.__eq__')
def r_file_eq(tmp, inp):
    import os
    import gen_fcs
    import FlowCal
    A = [[fnum(v) for v in r] for r in inp['a']]
    B = [[fnum(v) for v in r] for r in inp['b']]
    if not A or not B or not A[0] or not B[0]:
        return False, 'empty matrix: not replayable through files'
    p = os.path.join(tmp, 'f.fcs')
    gen_fcs.write_fcs(p, A, datatype='D')
    fa = FlowCal.io.FCSFile(p)
    same_layout = (len(A), len(A[0])) == (len(B), len(B[0]))
    gen_fcs.write_fcs(p, B, datatype='D')
    fb = FlowCal.io.FCSFile(p)
    expect = same_layout and A == B
    got = (fa != fb) if inp.get('ne') else (fa == fb)
    want = (not expect) if inp.get('ne') else expect
    if not same_layout:
        return False, 'different layouts also differ in keywords: not decisive for the events clause'
    return bool(got) != bool(want), 'events %s: %s returned %r' % ('equal' if expect else 'differ', '!=' if inp.get('ne') else '==', got)


REPLAYERS_ALIAS = {'FlowCal.io.FCSFile.__ne__': 'FlowCal.io.FCSFile.__eq__'}


@replayer('FlowCal.io.read_fcs_data_segment')
def r_data_segment(tmp, inp):
    import math
    import os
    import struct
    import FlowCal
    if inp.get('bytes') is None:
        return False, 'witness too large'
    raw = bytes(int(b) % 256 for b in inp['bytes'])
    p = os.path.join(tmp, 'seg.bin')
    with open(p, 'wb') as f:
        f.write(raw)
    N, D, begin, end, big = inp['N'], inp['D'], inp['begin'], inp['end'], inp['big']
    widths = [int(w) for w in inp['widths']]
    ranges = None if inp.get('ranges') is None else [fnum(r) for r in inp['ranges']]
    dt = inp['datatype']
    with open(p, 'rb') as f:
        res = call(FlowCal.io.read_fcs_data_segment, f, begin, end, dt, N, widths, big, ranges)
        if res[0] == 'return':
            got = np.array(res[1])
    supported = (dt == 'I' and all(w % 8 == 0 and w <= 64 for w in widths)) or (dt == 'F' and all(w == 32 for w in widths)) or \
                (dt == 'D' and all(w == 64 for w in widths))
    if ranges is not None and len(ranges) != D:
        supported = False
    rowbytes = sum(w // 8 for w in widths)
    ext = end + 1 - begin
    consistent = supported and N * rowbytes in (ext, ext - 1) and begin + N * rowbytes <= len(raw)
    if not consistent:
        return res[0] != 'raise', 'unsupported layout / size mismatch / missing bytes must raise; observed %s' % res[0]
    if res[0] == 'raise':
        if N * rowbytes == 0:
            return False, 'empty DATA segment: mmap of zero bytes (not decisive)'
        return True, 'refused a consistent segment: %r' % (res[1],)
    exp = []
    pos = begin
    for i in range(N):
        row = []
        for j, w in enumerate(widths):
            chunk = raw[pos:pos + w // 8]
            pos += w // 8
            if dt == 'I':
                v = int.from_bytes(chunk, 'big' if big else 'little')
                if ranges is not None:
                    v = v % (2 ** int(math.ceil(math.log2(ranges[j]))))
                row.append(v)
            else:
                row.append(struct.unpack(('>' if big else '<') + ('f' if dt == 'F' else 'd'), chunk)[0])
        exp.append(row)
    exp = np.array(exp).reshape((N, D))
    if got.shape != (N, D):
        return True, 'shape %r, expected %r' % (got.shape, (N, D))
    if not np.array_equal(got, exp, equal_nan=True):
        return True, 'decoded values %s differ from the bytes in the file %s' % (got.tolist()[:3], exp.tolist()[:3])
    return False, 'agrees'


@replayer('FlowCal.io.FCSData.hist_bins')
def r_hist_bins(tmp, inp):
    if inp.get('data') is None:
        return False, 'witness too large'
    d = make_fcs(tmp, inp['data'], inp.get('meta'))
    D = d.shape[1]
    names = list(d._channels)
    ch, nb, sc = inp['channels'], inp['nbins'], inp['scale']
    before = repr(d._range)

    def resolve(c):
        if isinstance(c, str):
            return names.index(c) if c in names else None
        return c + D if -D <= c < 0 else (c if 0 <= c < D else None)
    cols = list(range(D)) if ch is None else ([resolve(c) for c in ch] if isinstance(ch, list) else [resolve(ch)])
    res = call(d.hist_bins, ch, nb, sc)
    if any(c is None for c in cols):
        return res[0] != 'raise', 'invalid channel must raise; observed %s' % res[0]
    scales = sc if isinstance(sc, list) else [sc] * len(cols)
    if any(s_ not in ('linear', 'log', 'logicle') for s_ in scales) and cols:
        return not (res[0] == 'raise' and isinstance(res[1], ValueError)), 'unknown scale must raise ValueError; observed %s' % res[0]
    for c in cols:
        r = d._range[c]
        if r is None or not (r[1] > r[0]) or d._resolution[c] < 2 or (('log' in scales) and r[1] <= 0):
            return False, 'outside the precondition'
    if res[0] == 'raise':
        return True, 'refused a valid request: %r' % (res[1],)
    if repr(d._range) != before:
        return True, 'hist_bins changed the stored ranges: %s -> %s' % (before, repr(d._range))
    out = res[1] if (isinstance(ch, list) or ch is None) else [res[1]]
    nbs = nb if isinstance(nb, list) else [nb] * len(cols)
    if len(out) != len(cols):
        return True, '%d entries for %d channels' % (len(out), len(cols))
    for e, c, n_, s_ in zip(out, cols, nbs, scales):
        e = np.asarray(e, dtype=float)
        n_ = d._resolution[c] if n_ is None else n_
        lo, hi = d._range[c]
        if e.shape != (n_ + 1,):
            return True, 'channel %d: %r edges for %d bins' % (c, e.shape, n_)
        if not np.all(np.isfinite(e)) or not np.all(np.diff(e) > 0):
            return True, 'channel %d (%s): edges not finite and strictly increasing' % (c, s_)
        if s_ == 'log' and not np.all(e > 0):
            return True, 'channel %d: log edges not positive' % c
        if e[-1] < hi or (e[0] > lo and (s_ != 'log' or lo > 0)):
            return True, 'channel %d (%s): edges [%g, %g] do not cover the range [%g, %g]' % (c, s_, e[0], e[-1], lo, hi)
    return False, 'agrees'


@replayer('FlowCal.io.FCSData._parse_time_string')
def r_parse_time(tmp, inp):
    """the three standard time formats (clause replay over a small fixed domain)"""
    import datetime
    import FlowCal
    f = FlowCal.io.FCSData._parse_time_string
    for h, m_, s_ in ((0, 0, 0), (10, 20, 30), (23, 59, 59)):
        base = '%02d:%02d:%02d' % (h, m_, s_)
        r = call(f, base)
        if r[0] == 'raise' or r[1] != datetime.time(h, m_, s_):
            return True, '%r parsed as %r' % (base, r[1])
        for cc in (0, 5, 50, 99):
            r = call(f, base + '.%02d' % cc)
            if r[0] == 'raise' or r[1] != datetime.time(h, m_, s_, cc * 10000):
                return True, '%r parsed as %r' % (base + '.%02d' % cc, r[1])
        for tt in range(60):
            r = call(f, base + ':%02d' % tt)
            want = datetime.time(h, m_, s_, int(tt * 1e6 / 60))
            if r[0] == 'raise' or r[1] != want:
                return True, '%r (tt in 1/60 s) parsed as %r, expected %r' % (base + ':%02d' % tt, r[1], want)
    for bad in ('10:00:00:xx', 'abc', '10:00', '25:00:00', '', '10:00:00:00:00'):
        r = call(f, bad)
        if r[0] == 'raise' or r[1] is not None:
            return True, 'ill-formed %r gave %r' % (bad, r[1] if r[0] == 'return' else r[1])
    return False, 'agrees'


REPLAYERS_ALIAS['FlowCal.io.FCSData._parse_date_string'] = 'FlowCal.io.FCSData._parse_time_string'
