"""Concrete oracle for the orchestration clauses of C02 (FlowCal.mef.get_transform_fxn), written from the property text:
values are assigned to populations in order of increasing brightness; a population whose value is unknown in a channel (or that
the selection function rejects for that channel) does not take part in that channel's fit while the others keep their own values;
one label per event, one statistic per population, selected RFI and MEF lists of equal length and paired.

The clustering, selection and fitting functions are stubs that return / record what the witness prescribes (the real function
takes them as parameters); the statistic is the median.  Inputs: data rows, chs (calibrated channel positions), cch (clustering
channel positions), labels (one per event), mef (per channel list, None = unknown), selected (per channel list of booleans)."""
import numpy as np

from replay import replayer, make_fcs, fnum, call


@replayer('FlowCal.mef.get_transform_fxn')
def r_orch(tmp, inp):
    import FlowCal
    rows = [[fnum(v) for v in r] for r in inp['data']]
    if not rows:
        return False, 'no events: outside the quantifier'
    data = make_fcs(tmp, rows, inp.get('meta'))
    chs = [int(x) for x in inp['chs']]
    cch = [int(x) for x in inp['cch']]
    labels = np.array([int(x) for x in inp['labels']])
    mef = [[(np.nan if v is None else fnum(v)) for v in row] for row in inp['mef']]
    selected = [[bool(b) for b in row] for row in inp['selected']]
    K = len(mef[0])
    fits = []
    seen = {}

    def clustering(d, n, **kw):
        seen['cluster'] = (np.asarray(d).copy(), n)
        return labels.copy()

    nsel = [0]

    def selection(pops, **kw):
        c = nsel[0]
        nsel[0] += 1
        return np.array((selected[c] + [True] * len(pops))[:len(pops)], dtype=bool)

    def fitting(rfi, mefv, **kw):
        fits.append((np.asarray(rfi, dtype=float).copy(), np.asarray(mefv, dtype=float).copy()))
        return (('curve', len(fits) - 1), None, None, None, None)
    res = call(FlowCal.mef.get_transform_fxn, data, mef, chs, clustering_fxn=clustering, clustering_channels=cch,
               statistic_fxn=FlowCal.stats.median, selection_fxn=selection, fitting_fxn=fitting, full_output=True)
    X = np.array(rows, dtype=float)
    uniq = sorted(set(labels.tolist()))
    U = len(uniq)
    if res[0] == 'raise':
        if U != K:
            return False, 'populations found (%d) differ from values given (%d): refusal allowed' % (U, K)
        return True, '[raised] %s: %s with %d populations and %d values' % (type(res[1]).__name__, res[1], U, K)
    if U != K:
        return False, 'populations found differ from values given and no error: not covered by the clause'
    out = res[1]
    groups = [np.nonzero(labels == u)[0] for u in uniq]
    dist = [float(np.sum(np.mean(X[g][:, cch], axis=0) ** 2)) for g in groups]
    if len(set(dist)) != len(dist):
        return False, 'two populations at the same distance: brightness order ambiguous, not decisive'
    order = np.argsort(dist)
    if not np.array_equal(np.asarray(out.clustering['labels']), labels):
        return True, '[labels] reported labels differ from the clustering result'
    if len(fits) != len(chs):
        return True, '[fits] %d fits for %d channels' % (len(fits), len(chs))
    for c, ch in enumerate(chs):
        stats = [float(np.median(X[groups[j]][:, ch])) for j in order]
        rep = np.asarray(out.statistic['values'][c], dtype=float)
        if rep.shape != (U,) or not np.allclose(rep, stats, rtol=1e-12, atol=0):
            return True, '[statistic] channel %d: reported statistics %r, expected (brightness order) %r' % (ch, rep.tolist(), stats)
        keep = [k for k in range(K) if selected[c][k] and not np.isnan(mef[c][k])]
        exp_rfi = [stats[k] for k in keep]
        exp_mef = [mef[c][k] for k in keep]
        got_rfi, got_mef = fits[c]
        if len(got_rfi) != len(got_mef):
            return True, '[pairing] channel %d: fit got %d RFI and %d MEF values' % (ch, len(got_rfi), len(got_mef))
        if got_rfi.tolist() != exp_rfi or got_mef.tolist() != exp_mef:
            return True, '[pairing] channel %d: fit got (rfi, mef) = %r, expected the selected, known positions %r: %r' % (
                ch, list(zip(got_rfi.tolist(), got_mef.tolist())), keep, list(zip(exp_rfi, exp_mef)))
        if not (np.array_equal(np.asarray(out.selection['rfi'][c]), got_rfi) and np.array_equal(np.asarray(out.selection['mef'][c]), got_mef)):
            return True, '[selection-report] channel %d: reported selection lists differ from what the fit received' % ch
    tf = out.transform_fxn
    kw = getattr(tf, 'keywords', None) or {}
    if getattr(tf, 'func', None) is not FlowCal.transform.to_mef or list(kw.get('sc_channels', [])) != chs \
            or list(kw.get('sc_list', [])) != [('curve', c) for c in range(len(chs))]:
        return True, '[transform] the returned transformation does not bind curve c to calibrated channel c'
    return False, 'agrees'
