"""Generator of inputs for FlowCal's Excel UI: synthetic FCS files (through gen_fcs, independent of FlowCal), experiment
descriptions ("specs", plain JSON) and the input workbooks / tables made from them (openpyxl / pandas only).

A spec is a dict:
  instruments : [{'id', 'template', 'datatype' 'I'|'F'|'D', 'sc_amp' 'log'|'lin', 'fl_amp' 'log'|'lin', 'gain' float|None,
                  'volts' {channel: number}, 'description' str}]
  beads       : [{'id', 'instrument', 'file' (path relative to the workbook, or absolute), 'data' (file description or None when
                  the file must not exist or already exists), 'mef' {channel: 'a, b, c'|None}, 'gate_fraction', 'clustering' [ch],
                  'lot'}]
  samples     : [{'id', 'instrument', 'beads' id|None, 'file', 'data', 'units' {channel: str|None}, 'gate_fraction', 'extra' {}}]
  units_columns / mef_columns : channels that get a "<ch> Units" / "<ch> MEF Values" column (in this order)
  extra_columns : bool   (user columns such as Strain, DAPG (uM), Beads Lot, Description)
  blank_rows    : bool   (a row without identifier is inserted in the Samples and Beads sheets)
A file description is {'instrument' (id of the instrument whose settings are used), 'kind' 'cells'|'beads', 'n', 'seed',
'npop' (beads), 'volt_override' {ch: v}, 'amp_override' {ch: 'a,b'}}.
"""
import os

import numpy as np

import gen_fcs

# ------------------------------------------------------------------------------------------- instruments
TEMPLATES = [
    {'channels': ['FSC-H', 'SSC-H', 'FL1-H', 'FL2-H', 'FL3-H', 'Time'], 'fsc': 'FSC-H', 'ssc': 'SSC-H',
     'fl': ['FL1-H', 'FL2-H', 'FL3-H'], 'time': 'Time'},
    {'channels': ['TIME', 'FSC', 'SSC', 'FL1', 'FL2', 'FL3'], 'fsc': 'FSC', 'ssc': 'SSC', 'fl': ['FL1', 'FL2', 'FL3'], 'time': 'TIME'},
    {'channels': ['FSC-A', 'SSC-A', 'GFP-A', 'mCherry-A', 'Time'], 'fsc': 'FSC-A', 'ssc': 'SSC-A', 'fl': ['GFP-A', 'mCherry-A'],
     'time': 'Time'},
]
INT_RES = 1024
FLOAT_RANGE = 262144
LOG_AMP = '4,1'
LIN_AMP = '0,0'


def template(inst):
    return TEMPLATES[inst['template']]


def channel_settings(inst, data=None):
    """per channel: (amplification string, gain, voltage, bits, range) for files acquired on this instrument"""
    t = template(inst)
    out = []
    data = data or {}
    for ch in t['channels']:
        if ch == t['time']:
            amp, gain, volt = LIN_AMP, None, None
        elif ch in (t['fsc'], t['ssc']):
            amp = LOG_AMP if inst['sc_amp'] == 'log' else LIN_AMP
            gain = inst.get('gain') if amp == LIN_AMP else None
            volt = inst['volts'].get(ch)
        else:
            amp = LOG_AMP if inst['fl_amp'] == 'log' else LIN_AMP
            gain = inst.get('gain') if amp == LIN_AMP else None
            volt = inst['volts'].get(ch)
        amp = (data.get('amp_override') or {}).get(ch, amp)
        volt = (data.get('volt_override') or {}).get(ch, volt)
        if inst['datatype'] == 'I':
            bits, rng = (32, 2 ** 20) if ch == t['time'] else (16, INT_RES)
        else:
            bits, rng = ({'F': 32, 'D': 64}[inst['datatype']], FLOAT_RANGE)
        out.append((amp, gain, volt, bits, rng))
    return out


def bead_centres(inst, npop):
    """population centres in stored units (channel numbers for integer files, linear values for float files)"""
    if inst['datatype'] == 'I' and inst['fl_amp'] == 'log':
        return [150.0 + i * (720.0 / max(npop - 1, 1)) for i in range(npop)]
    if inst['datatype'] == 'I':
        return [12.0 * (60.0 ** (i / float(max(npop - 1, 1)))) for i in range(npop)]   # 12 .. 720 channels, linear amplifier
    return [150.0 * (400.0 ** (i / float(max(npop - 1, 1)))) for i in range(npop)]      # 150 .. 60000


def bead_rfi(inst, npop):
    cs = bead_centres(inst, npop)
    if inst['datatype'] == 'I' and inst['fl_amp'] == 'log':
        return [10 ** (4.0 * c / INT_RES) for c in cs]
    g = inst.get('gain') or 1.0
    return [c / g for c in cs]


def mef_values_string(inst, npop, drop=None, none_at=None):
    """manufacturer values following mef = 25 * rfi^1.03 - autofluorescence (first population reads 0)"""
    r = bead_rfi(inst, npop)
    vals = [25.0 * x ** 1.03 for x in r]
    auto = vals[0]
    out = [str(int(round(v - auto))) for v in vals]
    if none_at is not None:
        out[none_at] = 'None'
    if drop:
        out = out[:-drop]
    return ', '.join(out)


def synth_events(inst, data):
    """rows of numbers for one file (deterministic in data['seed'])"""
    t = template(inst)
    rs = np.random.RandomState(int(data['seed']) % (2 ** 31))
    n = int(data['n'])
    integer = inst['datatype'] == 'I'
    cols = []
    labels = rs.randint(0, int(data.get('npop') or 1), size=n)
    for ch in t['channels']:
        if ch == t['time']:
            inc = rs.randint(0, 3, size=n)
            col = np.cumsum(inc).astype(float)
            if not integer:
                col = col + 0.25
        elif ch in (t['fsc'], t['ssc']):
            k = 0 if ch == t['fsc'] else 1
            if integer:
                if data['kind'] == 'beads':
                    col = rs.normal(520 - 60 * k, 18, n)
                else:
                    col = rs.normal(480 + 70 * k, 75, n)
            else:
                if data['kind'] == 'beads':
                    col = rs.normal(30000 - 5000 * k, 1500, n)
                else:
                    col = rs.normal(18000 + 9000 * k, 6000, n)
        else:
            k = t['fl'].index(ch)
            if data['kind'] == 'beads':
                cs = np.array(bead_centres(inst, int(data['npop'])))
                if integer and inst['fl_amp'] == 'log':
                    col = rs.normal(cs[labels] + 4 * k, 5.0, n)
                else:
                    col = cs[labels] * (1 + 0.05 * k) * (1 + 0.035 * rs.normal(size=n))
            elif integer:
                col = rs.normal(250 + 180 * k, 90 + 40 * k, n)
            else:
                col = rs.normal(300 + 2500 * k, 400 + 900 * k, n)        # many events below zero
        if ch != t['time']:
            if integer:
                col = np.clip(np.round(col), 0, INT_RES - 1)
                if data['kind'] == 'cells':
                    u = rs.random_sample(n)
                    col[u < 0.03] = 0
                    col[u > 0.96] = INT_RES - 1
            else:
                col = np.clip(col, -FLOAT_RANGE / 8.0, FLOAT_RANGE - 1)
                if inst['datatype'] == 'F':
                    col = col.astype(np.float32).astype(float)
                if data['kind'] == 'cells' and ch in t['fl']:
                    u = rs.random_sample(n)
                    col[u < 0.01] = 0.0
        cols.append(col)
    a = np.stack(cols, axis=1)
    if integer:
        return [[int(v) for v in r] for r in a]
    return [[float(v) for v in r] for r in a]


def write_data_file(path, inst, data):
    t = template(inst)
    st = channel_settings(inst, data)
    rows = synth_events(inst, data)
    d = os.path.dirname(path)
    if d and not os.path.isdir(d):
        os.makedirs(d)
    gen_fcs.write_fcs(path, rows, names=t['channels'], datatype=inst['datatype'], widths=[s[3] for s in st],
                      ranges=[s[4] for s in st], amplification=[s[0] for s in st], gains=[s[1] for s in st],
                      voltages=[s[2] for s in st],
                      extra=[('$TIMESTEP', '0.1'), ('$BTIM', '10:00:00'), ('$ETIM', '10:03:20'), ('$DATE', '01-JAN-2020')])


def materialize_files(spec, base_dir):
    """writes every described data file of the spec below base_dir"""
    insts = {i['id']: i for i in spec['instruments']}
    done = set()
    for row in list(spec.get('beads', [])) + list(spec.get('samples', [])):
        data = row.get('data')
        if not data:
            continue
        p = row['file'] if os.path.isabs(row['file']) else os.path.join(base_dir, row['file'])
        if p in done:
            continue
        done.add(p)
        write_data_file(p, insts[data['instrument']], data)


# ------------------------------------------------------------------------------------------- tables / workbook
def sheet_rows(spec):
    """returns {'Instruments': (header, rows), 'Beads': ..., 'Samples': ...} with python cell values (None = empty cell)"""
    extra = spec.get('extra_columns', False)
    ih = ['ID'] + (['Description'] if extra else []) + ['Forward Scatter Channel', 'Side Scatter Channel', 'Fluorescence Channels',
                                                        'Time Channel']
    irows = []
    for i in spec['instruments']:
        t = template(i)
        r = [i['id']] + ([i.get('description', 'cytometer')] if extra else []) + [t['fsc'], t['ssc'], ', '.join(t['fl']), t['time']]
        irows.append(r)
    bh = ['ID', 'Instrument ID', 'File Path'] + (['Beads Lot'] if extra else []) + ['%s MEF Values' % c for c in spec.get('mef_columns', [])] \
        + ['Gate Fraction', 'Clustering Channels']
    brows = []
    for b in spec.get('beads', []):
        r = [b['id'], b['instrument'], b['file']] + ([b.get('lot', 'AJ01')] if extra else []) \
            + [b['mef'].get(c) for c in spec.get('mef_columns', [])] + [b['gate_fraction'], ', '.join(b['clustering'])]
        brows.append(r)
    xcols = []
    if extra:
        for s in spec.get('samples', []):
            for k in (s.get('extra') or {}):
                if k not in xcols:
                    xcols.append(k)
    sh = ['ID', 'Instrument ID', 'Beads ID', 'File Path'] + ['%s Units' % c for c in spec.get('units_columns', [])] + ['Gate Fraction'] + xcols
    srows = []
    for s in spec.get('samples', []):
        r = [s['id'], s['instrument'], s.get('beads'), s['file']] + [s['units'].get(c) for c in spec.get('units_columns', [])] \
            + [s['gate_fraction']] + [(s.get('extra') or {}).get(k) for k in xcols]
        srows.append(r)
    if spec.get('blank_rows'):
        if brows:
            brows.insert(len(brows) // 2, [None, 'note', None] + [None] * (len(bh) - 3))
        if srows:
            srows.insert((len(srows) + 1) // 2, [None, None, None, 'unused.fcs'] + [None] * (len(sh) - 4))
    return {'Instruments': (ih, irows), 'Beads': (bh, brows), 'Samples': (sh, srows)}


def write_rows_workbook(path, sheets, order=None):
    """sheets: {name: (header, rows)}; written with openpyxl only"""
    import openpyxl
    wb = openpyxl.Workbook()
    wb.remove(wb.active)
    for name in (order or list(sheets)):
        header, rows = sheets[name]
        ws = wb.create_sheet(title=name)
        ws.append(list(header))
        for r in rows:
            ws.append([None if v is None else v for v in r])
    d = os.path.dirname(path)
    if d and not os.path.isdir(d):
        os.makedirs(d)
    wb.save(path)


def write_input_workbook(path, spec, extra_sheet=False):
    sheets = sheet_rows(spec)
    order = ['Instruments', 'Beads', 'Samples']
    if extra_sheet:
        sheets['Notes'] = (['what', 'value'], [['operator', 'nobody'], ['run', 7]])
        order = ['Notes'] + order
    write_rows_workbook(path, sheets, order)
    return sheets


def read_sheet(path, sheet, index_col='ID'):
    """independent reader (pandas directly; rows without identifier dropped as the documentation says)"""
    import pandas as pd
    t = pd.read_excel(path, sheet_name=sheet, index_col=index_col, engine='openpyxl')
    if index_col is not None:
        t = t[pd.notnull(t.index)]
    return t


def tables(path):
    return read_sheet(path, 'Instruments'), read_sheet(path, 'Beads'), read_sheet(path, 'Samples')


def materialize(spec, base_dir, workbook='experiment.xlsx', extra_sheet=False):
    """writes data files and the input workbook; returns the workbook path"""
    if not os.path.isdir(base_dir):
        os.makedirs(base_dir)
    materialize_files(spec, base_dir)
    p = os.path.join(base_dir, workbook)
    write_input_workbook(p, spec, extra_sheet=extra_sheet)
    return p


# ------------------------------------------------------------------------------------------- random generic tables (round trip)
WORDS = ['alpha', 'Beta 2', ' padded ', '12 a', 'v3.50', 'x,y', 'ERROR: no', u'µM', 'None, 12', 'nan?', 'a"b', "it's", 'TRUE?', '1e5x',
         'line\nbreak', '-', 'A' * 40]


def random_cell(rnd, kind):
    if kind == 'empty':
        return None
    if kind == 'str':
        return rnd.choice(WORDS)
    if kind == 'int':
        return rnd.choice([0, 1, -1, 7, 1023, 262144, -99999, 2 ** 40, rnd.randint(-10 ** 6, 10 ** 6)])
    # at most 15 significant digits: the precision of a numeric Excel cell (openpyxl writes '%.16g')
    return rnd.choice([0.5, -2.25, 1e-7, 3.14159265358979, 123456789012.125, 0.1, 2.0, round(rnd.uniform(-1e4, 1e4), 6),
                       round(rnd.random() * 1e-3, 9)])


def random_table(rnd, nrows, ncols, ids='str', blank_ids=0, dup_ids=False, mixed=True):
    """{'columns': [...], 'rows': [[id, cells...]]}; first column is the identifier column 'ID'"""
    cols = ['ID']
    pool = ['Name', 'File Path', 'Gate Fraction', 'FL1 Units', 'count', 'value (uM)', 'Notes', ' spaced ', 'x' * 30, 'Col%d']
    for j in range(ncols):
        c = pool[j] if j < len(pool) - 1 else pool[-1] % j
        cols.append(c)
    kinds = []
    for j in range(ncols):
        kinds.append(rnd.choice(['str', 'int', 'float', 'mixed'] if mixed else ['str', 'int', 'float']))
    rows = []
    for i in range(nrows):
        rid = ('R%03d' % i) if ids == 'str' else (100 + i)
        r = [rid]
        for j in range(ncols):
            k = kinds[j]
            if k == 'mixed':
                k = rnd.choice(['str', 'int', 'float', 'empty'])
            elif rnd.random() < 0.2:
                k = 'empty'
            r.append(random_cell(rnd, k))
        rows.append(r)
    for _ in range(blank_ids):
        if rows:
            rows[rnd.randrange(len(rows))][0] = None
    if dup_ids and len(rows) >= 2:
        live = [i for i, r in enumerate(rows) if r[0] is not None]
        if len(live) >= 2:
            rows[live[-1]][0] = rows[live[0]][0]
    return {'columns': cols, 'rows': rows}
