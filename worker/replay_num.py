"""Concrete oracles (written from the property statements) for the numerical properties

    C05.density    density gate                      (FlowCal.gate.density2d)
    C18.logicle    logicle display transform         (FlowCal.plot._LogicleTransform / _InterpolatedInverseTransform / _LogicleScale)
    C09.fit        bead model fit                    (FlowCal.mef.fit_beads_autofluorescence)
    C02.beads      bead calibration end to end       (FlowCal.mef.get_transform_fxn)
    C02.selection  selection_std leaves its arguments alone

Every detail string starts with "[class] ..." where `class` is a short stable name of the failure kind
(gens_num.failure_class returns it).  Replayers return False (not decisive) for inputs outside the quantifier.
"""
import copy
import math
import os

import numpy as np

from replay import replayer, make_fcs, fnum, call


# =====================================================================================================
# C05  density gate
# =====================================================================================================
def _dec_bins(b):
    """JSON -> argument: None | int | {'edges': [...]} -> ndarray | [spec, spec] -> list"""
    if b is None or isinstance(b, int):
        return b
    if isinstance(b, dict):
        return np.array([fnum(v) for v in b['edges']], dtype=float)
    return [_dec_bins(x) for x in b]


def _same_bins(before, after):
    if type(before) is not type(after):
        return False
    if isinstance(before, list):
        return len(before) == len(after) and all(_same_bins(x, y) for x, y in zip(before, after))
    if isinstance(before, np.ndarray):
        return before.shape == after.shape and np.array_equal(before, after)
    return before == after


def _c05_data(tmp, inp):
    rows = [[fnum(v) for v in r] for r in inp['data']]
    if inp.get('container') == 'FCSData':
        return make_fcs(tmp, rows, inp.get('meta'))
    if not rows:
        return np.zeros((0, int(inp.get('ncols', 2))))
    return np.array(rows, dtype=float)


def _resolve_cols(data, channels):
    names = list(getattr(data, '_channels', []) or [])
    D = data.shape[1]
    out = []
    for c in channels:
        if isinstance(c, str):
            out.append(names.index(c))
        else:
            out.append(c % D)
    return out


def _assign(v, e):
    """documented bin rule: bin i holds e[i] <= v < e[i+1]; the last bin also holds v == e[-1]; outside the edges: no bin"""
    nb = len(e) - 1
    idx = np.searchsorted(e, v, side='right') - 1
    idx = np.where(v == e[-1], nb - 1, idx)
    inside = (v >= e[0]) & (v <= e[-1])
    return idx, inside


def _targets(f, n):
    """acceptable values of ceil(f*n): the product is only known up to rounding of the floating-point fraction"""
    x = f * n
    lo = int(math.ceil(x * (1 - 2.0 ** -48) - 1e-300))
    hi = int(math.ceil(x * (1 + 2.0 ** -48)))
    return max(lo, 0), min(max(hi, 0), n) if n else 0


def _c05_check_one(X, Xall, res, f, sigma, given_edges):
    """all single-call clauses. returns (violates, detail, kept-mask, H)"""
    import scipy.ndimage
    if res[0] == 'raise':
        return True, '[raised] f=%r: %s: %s' % (f, type(res[1]).__name__, res[1]), None
    out = res[1]
    if tuple(getattr(out, '_fields', ())) != ('gated_data', 'mask', 'contour', 'bin_edges', 'bin_mask'):
        return True, '[output-shape] full output fields %r' % (getattr(out, '_fields', None),), None
    mask = np.asarray(out.mask)
    xe, ye = [np.asarray(e, dtype=float) for e in out.bin_edges]
    bm = np.asarray(out.bin_mask)
    N = X.shape[0]
    if mask.dtype != bool or mask.shape != (N,):
        return True, '[output-shape] mask dtype/shape %s %s' % (mask.dtype, mask.shape), None
    for ax, (e, g) in enumerate(zip((xe, ye), given_edges)):
        if e.ndim != 1 or len(e) < 2 or not np.all(np.diff(e) > 0):
            return False, 'bin edges not strictly increasing: not decisive', None
        if g is not None and (len(g) != len(e) or not np.array_equal(g, e)):
            return True, '[edges-differ] axis %d: returned edges differ from the edges the bin specification stands for ' \
                         '(%d returned, %d expected; first/last %r/%r vs %r/%r)' % (ax, len(e), len(g), e[0], e[-1], g[0], g[-1]), None
    if bm.shape != (len(xe) - 1, len(ye) - 1) or bm.dtype != bool:
        return True, '[output-shape] bin_mask shape %s for %d x %d bins' % (bm.shape, len(xe) - 1, len(ye) - 1), None
    ix, inx = _assign(X[:, 0], xe)
    iy, iny = _assign(X[:, 1], ye)
    ingrid = inx & iny
    n = int(ingrid.sum())
    if np.any(mask & ~ingrid):
        i = int(np.nonzero(mask & ~ingrid)[0][0])
        return True, '[outside-grid-kept] f=%r: event %d %r lies outside the grid [%r,%r]x[%r,%r] and is kept' % (
            f, i, X[i].tolist(), xe[0], xe[-1], ye[0], ye[-1]), None
    H = np.zeros((len(xe) - 1, len(ye) - 1))
    K = np.zeros_like(H)
    np.add.at(H, (ix[ingrid], iy[ingrid]), 1)
    np.add.at(K, (ix[ingrid & mask], iy[ingrid & mask]), 1)
    split = (K > 0) & (K < H)
    if np.any(split):
        b = tuple(int(v) for v in np.argwhere(split)[0])
        return True, '[bin-split] f=%r: bin %r holds %d events of which %d are kept' % (f, b, H[b], K[b]), None
    kept_bins = K > 0
    if np.any(kept_bins & ~bm) or np.any(bm & (H > 0) & ~kept_bins):
        b = tuple(int(v) for v in np.argwhere((kept_bins & ~bm) | (bm & (H > 0) & ~kept_bins))[0])
        return True, '[bin-mask-inconsistent] f=%r: bin %r: bin_mask %r but %d of its %d events kept' % (f, b, bool(bm[b]), K[b], H[b]), None
    gd = np.asarray(out.gated_data, dtype=float)
    if gd.shape != Xall[mask].shape or not np.array_equal(gd, Xall[mask]):
        return True, '[output-shape] gated_data (%d rows) is not the input restricted to the mask (%d rows)' % (gd.shape[0], int(mask.sum())), None
    kept = int(mask.sum())
    t_lo, t_hi = _targets(f, n)
    if kept < t_lo:
        return True, '[too-few-kept] f=%r: %d of the %d in-grid events kept, fewer than ceil(f*n)=%d' % (f, kept, n, t_lo), None
    if f == 0 and kept != 0:
        return True, '[zero-fraction-keeps] f=0 keeps %d events' % kept, None
    if f == 1 and kept != n:
        return True, '[full-fraction-drops] f=1 keeps %d of the %d in-grid events' % (kept, n), None
    if kept:
        sH = scipy.ndimage.gaussian_filter(H, sigma=sigma, order=0, mode='constant', cval=0.0, truncate=6.0)
        tol = 1e-12 * float(np.max(np.abs(sH)))
        dk = float(np.min(sH[bm]))
        if np.any(~bm):
            dd = float(np.max(sH[~bm]))
            if dk < dd - tol:
                bk = tuple(int(v) for v in np.argwhere(bm & (sH == dk))[0])
                bd = tuple(int(v) for v in np.argwhere(~bm & (sH == dd))[0])
                return True, '[density-order] f=%r: kept bin %r has smoothed density %r, dropped bin %r has %r' % (f, bk, dk, bd, dd), None
        # minimality: dropping (one of) the least dense kept bin(s) must take the count below the target
        cand = bm & (sH <= dk + tol) & (H > 0)
        ok = np.any(cand) and (kept - float(np.min(H[cand])) < t_hi)
        if not ok:
            return True, '[not-minimal] f=%r: %d kept, target ceil(f*n)=%d of n=%d; the least dense kept bin (density %r) holds %s ' \
                         'events, so dropping it would still leave the target' % (
                             f, kept, t_hi, n, dk, (np.min(H[cand]) if np.any(cand) else 0)), None
    return False, 'ok', (mask, xe, ye, bm, ingrid)


@replayer('C05.density')
def r_c05(tmp, inp):
    import FlowCal
    kind = inp.get('kind', 'gate')
    data = _c05_data(tmp, inp)
    channels = inp.get('channels', [0, 1])
    sigma = inp.get('sigma', 10.0)
    sigma = [fnum(s) for s in sigma] if isinstance(sigma, list) else fnum(sigma)
    xs, ys = inp.get('xscale', 'logicle'), inp.get('yscale', 'logicle')
    fcs = hasattr(data, '_channels')
    rng0 = copy.deepcopy(getattr(data, '_range', None))

    def run(d, f, bins, **kw):
        if fcs:
            d._range = copy.deepcopy(rng0)
        return call(FlowCal.gate.density2d, d, channels=list(channels), bins=bins, gate_fraction=f, xscale=xs, yscale=ys,
                    sigma=sigma, full_output=True, **kw)

    if kind == 'refuse':
        f = fnum(inp.get('fraction', 0.5))
        res = run(data, f, _dec_bins(inp['bins']))
        N = data.shape[0]
        why = []
        if not (0 <= f <= 1):
            why.append('fraction %r outside [0,1]' % f)
        if len(channels) != 2:
            why.append('%d channels' % len(channels))
        if N < 2:
            why.append('%d events' % N)
        if not why:
            return False, 'valid request: not decisive'
        ok = res[0] == 'raise'
        return (not ok), '[accepted-invalid-%s] %s must raise an error; observed a result' % (inp.get('what', 'request'), ', '.join(why))

    if data.shape[0] < 2 or len(channels) != 2:
        return False, 'outside the quantifier'
    cols = _resolve_cols(data, channels)
    Xall = np.asarray(data, dtype=float)
    X = Xall[:, cols]
    if not np.all(np.isfinite(X)):
        return False, 'non-finite events: outside the quantifier'
    spec = inp['bins']
    if not fcs and (spec is None or (isinstance(spec, list) and any(s is None for s in spec))):
        return False, 'None bins need a sample with hist_bins: outside the quantifier'
    fr = sorted(set(fnum(f) for f in inp['fractions']))
    if any(not (0 <= f <= 1) for f in fr):
        return False, 'fraction outside [0,1]: use kind=refuse'

    # the edges each axis specification stands for (explicit edges: themselves; count on a plain array: that many bins;
    # None/count on a sample: what its hist_bins method returns for that axis and scale)
    per_axis = spec if (isinstance(spec, list)) else [spec, spec]
    given = []
    for ax, (s, sc) in enumerate(zip(per_axis, (xs, ys))):
        if isinstance(s, dict):
            given.append(np.array([fnum(v) for v in s['edges']], dtype=float))
        elif fcs:
            data._range = copy.deepcopy(rng0)
            given.append(np.asarray(data[:, list(channels)].hist_bins(channels=ax, nbins=s, scale=sc), dtype=float))
            data._range = copy.deepcopy(rng0)
        else:
            given.append(None)          # count on a plain array: only the number of bins is documented
    results = []
    mutated = None
    for f in fr:
        bins = _dec_bins(spec)
        before = copy.deepcopy(bins)
        res = run(data, f, bins)
        if not _same_bins(before, bins) and mutated is None:
            # reported after all other clauses so that it cannot hide them
            mutated = '[bins-argument-modified] the caller\'s bins argument %s came back as %s' % (_short(before), _short(bins))
        if res[0] == 'raise' and any((isinstance(s_, int) and s_ == 1) or (isinstance(s_, dict) and len(s_['edges']) == 2) for s_ in per_axis):
            return True, '[raised-single-bin-axis] f=%r with bins %s: %s: %s' % (f, _short(_dec_bins(spec)), type(res[1]).__name__, res[1])
        v, d, st = _c05_check_one(X, Xall, res, f, sigma, given)
        if v or st is None:
            return v, d
        mask, xe, ye, bm, ingrid = st
        for ax, (s, e) in enumerate(zip(per_axis, (xe, ye))):
            if isinstance(s, int) and len(e) != s + 1:
                return True, '[edges-differ] axis %d: %d bins requested, %d returned' % (ax, s, len(e) - 1)
        results.append((f, mask, xe, ye, bm))
        # re-gating with the returned edges and bin mask
        r2 = run(data, 0.5, [xe.copy(), ye.copy()], bin_mask=bm.copy())
        if r2[0] == 'raise':
            return True, '[regate-differs] f=%r: re-gating with the returned bin_edges and bin_mask raised %r' % (f, r2[1])
        if not np.array_equal(np.asarray(r2[1].mask), mask):
            return True, '[regate-differs] f=%r: re-gating with the returned bin_edges and bin_mask keeps %d events, the gate kept %d' % (
                f, int(np.sum(r2[1].mask)), int(mask.sum()))
    # the short form returns the gated events of the full form
    f, m_, xe, ye, bm = results[len(results) // 2]
    if fcs:
        data._range = copy.deepcopy(rng0)
    rs_ = call(FlowCal.gate.density2d, data, channels=list(channels), bins=_dec_bins(spec), gate_fraction=f, xscale=xs, yscale=ys, sigma=sigma)
    if rs_[0] == 'raise' or not np.array_equal(np.asarray(rs_[1], dtype=float), Xall[m_]):
        return True, '[output-shape] f=%r: without full_output the gate returns %s, not the events selected by the full form\'s mask' % (
            f, repr(rs_[1])[:80])
    if type(rs_[1]) is not type(data):
        return True, '[output-shape] container kind changed: %s -> %s' % (type(data).__name__, type(rs_[1]).__name__)
    # the grid does not depend on f
    for (f, m_, xe, ye, bm) in results[1:]:
        if not (np.array_equal(xe, results[0][2]) and np.array_equal(ye, results[0][3])):
            return True, '[edges-differ] the grid changes with the gate fraction (f=%r vs f=%r)' % (results[0][0], f)
    # monotone in f
    for (f1, m1, _, _, _), (f2, m2, _, _, _) in zip(results, results[1:]):
        if np.any(m1 & ~m2):
            return True, '[not-monotone] %d events kept at f=%r are dropped at the larger f=%r' % (int(np.sum(m1 & ~m2)), f1, f2)
    # independent of the order of events
    prs = np.random.RandomState(int(inp.get('perm_seed', 0)))
    perm = prs.permutation(data.shape[0])
    dp = data[perm]
    for (f, m_, xe, ye, bm) in results:
        rp = run(dp, f, _dec_bins(spec))
        if rp[0] == 'raise':
            return True, '[order-dependent] f=%r: the permuted sample raised %r' % (f, rp[1])
        mp = np.zeros_like(m_)
        mp[perm] = np.asarray(rp[1].mask)
        if not np.array_equal(mp, m_):
            return True, '[order-dependent] f=%r: %d events change their fate when the events are permuted' % (f, int(np.sum(mp != m_)))
    if mutated:
        return True, mutated
    return False, 'agrees for f in %r' % (fr,)


def _short(b):
    if isinstance(b, list):
        return '[' + ', '.join(_short(x) for x in b) + ']'
    if isinstance(b, np.ndarray):
        return 'array(%d)' % len(b)
    return repr(b)


# =====================================================================================================
# C18  logicle
# =====================================================================================================
LN10 = math.log(10.0)


def solve_p(W):
    """p >= 1 with W = 2 p log10(p) / (p + 1), by bisection on log10 p in [0, W] (2p/(p+1) >= 1 gives log10 p <= W)"""
    if W == 0:
        return 1.0
    lo, hi = 0.0, float(W)

    def g(lp):
        p = 10.0 ** lp
        return 2.0 * lp / (1.0 + 1.0 / p) - W
    for _ in range(200):
        mid = 0.5 * (lo + hi)
        if g(mid) < 0:
            lo = mid
        else:
            hi = mid
    return 10.0 ** (0.5 * (lo + hi))


def biexp(s, T, M, W, p):
    """the published equation, evaluated without cancellation, and its derivative in s"""
    u = (np.asarray(s, dtype=float) - W) * LN10
    C = T * 10.0 ** (-(M - W))
    x = C * (np.expm1(u) - p * p * np.expm1(-u / p))
    dx = C * LN10 * (np.exp(u) + p * np.exp(-u / p))
    return x, dx


def _plain(a):
    if isinstance(a, np.ma.MaskedArray):
        if np.any(np.ma.getmaskarray(a)):
            return None
        a = a.filled(np.nan)
    return np.asarray(a, dtype=float)


@replayer('C18.logicle')
def r_c18(tmp, inp):
    import FlowCal
    import FlowCal.plot
    kind = inp['kind']
    LT = FlowCal.plot._LogicleTransform
    if kind == 'refuse':
        kw = {k: fnum(inp[k]) for k in ('T', 'M', 'W') if inp.get(k) is not None}
        bad = ('T' in kw and kw['T'] <= 0) or ('M' in kw and kw['M'] <= 0) or ('W' in kw and kw['W'] < 0)
        if not bad:
            return False, 'valid triple: not decisive'
        if inp.get('via') == 'axis':
            from matplotlib.figure import Figure
            ax = Figure().add_subplot(111)
            res = call(ax.set_xscale, 'logicle', **kw)
        else:
            res = call(LT, **kw)
        return res[0] != 'raise', '[accepted-invalid-parameters] %r must be refused; observed %s' % (kw, res[0])

    if kind == 'derived':
        return _c18_derived(tmp, inp, LT)

    T, M, W = fnum(inp['T']), fnum(inp['M']), fnum(inp['W'])
    if not (T > 0 and M > 0 and W >= 0) or not all(math.isfinite(v) for v in (T, M, W)):
        return False, 'invalid triple: use kind=refuse'
    tag = 'T=%r M=%r W=%r' % (T, M, W)
    if inp.get('via') == 'axis':
        from matplotlib.figure import Figure
        ax = Figure().add_subplot(111)
        r = call(ax.set_xscale, 'logicle', T=T, M=M, W=W)
        if r[0] == 'raise':
            return True, '[construction-failed] %s: set_xscale raised %s: %s' % (tag, type(r[1]).__name__, r[1])
        inv = ax.xaxis.get_transform()
        fwd = inv.inverted()
    else:
        r = call(LT, T=T, M=M, W=W)
        if r[0] == 'raise':
            return True, '[construction-failed] %s: %s: %s' % (tag, type(r[1]).__name__, r[1])
        fwd = r[1]
        inv = fwd.inverted()
    p = solve_p(W)
    n = int(inp.get('grid', 2001))
    s = np.linspace(0.0, M, n)
    x = _plain(fwd.transform_non_affine(s))
    if x is None or x.shape != s.shape or not np.all(np.isfinite(x)):
        return True, '[equation] %s: transform returns masked / non-finite values on [0,M]' % tag
    xt, dxt = biexp(s, T, M, W, p)
    tol = dxt * (1e-6 * M) + 1e-12 * np.abs(xt)
    bad = np.abs(x - xt) > tol
    if np.any(bad):
        i = int(np.nonzero(bad)[0][0])
        return True, '[equation] %s: at display %r the transform gives %r, the biexponential with p=%r gives %r' % (tag, s[i], x[i], p, xt[i])
    if not np.all(np.diff(x) > 0):
        i = int(np.nonzero(np.diff(x) <= 0)[0][0])
        return True, '[not-increasing] %s: transform(%r)=%r >= transform(%r)=%r' % (tag, s[i], x[i], s[i + 1], x[i + 1])
    x0 = _plain(fwd.transform_non_affine(np.array([W])))
    _, d0 = biexp(np.array([W]), T, M, W, p)
    if x0 is None or abs(x0[0]) > d0[0] * 1e-6 * M:
        return True, '[zero-not-at-W] %s: display W maps to %r (slope there %r)' % (tag, None if x0 is None else x0[0], d0[0])
    sb = _plain(inv.transform_non_affine(x))
    if sb is None or sb.shape != s.shape:
        return True, '[inverse-inaccurate] %s: inverse masks values of the transform on [0,M]' % tag
    err = np.abs(sb - s)
    if not np.all(err <= 1e-4 * M):          # also catches nan
        i = int(np.nanargmax(np.where(np.isnan(err), np.inf, err)))
        return True, '[inverse-inaccurate] %s: inverse(transform(%r)) = %r, error %r > 1e-4*M = %r' % (tag, s[i], sb[i], err[i], 1e-4 * M)
    xx = np.sort(np.concatenate([np.linspace(x[0], x[-1], 3001), x]))
    xx = xx[(xx >= x[0]) & (xx <= x[-1])]
    sx = _plain(inv.transform_non_affine(xx))
    if sx is None:
        return True, '[inverse-inaccurate] %s: inverse masks data values between transform(0) and transform(M)' % tag
    if not np.all(np.diff(sx) >= 0):
        i = int(np.nonzero(~(np.diff(sx) >= 0))[0][0])
        return True, '[inverse-decreasing] %s: inverse(%r)=%r > inverse(%r)=%r' % (tag, xx[i], sx[i], xx[i + 1], sx[i + 1])
    return False, 'agrees (p=%r)' % p


def _c18_derived(tmp, inp, LT):
    samples = []
    ch = inp.get('channel')
    Ts, negs = [], []
    for k, sp in enumerate(inp['samples']):
        rows = sp['data']
        if sp.get('container') == 'FCSData':
            sub = os.path.join(tmp, 'c18_%d' % k)
            os.makedirs(sub, exist_ok=True)
            d = make_fcs(sub, rows, sp.get('meta'))
            names = list(d._channels)
            col = names.index(ch) if isinstance(ch, str) else ch
            if d._range[col] is None:
                return False, 'sample without a range: not decisive here'
            Ts.append(float(d._range[col][1]))
            vals = np.asarray(d, dtype=float)[:, col]
        elif sp.get('ndim', 2) == 1:
            d = np.array([fnum(v) for v in rows], dtype=float)
            vals = d
            Ts.append(float(np.max(vals)))
        else:
            d = np.array([[fnum(v) for v in r] for r in rows], dtype=float)
            vals = d[:, ch]
            Ts.append(float(np.max(vals)))
        if len(vals) == 0:
            return False, 'empty sample: outside the quantifier'
        negs.append(float(np.min(vals)))
        samples.append(d)
    arg = samples if (inp.get('as_list', True) or len(samples) > 1) else samples[0]
    res = call(LT, data=arg, channel=ch)
    T = max(Ts)
    if not (T > 0):
        return res[0] != 'raise', '[accepted-invalid-parameters] derived T=%r is not positive and must be refused; observed %s' % (T, res[0])
    M = max(4.5, 4.5 * math.log10(T) / math.log10(262144))
    r = min(negs)
    W = max(0.0, (M - math.log10(T / abs(r))) / 2) if r < 0 else 0.0
    if res[0] == 'raise':
        return True, '[construction-failed] derived parameters T=%r M=%r W=%r: %s: %s' % (T, M, W, type(res[1]).__name__, res[1])
    t = res[1]
    got = (float(t.T), float(t.M), float(t.W))
    for nm, g, e in zip('TMW', got, (T, M, W)):
        if not (abs(g - e) <= 1e-9 * max(1.0, abs(e))):
            return True, '[derived-%s] derived %s = %r, the documented rule gives %r (T=%r, most negative event %r, %d sample(s))' % (
                nm, nm, g, e, T, r, len(samples))
    return False, 'derived T=%r M=%r W=%r agree' % got


# =====================================================================================================
# C09  bead fit
# =====================================================================================================
def _structural(std_crv, beads_model, params, tag):
    """clauses that hold for every fit"""
    m, b, auto = [float(v) for v in params]
    if not all(math.isfinite(v) for v in (m, b, auto)):
        return True, '[non-finite-parameters] %s: fitted parameters %r' % (tag, [m, b, auto])
    if auto < 0:
        return True, '[negative-autofluorescence] %s: fitted autofluorescence %r' % (tag, auto)
    xp = np.logspace(-3, 6, 181)
    with np.errstate(all='ignore'):
        yp = np.asarray(std_crv(xp), dtype=float)
        yn = np.asarray(std_crv(-xp), dtype=float)
        y0 = float(std_crv(0.0))
        y0a = np.asarray(std_crv(np.array([0.0, -0.0])), dtype=float)
        bm = np.asarray(beads_model(xp), dtype=float)
    if np.any(np.isnan(yp)) or np.any(np.isnan(yn)):
        return True, '[non-finite-parameters] %s: the standard curve returns nan for finite inputs (parameters %r)' % (tag, [m, b, auto])
    if not np.array_equal(yn, -yp):
        i = int(np.nonzero(yn != -yp)[0][0])
        return True, '[not-odd] %s: std_crv(%r)=%r but std_crv(%r)=%r' % (tag, xp[i], yp[i], -xp[i], yn[i])
    if m > 0 and (y0 != 0 or np.any(y0a != 0)):
        return True, '[not-zero-at-zero] %s: std_crv(0)=%r (slope %r)' % (tag, y0, m)
    if m > 0:
        fin = np.isfinite(yp) & (yp > 0)
        if np.any(np.diff(yp[fin]) <= 0) or np.any(yp[np.isfinite(yp)] < 0):
            return True, '[not-increasing] %s: standard curve with positive slope %r is not increasing for positive inputs' % (tag, m)
    want = yp - auto
    fin = np.isfinite(want) & np.isfinite(bm)
    if np.any(np.isfinite(want) != np.isfinite(bm)) or not np.allclose(bm[fin], want[fin], rtol=1e-9, atol=1e-9 * max(1.0, auto)):
        i = int(np.nonzero(~np.isclose(bm, want, rtol=1e-9, atol=1e-9 * max(1.0, auto)))[0][0])
        return True, '[model-differs] %s: beads_model(%r)=%r, std_crv - autofluorescence = %r' % (tag, xp[i], bm[i], want[i])
    return False, 'ok'


@replayer('C09.fit')
def r_c09(tmp, inp):
    import FlowCal
    import FlowCal.mef
    fit = FlowCal.mef.fit_beads_autofluorescence
    kind = inp['kind']
    if kind == 'refuse':
        rfi = np.array([fnum(v) for v in inp['rfi']], dtype=float)
        mef = np.array([fnum(v) for v in inp['mef']], dtype=float)
        if len(rfi) == len(mef) and len(rfi) >= 3:
            return False, 'valid request: not decisive'
        res = call(fit, rfi, mef)
        return res[0] != 'raise', '[accepted-invalid-request] %d rfi values and %d mef values must raise; observed %s' % (len(rfi), len(mef), res[0])
    if kind == 'struct':
        rfi = np.array([fnum(v) for v in inp['rfi']], dtype=float)
        mef = np.array([fnum(v) for v in inp['mef']], dtype=float)
        if len(rfi) != len(mef) or len(rfi) < 3 or np.any(rfi <= 0) or np.any(mef <= 0) or not np.all(np.isfinite(rfi)) \
                or not np.all(np.isfinite(mef)):
            return False, 'outside the quantifier (positive pairs, three or more)'
        tag = 'rfi=%s mef=%s' % (rfi.tolist(), mef.tolist())
        res = call(fit, rfi, mef)
        if res[0] == 'raise':
            return True, '[raised] %s: %s: %s' % (tag, type(res[1]).__name__, res[1])
        return _structural(res[1][0], res[1][1], res[1][2], tag)
    # recovery
    m, b, auto = fnum(inp['m']), fnum(inp['b']), fnum(inp['auto'])
    mef = np.array([fnum(v) for v in inp['mef']], dtype=float)
    if not (0.85 <= m <= 1.25 and 0 <= b <= 7 and (auto == 0 or 1 <= auto <= 5000)):
        return False, 'law outside the quantifier'
    if not (5 <= len(mef) <= 10) or np.any(mef < 0) or np.any(np.diff(mef) <= 0):
        return False, 'bead ladder outside the quantifier'
    if int(np.sum(mef > 3 * auto)) < 5:
        return False, 'fewer than five populations above 3x the autofluorescence'
    if np.any(mef + auto <= 0):
        return False, 'blank bead without autofluorescence has no fluorescence under the model: outside the quantifier'
    rfi = np.exp((np.log(mef + auto) - b) / m)
    tag = 'm=%r b=%r autofluorescence=%r mef=%s' % (m, b, auto, mef.tolist())
    res = call(fit, rfi, mef)
    if res[0] == 'raise':
        return True, '[raised] %s: %s: %s' % (tag, type(res[1]).__name__, res[1])
    std_crv, beads_model, params = res[1][0], res[1][1], res[1][2]
    v, d = _structural(std_crv, beads_model, params, tag)
    if v:
        return v, d
    x = np.logspace(math.log10(rfi.min()), math.log10(rfi.max()), 200)
    true = np.exp(b) * x ** m
    got = np.asarray(std_crv(x), dtype=float)
    rel = np.abs(got / true - 1)
    if not np.all(rel <= 0.05):
        i = int(np.nanargmax(np.where(np.isnan(rel), np.inf, rel)))
        return True, '[recovery-off] %s: std_crv(%r)=%r, true conversion %r (%.1f%% off); fitted parameters %s' % (
            tag, x[i], got[i], true[i], 100 * rel[i], np.asarray(params).tolist())
    return False, 'recovered within %.3g%%' % (100 * float(rel.max()))


# =====================================================================================================
# C02  bead calibration end to end
# =====================================================================================================
def _c02_sample(inp):
    """events of the synthetic bead sample described by the recipe; returns rows (N x D), generating population per event"""
    rs = np.random.RandomState(int(inp['event_seed']))
    K = int(inp['K'])
    sizes = [int(v) for v in inp['sizes']]
    R = int(inp['R'])
    chans = inp['file_channels']               # list of {'name', 'kind': 'fl'|'scatter', ...}
    cols = []
    for c in chans:
        col = []
        for k in range(K):
            n = sizes[k]
            if c['kind'] == 'scatter':
                v = rs.normal(c['mean'], c['sd'], size=n)
            else:
                st = c['state'][k]              # 'ok' | 'sat_high' | 'sat_low'
                cv = float(c['cv'][k])
                if st == 'ok':
                    v = float(c['rfi'][k]) * np.exp(rs.normal(0.0, cv, size=n))
                elif st == 'sat_high':
                    v = float(c['rfi'][k]) * np.exp(rs.normal(0.0, cv, size=n))     # nominal value at or above the limit
                else:
                    v = rs.normal(float(c['rfi'][k]), float(c['sd_low']), size=n)   # nominal value at or below zero
            col.append(v)
        cols.append(np.concatenate(col))
    X = np.stack(cols, axis=1)
    X = np.clip(X, 0.0, R - 1.0)
    if inp['datatype'] == 'I':
        X = np.rint(X)
    elif inp['datatype'] == 'F':
        X = X.astype(np.float32).astype(float)
    gen = np.concatenate([[k] * sizes[k] for k in range(K)]).astype(int)
    perm = rs.permutation(len(gen))
    return X[perm], gen[perm]


def _grouping(labels, gen, K):
    """labels group the events by generating population: one label per population, different populations different labels"""
    L = np.asarray(labels)
    if L.shape != gen.shape:
        return 'labels: %d for %d events' % (L.size, gen.size)
    seen = {}
    wrong = 0
    for k in range(K):
        vals, cnt = np.unique(L[gen == k], return_counts=True)
        major = vals[np.argmax(cnt)]
        wrong += int(cnt.sum() - cnt.max())
        seen.setdefault(major, []).append(k)
    merged = [ks for ks in seen.values() if len(ks) > 1]
    if wrong or merged or len(np.unique(L)) != K:
        return '%d events carry a label different from the rest of their subpopulation; subpopulations sharing a label: %s; %d labels for %d ' \
               'subpopulations' % (wrong, merged, len(np.unique(L)), K)
    return None


@replayer('C02.beads')
def r_c02(tmp, inp):
    import FlowCal
    import FlowCal.mef
    import gen_fcs
    K = int(inp['K'])
    R = int(inp['R'])
    X, gen = _c02_sample(inp)
    names = [c['name'] for c in inp['file_channels']]
    D = len(names)
    dt = inp['datatype']
    sub = os.path.join(tmp, 'c02_%d' % (abs(hash(repr(sorted(inp.items(), key=lambda kv: kv[0])))) % 10 ** 9))
    os.makedirs(sub, exist_ok=True)
    path = os.path.join(sub, 'beads.fcs')
    rows = X.tolist() if dt != 'I' else [[int(v) for v in r] for r in X]
    gen_fcs.write_fcs(path, rows, names=names, datatype=dt, ranges=[R] * D, widths=([32] * D if dt == 'I' else None))
    d = FlowCal.io.FCSData(path)
    os.remove(path)
    mef_channels = list(inp['mef_channels'])
    fl = {c['name']: c for c in inp['file_channels'] if c['kind'] == 'fl'}
    nanform = inp.get('unknown_as', 'None')
    mef_values = []
    for ch in mef_channels:
        vals = []
        for v in fl[ch]['mef']:
            vals.append((None if nanform == 'None' else float('nan')) if v is None else float(v))
        mef_values.append(vals)
    stat = inp.get('statistic', 'median')
    kw = {}
    if stat == 'mean':
        kw['statistic_fxn'] = FlowCal.stats.mean
    if inp.get('clustering_channels') is not None:
        kw['clustering_channels'] = list(inp['clustering_channels'])
    single = bool(inp.get('single_channel_form')) and len(mef_channels) == 1

    def run(data):
        np.random.seed(int(inp['np_seed']))
        if single:
            return call(FlowCal.mef.get_transform_fxn, data, mef_values[0], mef_channels[0], full_output=True, plot=False, verbose=False, **kw)
        return call(FlowCal.mef.get_transform_fxn, data, [list(v) for v in mef_values], list(mef_channels), full_output=True,
                    plot=False, verbose=False, **kw)

    res = run(d)
    if res[0] == 'raise':
        return True, '[raised] %s: %s' % (type(res[1]).__name__, res[1])
    out = res[1]
    N = d.shape[0]
    labels = out.clustering['labels']
    if len(labels) != N:
        return True, '[inconsistent-output] %d labels for %d events' % (len(labels), N)
    g = _grouping(labels, gen, K)
    if g:
        return True, '[grouping] labels do not follow the generating subpopulations: ' + g
    A = np.asarray(d, dtype=float)
    Anat = np.asarray(d)                     # native dtype: the statistic of float32 events is a float32
    sfun = np.median if stat == 'median' else np.mean
    if len(out.statistic['values']) != len(mef_channels) or len(out.selection['rfi']) != len(mef_channels) \
            or len(out.selection['mef']) != len(mef_channels) or len(out.fitting['std_crv']) != len(mef_channels):
        return True, '[inconsistent-output] %d channels calibrated, %d statistics, %d/%d selections, %d curves' % (
            len(mef_channels), len(out.statistic['values']), len(out.selection['rfi']), len(out.selection['mef']), len(out.fitting['std_crv']))
    curves = []
    for ci, ch in enumerate(mef_channels):
        c = fl[ch]
        col = names.index(ch)
        true_stat = np.array([sfun(Anat[gen == k, col]) for k in range(K)])
        sv = np.asarray(out.statistic['values'][ci], dtype=float)
        if sv.shape != (K,):
            return True, '[inconsistent-output] channel %s: %d statistics for %d subpopulations' % (ch, sv.size, K)
        srfi = np.asarray(out.selection['rfi'][ci], dtype=float)
        smef = np.asarray(out.selection['mef'][ci], dtype=float)
        if srfi.shape != smef.shape:
            return True, '[inconsistent-output] channel %s: %d selected rfi values, %d selected mef values' % (ch, srfi.size, smef.size)
        if not np.allclose(sv, true_stat, rtol=1e-6, atol=1e-9):
            return True, '[statistic-order] channel %s: reported %s per subpopulation %s is not the true one in order of increasing ' \
                         'brightness %s' % (ch, stat, sv.tolist(), true_stat.tolist())
        part = [k for k in range(K) if c['mef'][k] is not None and c['state'][k] == 'ok']
        want_mef = np.array([float(c['mef'][k]) for k in part])
        want_rfi = true_stat[part]
        if srfi.shape != want_rfi.shape or not np.allclose(smef, want_mef, rtol=0, atol=0) or not np.allclose(srfi, want_rfi, rtol=1e-6):
            # which populations take part according to the workflow?
            took = []
            for r_ in srfi:
                j = np.nonzero(np.isclose(true_stat, r_, rtol=1e-6))[0]
                took.append(int(j[0]) if len(j) else None)
            return True, '[selection] channel %s: subpopulations %s should take part (unknown: %s, piled up at a limit: %s) with values %s; ' \
                         'the workflow used subpopulations %s with values %s' % (
                             ch, part, [k for k in range(K) if c['mef'][k] is None], [k for k in range(K) if c['state'][k] != 'ok'],
                             want_mef.tolist(), took, smef.tolist())
        sc = out.fitting['std_crv'][ci]
        lo, hi = float(np.min(want_rfi)), float(np.max(want_rfi))
        x = np.logspace(math.log10(lo), math.log10(hi), 100)
        got = np.asarray(sc(x), dtype=float)
        exp_fit = FlowCal.mef.fit_beads_autofluorescence(want_rfi, want_mef)[0]
        ef = np.asarray(exp_fit(x), dtype=float)
        if not np.allclose(got, ef, rtol=1e-6):
            return True, '[differs-from-fit-to-true-statistics] channel %s: curve differs from the fit to the true %ss by up to %.3g' % (
                ch, stat, float(np.nanmax(np.abs(got / ef - 1))))
        if len(part) >= 5:
            true = math.exp(float(c['b'])) * x ** float(c['m'])
            rel = np.abs(got / true - 1)
            if not np.all(rel <= 0.10):
                i = int(np.nanargmax(np.where(np.isnan(rel), np.inf, rel)))
                return True, '[conversion-off] channel %s: at rfi %r the conversion gives %r MEF, the true law (m=%r, b=%r) gives %r ' \
                             '(%.1f%% off); fitted %s' % (ch, x[i], got[i], c['m'], c['b'], true[i], 100 * rel[i],
                                                            np.asarray(out.fitting['beads_params'][ci]).tolist())
        curves.append(got)
    # the transformation function applies each channel's own curve
    tr = call(out.transform_fxn, d, list(mef_channels))
    if tr[0] == 'raise':
        return True, '[raised] transformation function: %r' % (tr[1],)
    Tm = np.asarray(tr[1], dtype=float)
    for ci, ch in enumerate(mef_channels):
        col = names.index(ch)
        w = np.asarray(out.fitting['std_crv'][ci](A[:, col]), dtype=float)
        if not np.allclose(Tm[:, col], w, rtol=1e-6, atol=1e-9):
            return True, '[transform-differs-from-curve] channel %s: the transformation function does not apply that channel\'s curve' % ch
    for col in range(D):
        if names[col] not in mef_channels and not np.array_equal(Tm[:, col], A[:, col]):
            return True, '[transform-differs-from-curve] uncalibrated channel %s changed' % names[col]
    # reproducible for a fixed seed
    res2 = run(d)
    if res2[0] == 'raise':
        return True, '[not-reproducible] second run raised %r' % (res2[1],)
    if not np.array_equal(np.asarray(res2[1].clustering['labels']), np.asarray(labels)):
        return True, '[not-reproducible] labels differ between two runs with the same seed'
    for ci in range(len(mef_channels)):
        if not np.array_equal(np.asarray(res2[1].fitting['beads_params'][ci]), np.asarray(out.fitting['beads_params'][ci])):
            return True, '[not-reproducible] fitted parameters differ between two runs with the same seed'
    # insensitive to the order of events
    prs = np.random.RandomState(int(inp['event_seed']) + 7919)
    perm = prs.permutation(N)
    res3 = run(d[perm])
    if res3[0] == 'raise':
        return True, '[order-dependent] permuted sample raised %r' % (res3[1],)
    g3 = _grouping(res3[1].clustering['labels'], gen[perm], K)
    if g3:
        return True, '[order-dependent] after permuting the events the labels do not follow the subpopulations: ' + g3
    for ci, ch in enumerate(mef_channels):
        lo = float(np.min(out.selection['rfi'][ci]))
        hi = float(np.max(out.selection['rfi'][ci]))
        x = np.logspace(math.log10(lo), math.log10(hi), 100)
        a = np.asarray(res3[1].fitting['std_crv'][ci](x), dtype=float)
        # same grouping => same medians; means of float32 events depend on the summation order in the last digits, and the
        # optimiser amplifies that to ~1e-6: a change is only a change beyond 1e-4
        if not np.allclose(a, curves[ci], rtol=1e-4):
            return True, '[order-dependent] channel %s: conversion changes by up to %.3g when the events are permuted' % (
                ch, float(np.nanmax(np.abs(a / curves[ci] - 1))))
    return False, 'agrees'


@replayer('C02.selection')
def r_c02_sel(tmp, inp):
    """selection_std is a query: the list of populations and the samples in it (values, ranges) are the caller's"""
    import FlowCal
    import FlowCal.mef
    scale = inp['scale']
    pops = []
    for k, vals in enumerate(inp['pops']):
        v = [fnum(x) for x in vals]
        if inp['container'] == 'FCSData':
            sub = os.path.join(tmp, 'sel_%d' % k)
            os.makedirs(sub, exist_ok=True)
            d = make_fcs(sub, [[x] for x in v], {'channels': ['FL1-H'], 'range': [[fnum(inp['range'][0]), fnum(inp['range'][1])]],
                                                 'resolution': [int(inp.get('resolution', 1024))]})
            pops.append(d[:, 'FL1-H'] if inp.get('one_dim', True) else d)
        else:
            pops.append(np.array(v, dtype=float))
    kw = {'scale': scale}
    if inp.get('low') is not None:
        kw['low'] = fnum(inp['low'])
    if inp.get('high') is not None:
        kw['high'] = fnum(inp['high'])
    if inp['container'] != 'FCSData' and ('low' not in kw or 'high' not in kw):
        return False, 'plain arrays need thresholds: outside the quantifier'
    ids = [id(p) for p in pops]
    keep = list(pops)
    vals0 = [np.array(p, dtype=float).copy() for p in pops]
    rng0 = [copy.deepcopy(getattr(p, '_range', None)) for p in pops]
    res = call(FlowCal.mef.selection_std, pops, **kw)
    if res[0] == 'raise':
        return False, 'raised %r: not decisive for this clause' % (res[1],)
    for i, p in enumerate(keep):
        if not np.array_equal(np.asarray(p, dtype=float), vals0[i]):
            return True, '[population-events-modified] scale=%s: events of population %d changed' % (scale, i)
        if repr(getattr(p, '_range', None)) != repr(rng0[i]):
            return True, '[population-range-modified] scale=%s: range of population %d changed from %r to %r' % (scale, i, rng0[i], p._range)
    if len(pops) != len(keep) or [id(p) for p in pops] != ids:
        ch = [i for i, (a, b) in enumerate(zip(pops, keep)) if a is not b]
        same = len(pops) == len(keep) and all(np.array_equal(np.asarray(a, dtype=float), v) for a, v in zip(pops, vals0))
        if same:
            return True, '[population-list-entries-replaced-by-copies] scale=%s: entries %s of the caller\'s list were replaced by copies ' \
                         'with equal values' % (scale, ch)
        i = [k for k in range(min(len(pops), len(keep))) if not np.array_equal(np.asarray(pops[k], dtype=float), vals0[k])][0]
        return True, '[population-list-modified] scale=%s: entries %s of the caller\'s list were replaced; entry %d now starts %s, was %s' % (
            scale, ch, i, np.asarray(pops[i], dtype=float).ravel()[:3].tolist(), vals0[i].ravel()[:3].tolist())
    m = np.asarray(res[1])
    if m.shape != (len(keep),) or m.dtype != bool:
        return True, '[inconsistent-output] mask %r for %d populations' % (m.tolist(), len(keep))
    return False, 'arguments untouched'
