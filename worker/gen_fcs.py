"""Independent writer of synthetic FCS 2.0/3.0/3.1 files (does not use FlowCal). Runs under any python with numpy."""
import struct

import numpy as np


def _pack_int(value, nbytes, big):
    return int(value).to_bytes(nbytes, 'big' if big else 'little')


def encode_text(pairs, delim='/'):
    """FCS escaping rule: delimiter inside a keyword/value is doubled."""
    out = [delim]
    for k, v in pairs:
        out.append(str(k).replace(delim, delim * 2))
        out.append(delim)
        out.append(str(v).replace(delim, delim * 2))
        out.append(delim)
    return ''.join(out)


def encode_data(data, datatype, widths, big):
    """data: list of rows of python numbers. widths in bits. Returns bytes."""
    buf = bytearray()
    for row in data:
        for v, w in zip(row, widths):
            if datatype == 'I':
                buf += _pack_int(v, w // 8, big)
            elif datatype == 'F':
                buf += struct.pack('>f' if big else '<f', float(v))
            elif datatype == 'D':
                buf += struct.pack('>d' if big else '<d', float(v))
            else:
                raise ValueError(datatype)
    return bytes(buf)


def build_fcs(data, names=None, version='FCS3.0', datatype='D', byteord=None, widths=None, ranges=None,
              offsets_in='header', end_convention='last', pad_text=0, pad_data=0, extra=None, delim='/',
              mode='L', drop_keywords=(), amplification=None, gains=None, voltages=None, labels=None,
              text_after_data=False, analysis=None, nextdata='0', tot=None, par=None,
              stext=None, stext_leading_delim=True, analysis_in='header', empty_data='legacy', trailer=b'',
              analysis_leading_delim=True):
    """Returns the bytes of an FCS file. `data`: N rows x D numbers.

    Later additions (defaults keep the earlier byte-for-byte output):
    stext: list of pairs written as a supplemental TEXT segment after everything else ($BEGINSTEXT/$ENDSTEXT set,
           fixed-width); stext_leading_delim=False omits its optional first delimiter.
    analysis_in: 'header' (offsets only in HEADER), 'text' ($BEGINANALYSIS/$ENDANALYSIS only), 'both'.
    empty_data: 'legacy' (N=0: end = begin / begin+1) or 'exact' (N=0: 'last' -> end = begin-1, 'onepast' -> end = begin).
    trailer: bytes appended after the last segment (e.g. the optional 8-character CRC).
    The info dict also carries 'pairs' (primary TEXT as rendered), 'stext_begin', 'stext_end', 'delim', 'length'."""
    data = [list(r) for r in data]
    N = len(data)
    D = len(data[0]) if N else (len(names) if names else (len(widths) if widths else 1))
    if names is None:
        names = ['CH%d' % (i + 1) for i in range(D)]
    if widths is None:
        widths = [{'I': 16, 'F': 32, 'D': 64}[datatype]] * D
    if ranges is None:
        ranges = [2 ** w if datatype == 'I' else 262144 for w in widths]
    if byteord is None:
        byteord = '4,3,2,1'
    big = byteord in ('4,3,2,1', '2,1')
    databytes = encode_data(data, datatype, widths, big)
    an_text = bool(analysis) and analysis_in in ('text', 'both')
    pairs = [('$BEGINANALYSIS', '%BA%' if an_text else '0'), ('$ENDANALYSIS', '%EA%' if an_text else '0'),
             ('$BEGINSTEXT', '%BS%' if stext else '0'), ('$ENDSTEXT', '%ES%' if stext else '0'),
             ('$BEGINDATA', '%BD%'), ('$ENDDATA', '%ED%'),
             ('$BYTEORD', byteord), ('$DATATYPE', datatype), ('$MODE', mode), ('$NEXTDATA', nextdata),
             ('$PAR', str(D if par is None else par)), ('$TOT', str(N if tot is None else tot))]
    for i in range(D):
        p = i + 1
        pairs.append(('$P%dB' % p, str(widths[i])))
        pairs.append(('$P%dE' % p, amplification[i] if amplification and amplification[i] is not None else '0,0'))
        pairs.append(('$P%dN' % p, names[i]))
        pairs.append(('$P%dR' % p, str(ranges[i])))
        if gains and gains[i] is not None:
            pairs.append(('$P%dG' % p, str(gains[i])))
        if voltages and voltages[i] is not None:
            pairs.append(('$P%dV' % p, str(voltages[i])))
        if labels and labels[i] is not None:
            pairs.append(('$P%dS' % p, str(labels[i])))
    if amplification is not None:
        pairs = [(k, v) for (k, v) in pairs if not (k.startswith('$P') and k.endswith('E') and amplification[int(k[2:-1]) - 1] is None)]
    for k, v in (extra or []):
        pairs = [(kk, vv) for (kk, vv) in pairs if kk != k]
        pairs.append((k, v))
    pairs = [(k, v) for (k, v) in pairs if k not in drop_keywords]
    # fixed-width offsets so that the text length does not depend on them
    def render_pairs(bd, ed, ba=0, ea=0, bs=0, es=0):
        sub = {'%BD%': bd, '%ED%': ed, '%BA%': ba, '%EA%': ea, '%BS%': bs, '%ES%': es}
        return [(k, ('%010d' % sub[v]) if v in sub else v) for k, v in pairs]

    def render(bd, ed, ba=0, ea=0, bs=0, es=0):
        return encode_text(render_pairs(bd, ed, ba, ea, bs, es), delim).encode('latin-1')
    text0 = render(0, 0)
    header_len = 58
    analysis_bytes = encode_text(analysis, delim).encode('latin-1') if analysis else b''
    if analysis_bytes and not analysis_leading_delim:
        analysis_bytes = analysis_bytes[1:]          # the first delimiter of a non-primary segment is optional for the reader
    if not text_after_data:
        text_begin = header_len + 0
        text_end = text_begin + len(text0) - 1
        data_begin = text_end + 1 + pad_text
        data_end_last = data_begin + len(databytes) - 1
    else:
        data_begin = header_len + pad_text
        data_end_last = data_begin + len(databytes) - 1
        text_begin = data_end_last + 1 + pad_data
        text_end = text_begin + len(text0) - 1
    if len(databytes) == 0 and empty_data == 'legacy':
        data_end_last = data_begin      # empty DATA: offsets cannot describe zero bytes; callers avoid N=0 with 'last'
    data_end = data_end_last if end_convention == 'last' else data_end_last + 1
    if offsets_in == 'header':
        hb, he = data_begin, data_end
    else:
        hb, he = 0, 0
    if hb > 99999999 or he > 99999999:
        hb, he = 0, 0
    an_b = an_e = 0
    body_end = max(text_end, data_end_last if len(databytes) else text_end)
    if analysis_bytes:
        an_b = body_end + 1 + pad_data
        an_e = an_b + len(analysis_bytes) - 1
    st_b = st_e = 0
    stext_bytes = b''
    if stext:
        stext_bytes = encode_text(stext, delim).encode('latin-1')
        if not stext_leading_delim:
            stext_bytes = stext_bytes[1:]
        st_b = max(body_end, an_e) + 1 + pad_data
        st_e = st_b + len(stext_bytes) - 1
    text = render(data_begin, data_end, an_b, an_e, st_b, st_e)
    assert len(text) == len(text0)
    rendered_pairs = render_pairs(data_begin, data_end, an_b, an_e, st_b, st_e)
    h_an_b, h_an_e = (an_b, an_e) if analysis_in in ('header', 'both') else (0, 0)
    header = ('%-10s%8d%8d%8d%8d%8d%8d' % (version, text_begin, text_end, hb, he, h_an_b, h_an_e)).encode('latin-1')
    assert len(header) == 58
    total = max(text_end, data_end_last if len(databytes) else 0, an_e, st_e) + 1
    buf = bytearray(b' ' * total)
    buf[0:58] = header
    buf[text_begin:text_end + 1] = text
    if len(databytes):
        buf[data_begin:data_begin + len(databytes)] = databytes
    if analysis_bytes:
        buf[an_b:an_e + 1] = analysis_bytes
    if stext_bytes:
        buf[st_b:st_e + 1] = stext_bytes
    buf += bytes(trailer)
    return bytes(buf), {'text_begin': text_begin, 'text_end': text_end, 'data_begin': data_begin,
                        'data_end': data_end, 'N': N, 'D': D, 'widths': widths, 'big': big,
                        'analysis_begin': an_b, 'analysis_end': an_e, 'stext_begin': st_b, 'stext_end': st_e,
                        'pairs': rendered_pairs, 'delim': delim, 'length': len(buf), 'data_nbytes': len(databytes)}


def write_fcs(path, data, **kw):
    b, info = build_fcs(data, **kw)
    with open(path, 'wb') as f:
        f.write(b)
    return info


def load_sample(tmpdir, data, names=None, datatype='D', ranges=None, amplification=None, gains=None, **kw):
    """write + FlowCal.io.FCSData(path); used by replays that need a loaded sample with given values"""
    import os
    import FlowCal
    p = os.path.join(tmpdir, 'sample_%d.fcs' % (abs(hash(repr(data))) % 10 ** 9))
    write_fcs(p, data, names=names, datatype=datatype, ranges=ranges, amplification=amplification, gains=gains, **kw)
    return FlowCal.io.FCSData(p)
