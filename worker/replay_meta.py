"""Replayers (concrete oracles written from the property statements) for
   C12.stats  - summary statistics equal their textbook definitions for any container and channel form
   C17.meta   - acquisition metadata reflects the file's keywords and never blocks loading
   C19.bins   - histogram bin edges are increasing, complete and centred on channel values
Every expectation is computed here from the inputs alone (pure Python / NumPy primitives); FlowCal is only the
system under test.  Generators: gens_meta.py."""
import datetime
import math
import os

import numpy as np

from replay import replayer, fnum, call
import gen_fcs

# ====================================================================================================== C12
GEOMETRIC = ('gmean', 'gstd', 'gcv')
STATS = ('mean', 'gmean', 'median', 'mode', 'std', 'cv', 'gstd', 'gcv', 'iqr', 'rcv')


def _t_mean(v):
    return math.fsum(v) / len(v)


def _t_std(v):
    """population standard deviation (root of the mean squared deviation from the mean)"""
    m = _t_mean(v)
    return math.sqrt(math.fsum((x - m) ** 2 for x in v) / len(v))


def _t_median(v):
    s = sorted(v)
    n = len(s)
    return s[n // 2] if n % 2 else (s[n // 2 - 1] + s[n // 2]) / 2.0


def _t_percentile(v, q):
    """q-th percentile, linear interpolation between the order statistics (position (n-1)q/100)"""
    s = sorted(v)
    h = (len(s) - 1) * q / 100.0
    lo = int(math.floor(h))
    hi = min(lo + 1, len(s) - 1)
    return s[lo] + (h - lo) * (s[hi] - s[lo])


def _t_modes(v):
    cnt = {}
    for x in v:
        cnt[x] = cnt.get(x, 0) + 1
    m = max(cnt.values())
    return sorted(x for x, c in cnt.items() if c == m)


def textbook(stat, v):
    """definition of `stat` for the list of floats v; None when the definition does not apply (division by zero,
    logarithm of a non-positive value): such inputs are outside the quantifier.  mode -> list of admissible values"""
    v = [float(x) for x in v]
    if stat in GEOMETRIC and any(x <= 0 for x in v):
        return None
    if stat == 'mean':
        return _t_mean(v)
    if stat == 'gmean':
        return math.exp(_t_mean([math.log(x) for x in v]))
    if stat == 'median':
        return _t_median(v)
    if stat == 'mode':
        return _t_modes(v)
    if stat == 'std':
        return _t_std(v)
    if stat == 'cv':
        m = _t_mean(v)
        return None if m == 0 else _t_std(v) / m
    if stat == 'gstd':
        return math.exp(_t_std([math.log(x) for x in v]))
    if stat == 'gcv':
        return math.sqrt(math.expm1(_t_std([math.log(x) for x in v]) ** 2))
    if stat == 'iqr':
        return _t_percentile(v, 75) - _t_percentile(v, 25)
    if stat == 'rcv':
        m = _t_median(v)
        return None if m == 0 else (_t_percentile(v, 75) - _t_percentile(v, 25)) / m
    raise KeyError(stat)


def c12_container(tmp, inp):
    """-> (container handed to FlowCal, channel names or None)"""
    import FlowCal
    rows = [[fnum(x) for x in r] for r in inp['data']]
    D = len(rows[0])
    kind, dt = inp['container'], inp['dtype']
    names = inp.get('names') or ['FSC-H', 'SSC-H', 'FL1-H', 'FL2-H', 'FL3-H'][:D]
    if kind == 'ndarray':
        return np.array(rows, dtype=np.dtype(dt)), None
    if dt in ('F', 'D'):
        kw = {'datatype': dt}
    else:
        w = int(dt[1:])
        kw = {'datatype': 'I', 'widths': [w] * D, 'ranges': [int(r) for r in inp['ranges']] if inp.get('ranges') else None}
    d = gen_fcs.load_sample(tmp, rows, names=names, amplification=inp.get('amp'), gains=inp.get('gains'), **kw)
    if kind == 'fcs-rfi':
        d = FlowCal.transform.to_rfi(d)
    return d, names


def _close(got, exp, rtol, atol=1e-12):
    return abs(got - exp) <= rtol * abs(exp) + atol


@replayer('C12.stats')
def r_c12(tmp, inp):
    import FlowCal
    stat = inp['stat']
    data, names = c12_container(tmp, inp)
    X = np.asarray(data)
    N, D = X.shape
    ch = inp['channels']

    def resolve(c):
        if isinstance(c, str):
            return names.index(c) if (names and c in names) else None
        return c + D if -D <= c < 0 else (c if 0 <= c < D else None)
    if ch is None:
        cols, vector = list(range(D)), True
    elif isinstance(ch, list):
        cols, vector = [resolve(c) for c in ch], True
    else:
        cols, vector = [resolve(ch)], False
    if any(c is None for c in cols) or len(set(cols)) != len(cols) or not cols:
        return False, 'invalid or repeated channel: outside the quantifier'
    # textbook value of every requested channel, from that channel's values alone
    exp = [textbook(stat, [float(x) for x in X[:, c].tolist()]) for c in cols]
    if any(e is None for e in exp):
        return False, 'definition not applicable (non-positive value for a geometric statistic / zero denominator): outside the quantifier'
    fn = getattr(FlowCal.stats, stat)
    before = X.copy()
    res = call(fn, data) if ch is None else call(fn, data, ch)
    where = '%s(%s %s, channels=%r)' % (stat, inp['container'], inp['dtype'], ch)
    if res[0] == 'raise':
        if stat == 'mode' and not vector:
            tag = 'mode-single-channel-raises'
        elif stat in ('iqr', 'rcv') and inp['container'] != 'ndarray' and X.dtype.kind == 'f':
            tag = '%s-float-sample-raises' % stat
        else:
            tag = '%s-raises' % stat
        return True, '[%s] %s raises %s: %s; expected %r' % (tag, where, type(res[1]).__name__, str(res[1])[:80], exp if vector else exp[0])
    out = res[1]
    if not np.array_equal(np.asarray(data), before, equal_nan=True):
        return True, '[%s-changes-events] %s changed the events' % (stat, where)
    O = np.asarray(out)
    if vector:
        if O.ndim != 1 or O.shape[0] != len(cols):
            tag = 'mode-list-returns-first-only' if (stat == 'mode' and O.ndim == 0) else '%s-wrong-shape' % stat
            return True, '[%s] %s returned shape %r, expected one value per requested channel (%d): got %r, expected %r' % (
                tag, where, O.shape, len(cols), O.tolist(), exp)
        got = [float(x) for x in O.tolist()]
    else:
        if O.ndim != 0:
            return True, '[%s-wrong-shape] %s returned shape %r for a single channel, expected a scalar %r' % (stat, where, O.shape, exp[0])
        got = [float(O)]
    # tolerance: relative 1e-6 (integer events are exact and every reduction runs in double precision); float events carry their
    # own rounding e = 64 eps(dtype), which enters the dispersion statistics absolutely (scaled by the magnitude of the values)
    rtol = 1e-6
    e_in = 64 * float(np.finfo(X.dtype).eps) if X.dtype.kind == 'f' else 0.0
    lowp = O.dtype.kind == 'f' and O.dtype.itemsize < 8 and X.dtype.kind in 'iu'

    def atol_for(c, e):
        v = [abs(float(x)) for x in X[:, c].tolist()]
        scale = max(v)
        if stat in ('std', 'iqr'):
            return e_in * scale
        if stat == 'cv':
            return e_in * scale / abs(_t_mean(v)) if _t_mean(v) else 0.0
        if stat == 'rcv':
            return e_in * scale / abs(_t_median(v)) if _t_median(v) else 0.0
        if stat in ('gstd', 'gcv'):
            ds = e_in * max(1.0, max(abs(math.log(x)) for x in v))
            return ds * e if stat == 'gstd' else ds * 4
        return e_in * scale
    for k, (g, e, c) in enumerate(zip(got, exp, cols)):
        if stat == 'mode':
            if g not in e:
                return True, '[mode-not-most-frequent] %s: entry %d (column %d) = %r is not a most frequent value %r' % (where, k, c, g, e)
        elif not (g == g and _close(g, e, rtol, 1e-12 + atol_for(c, e))):
            tag = '%s-narrow-int-low-precision' % stat if lowp else '%s-differs-from-definition' % stat
            return True, '[%s] %s: entry %d (column %d) = %r, textbook value %r (relative error %.3g)%s' % (
                tag, where, k, c, g, e, abs(g - e) / abs(e) if e else abs(g - e),
                '; result computed in %s from %s events' % (O.dtype, X.dtype) if lowp else '')
    # defining identities between the library's own results
    ident = {'cv': ('std', 'mean'), 'rcv': ('iqr', 'median'), 'gcv': ('gstd',)}.get(stat)
    if ident:
        parts = [call(getattr(FlowCal.stats, s), data) if ch is None else call(getattr(FlowCal.stats, s), data, ch) for s in ident]
        if all(p[0] == 'return' for p in parts):
            P = [np.asarray(p[1], dtype=float).reshape(-1) for p in parts]
            if all(len(p) == len(got) for p in P):
                for k in range(len(got)):
                    if stat == 'gcv':
                        if not P[0][k] > 0:
                            continue
                        want = math.sqrt(math.expm1(math.log(P[0][k]) ** 2))
                    else:
                        want = P[0][k] / P[1][k]
                    if not _close(got[k], want, 1e-5, 1e-9 + 4 * atol_for(cols[k], exp[k])):
                        tag = '%s-narrow-int-low-precision' % stat if lowp else '%s-identity-broken' % stat
                        return True, '[%s] %s: identity %s = f(%s) broken: %r vs %r computed from %s%s' % (
                            tag, where, stat, ','.join(ident), got[k], want, '/'.join('%r' % float(p_[k]) for p_ in P),
                            '; results computed in %s from %s events' % (O.dtype, X.dtype) if lowp else '')
    return False, 'equals the textbook definition'


# ====================================================================================================== C17
import re  # noqa: E402

_NUM = re.compile(r'^[+-]?(\d+(\.\d*)?|\.\d+)([eE][+-]?\d+)?$')
_MONTHS = ['jan', 'feb', 'mar', 'apr', 'may', 'jun', 'jul', 'aug', 'sep', 'oct', 'nov', 'dec']


def p_num(s):
    """what a numeric keyword says: its decimal value, or None when it is not a number"""
    if s is None:
        return None
    t = s.strip()
    return float(t) if _NUM.match(t) else None


def p_time(s):
    """'hh:mm:ss', 'hh:mm:ss.cc' (decimal fraction) or 'hh:mm:ss:tt' (tt sixtieths) -> (h, m, s, microseconds) or None"""
    if s is None:
        return None
    f = s.split(':')
    if len(f) not in (3, 4) or not all(re.fullmatch(r'\d{1,2}', x) for x in f[:2]):
        return None
    if len(f) == 3:
        m = re.fullmatch(r'(\d{1,2})(?:\.(\d{1,6}))?', f[2])
        if not m:
            return None
        sec, us = int(m.group(1)), float(int(((m.group(2) or '') + '000000')[:6]))
    else:
        if not re.fullmatch(r'\d{1,2}', f[2]) or not re.fullmatch(r'\d{1,2}', f[3]):
            return None
        sec, tt = int(f[2]), int(f[3])
        if tt > 59:
            return None
        us = tt * 1e6 / 60.0
    h, mi = int(f[0]), int(f[1])
    if h > 23 or mi > 59 or sec > 59:
        return None
    return (h, mi, sec, us)


def p_date(s):
    """set of (y, m, d) the string denotes under dd-mmm-yy, dd-mmm-yyyy, yy-mmm-dd, yyyy-mmm-dd (two-digit years: either century)"""
    out = set()
    if s is None:
        return out
    f = s.split('-')
    if len(f) != 3 or f[1].lower() not in _MONTHS:
        return out
    mon = _MONTHS.index(f[1].lower()) + 1
    a, c = f[0], f[2]
    cands = []
    if re.fullmatch(r'\d{1,2}', a) and re.fullmatch(r'\d{2}', c):
        cands += [(1900 + int(c), int(a)), (2000 + int(c), int(a))]
    if re.fullmatch(r'\d{1,2}', a) and re.fullmatch(r'\d{4}', c):
        cands += [(int(c), int(a))]
    if re.fullmatch(r'\d{2}', a) and re.fullmatch(r'\d{1,2}', c):
        cands += [(1900 + int(a), int(c)), (2000 + int(a), int(c))]
    if re.fullmatch(r'\d{4}', a) and re.fullmatch(r'\d{1,2}', c):
        cands += [(int(a), int(c))]
    for y, d in cands:
        try:
            datetime.date(y, mon, d)
            out.add((y, mon, d))
        except ValueError:
            pass
    return out


def _feq(a, b, rtol=1e-9, atol=1e-9):
    return a is not None and b is not None and abs(a - b) <= rtol * abs(b) + atol


def c17_write(tmp, inp, drop=()):
    rows = [[fnum(x) for x in r] for r in inp['data']]
    p = os.path.join(tmp, 'c17.fcs')
    gen_fcs.write_fcs(p, rows, names=inp['names'], version=inp.get('version', 'FCS3.0'), datatype='I',
                      widths=[16] * len(inp['names']), ranges=[int(r) for r in inp['ranges']], amplification=inp['amp'],
                      extra=[(k, v) for k, v in inp['kw'] if k not in drop])
    return p


@replayer('C17.meta')
def r_c17(tmp, inp):
    import FlowCal
    names = list(inp['names'])
    D = len(names)
    text = {k: v for k, v in inp['kw']}
    path = c17_write(tmp, inp)
    res = call(FlowCal.io.FCSData, path)
    if res[0] == 'raise':
        # which optional keyword blocks loading: drop the ill-formed ones one at a time
        bad = [k for k in ('$TIMESTEP', 'TIMETICKS') if k in text and p_num(text[k]) is None]
        bad += [k for k in ('$BTIM', '$ETIM') if k in text and p_time(text[k]) is None]
        bad += [k for k in ('$DATE',) if k in text and not p_date(text[k])]
        bad += [k for k in text if re.fullmatch(r'\$P\d+[VG]|BD\$WORD\d+|CytekP\d+G', k) and p_num(text[k]) is None]
        culprit = None
        for k in bad:
            if call(FlowCal.io.FCSData, c17_write(tmp, inp, drop=(k,)))[0] == 'return':
                culprit = k
                break
        if culprit is None and not bad:
            return True, '[load-raises-with-well-formed-keywords] loading raises %r with keywords %r' % (res[1], inp['kw'])
        culprit = culprit or bad[0]
        if culprit in ('$TIMESTEP', 'TIMETICKS'):
            tag = '%s-non-numeric-raises' % culprit.strip('$').lower()
        elif culprit in ('$BTIM', '$ETIM'):
            tag = 'time-%d-fields-ill-formed-raises' % len(text[culprit].split(':'))
        elif culprit == '$DATE':
            tag = 'date-ill-formed-raises'
        else:
            tag = 'channel-keyword-ill-formed-raises'
        return True, '[%s] loading raises %s(%s) because of the optional keyword %s=%r; an unparseable optional keyword must give an absent attribute' % (
            tag, type(res[1]).__name__, str(res[1])[:80], culprit, text[culprit])
    d = res[1]
    # ---- channel attributes
    if tuple(d.channels) != tuple(names):
        return True, '[channels-wrong] channels %r, $PnN say %r' % (d.channels, names)
    creator = text.get('CREATOR')
    for i in range(D):
        n = i + 1
        R = int(inp['ranges'][i])
        got = call(d.range, i)
        if got[0] == 'raise' or list(got[1]) != [0.0, float(R - 1)]:
            return True, '[range-wrong] range of channel %d is %r, $P%dR=%d says [0, %d]' % (n, got[1], n, R, R - 1)
        got = call(d.resolution, i)
        if got[0] == 'raise' or got[1] != R:
            return True, '[resolution-wrong] resolution of channel %d is %r, $P%dR says %d' % (n, got[1], n, R)
        e = inp['amp'][i]
        if e is None:
            want = None
        else:
            a0, a1 = [float(x) for x in e.split(',')]
            want = (a0, 1.0 if (a0 != 0 and a1 == 0) else a1)
        got = call(d.amplification_type, i)
        if got[0] == 'raise' or (got[1] is None) != (want is None) or (want is not None and tuple(got[1]) != want):
            return True, '[amplification-wrong] amplification type of channel %d is %r, $P%dE=%r says %r' % (n, got[1], n, e, want)
        got = call(d.channel_labels, i)
        if got[0] == 'raise' or got[1] != text.get('$P%dS' % n):
            return True, '[label-wrong] label of channel %d is %r, $P%dS says %r' % (n, got[1], n, text.get('$P%dS' % n))
        for what, std, fb, vendor, acc in (('detector voltage', '$P%dV' % n, 'BD$WORD%d' % (12 + n), 'CellQuest Pro', d.detector_voltage),
                                           ('amplifier gain', '$P%dG' % n, 'CytekP%02dG' % n, 'FlowJoCollectorsEdition', d.amplifier_gain)):
            fbv = p_num(text.get(fb))
            if std in text:
                ok = [p_num(text[std])]
                if ok[0] is None and fbv is not None and creator is not None and vendor in creator:
                    ok.append(fbv)          # ill-formed standard keyword: absent, or the vendor's value: both readings accepted
            elif fb not in text:
                ok = [None]
            elif creator is not None and vendor in creator:
                ok = [fbv]
            elif creator is None:
                ok = [None, fbv]            # fallback keyword without CREATOR: the property does not decide
            else:
                ok = [None]                 # another vendor's file: the fallback keyword does not apply
            got = call(acc, i)
            if got[0] == 'raise' or not any((got[1] is None and o is None) or (got[1] is not None and o is not None and _feq(got[1], o)) for o in ok):
                tag = what.split()[1] + '-wrong'
                return True, '[%s] %s of channel %d is %r; keywords %s=%r %s=%r CREATOR=%r say %r' % (
                    tag, what, n, got[1], std, text.get(std), fb, text.get(fb), creator, ok)
    # ---- time step
    if '$TIMESTEP' in text:
        ok = [p_num(text['$TIMESTEP'])]
        if ok[0] is None and p_num(text.get('TIMETICKS')) is not None:
            ok.append(p_num(text['TIMETICKS']) / 1000.0)
    elif 'TIMETICKS' in text:
        v = p_num(text['TIMETICKS'])
        ok = [None if v is None else v / 1000.0]
    else:
        ok = [None]
    ts = d.time_step
    if not any((ts is None and o is None) or (ts is not None and o is not None and _feq(ts, o, 1e-12, 0)) for o in ok):
        return True, '[time-step-wrong] time step %r; $TIMESTEP=%r TIMETICKS=%r say %r' % (ts, text.get('$TIMESTEP'), text.get('TIMETICKS'), ok)
    # ---- start / end
    dates = p_date(text.get('$DATE'))
    parsed = {}
    for kw_, attr in (('$BTIM', 'acquisition_start_time'), ('$ETIM', 'acquisition_end_time')):
        want = p_time(text.get(kw_))
        parsed[kw_] = want
        got = getattr(d, attr)
        tag = '%s-wrong' % attr.split('_')[1]
        if want is None:
            if got is not None:
                return True, '[%s] %s is %r although %s=%r is missing or not a time' % (tag, attr, got, kw_, text.get(kw_))
            continue
        if got is None:
            return True, '[%s] %s is absent although %s=%r is a well-formed time' % (tag, attr, kw_, text[kw_])
        if (got.hour, got.minute, got.second) != want[:3] or abs(got.microsecond - want[3]) > 1.0:
            return True, '[%s] %s is %r, %s=%r says %02d:%02d:%02d +%.0f us' % ((tag, attr, got, kw_, text[kw_]) + want)
        if dates:
            if not isinstance(got, datetime.datetime) or (got.year, got.month, got.day) not in dates:
                return True, '[%s] %s is %r: not combined with the date $DATE=%r %r' % (tag, attr, got, text['$DATE'], sorted(dates))
        elif isinstance(got, datetime.datetime):
            return True, '[%s] %s is %r: carries a date although $DATE=%r is missing or not a date' % (tag, attr, got, text.get('$DATE'))
    # ---- acquisition duration
    tch = [i for i, nme in enumerate(names) if nme.lower() == 'time']
    if len(tch) > 1:
        return False, 'two time channels: duration excepted; attributes agree'
    X = np.asarray(d)
    b, e = parsed['$BTIM'], parsed['$ETIM']
    if len(tch) == 1 and ts is not None:
        want, src = [(float(X[-1, tch[0]]) - float(X[0, tch[0]])) * ts], 'time channel x time step'
    elif b is not None and e is not None:
        sec = lambda t: t[0] * 3600 + t[1] * 60 + t[2] + t[3] / 1e6   # noqa: E731
        dt = sec(e) - sec(b)
        want, src = [dt] + ([dt + 86400.0] if dt < 0 else []), '$ETIM - $BTIM'
    else:
        want, src = [None], 'no source'
    got = call(lambda: d.acquisition_time)
    if got[0] == 'raise':
        if len(tch) == 1 and ts is None:
            tag = 'acqtime-time-channel-without-timestep-raises'
        elif not tch and not dates:
            tag = 'acqtime-btim-etim-without-date-raises'
        else:
            tag = 'acqtime-raises'
        return True, '[%s] acquisition_time raises %s(%s); time channels %r, time step %r, $BTIM=%r $ETIM=%r $DATE=%r: expected %r (%s)' % (
            tag, type(got[1]).__name__, str(got[1])[:70], [names[i] for i in tch], ts, text.get('$BTIM'), text.get('$ETIM'),
            text.get('$DATE'), want[0], src)
    g = got[1]
    if not any((g is None and w is None) or (g is not None and w is not None and _feq(float(g), w, 1e-9, 2e-6)) for w in want):
        return True, '[acqtime-wrong] acquisition_time is %r, expected %r (%s)' % (g, want, src)
    return False, 'attributes equal what the keywords say'


# ====================================================================================================== C19
def _logicle_p(W):
    """p >= 1 with W = 2 p log10(p) / (p + 1) (bisection)"""
    if W == 0:
        return 1.0
    lo, hi = 1.0, 10.0 ** W + 1.0
    for _ in range(200):
        mid = (lo + hi) / 2
        if 2 * mid * math.log10(mid) / (mid + 1) < W:
            lo = mid
        else:
            hi = mid
    return (lo + hi) / 2


def _logicle(s, T, M, W, p):
    s = np.asarray(s, dtype=float)
    return T * 10 ** (-(M - W)) * (10 ** (s - W) - p * p * 10 ** (-(s - W) / p) + p * p - 1)


def _logicle_inv(x, T, M, W, p):
    """display coordinate of every data value x (vectorised bisection; nan where outside the bracket)"""
    x = np.asarray(x, dtype=float)
    lo = np.full(x.shape, -(M + W + 3.0))
    hi = np.full(x.shape, 2 * M + W + 3.0)
    bad = (_logicle(lo, T, M, W, p) > x) | (_logicle(hi, T, M, W, p) < x)
    for _ in range(70):
        mid = (lo + hi) / 2
        below = _logicle(mid, T, M, W, p) < x
        lo = np.where(below, mid, lo)
        hi = np.where(below, hi, mid)
    out = (lo + hi) / 2
    out[bad] = np.nan
    return out


def c19_sample(tmp, inp):
    import FlowCal
    R = [int(r) for r in inp['R']]
    D = len(R)
    names = inp.get('names') or ['FSC-H', 'SSC-H', 'FL1-H', 'FL2-H'][:D]
    rows = inp.get('events') or [[0] * D, [min(R) - 1] * D, [min(R) // 2] * D]
    rows = [[fnum(x) for x in r] for r in rows]
    if inp.get('datatype', 'I') == 'I':
        d = gen_fcs.load_sample(tmp, rows, names=names, datatype='I', widths=[32] * D, ranges=R, amplification=inp['amp'],
                                gains=inp.get('gains'))
    else:
        d = gen_fcs.load_sample(tmp, rows, names=names, datatype='D', ranges=R, amplification=inp['amp'], gains=inp.get('gains'))
    conv = inp.get('convert')
    if conv in ('rfi', 'mef'):
        d = FlowCal.transform.to_rfi(d)
    if conv == 'mef':
        m_, b_ = fnum(inp['mef']['m']), fnum(inp['mef']['b'])
        d = FlowCal.transform.to_mef(d, list(names), [lambda x: np.exp(b_) * x ** m_] * D, list(names))
    return d, names


def c19_edges(e, n, scale, lo, hi, R, kwargs, events, centred):
    """the clauses for one channel; -> (tag, message) or None"""
    e = np.asarray(e)
    if e.ndim != 1 or e.shape[0] != n + 1:
        return 'edge-count', 'shape %r, expected %d edges for %d bins' % (e.shape, n + 1, n)
    e = e.astype(float)
    if not np.all(np.isfinite(e)):
        return 'edges-not-finite', 'non-finite edge at index %d' % int(np.argmin(np.isfinite(e)))
    if not np.all(np.diff(e) > 0):
        k = int(np.argmin(np.diff(e) > 0))
        return 'edges-not-increasing', 'edge %d = %r is not below edge %d = %r' % (k, e[k], k + 1, e[k + 1])
    if scale == 'log' and e[0] <= 0:
        return 'log-edge-not-positive', 'first log edge %r' % e[0]
    cover_lo, cover_hi = True, True
    if scale == 'log' and lo <= 0:
        cover_lo = False                      # zero has no place on a log axis: only positivity is required below
    if scale == 'logicle':
        T, M = kwargs.get('T'), kwargs.get('M')
        if (T is not None and T < hi) or (M is not None and M < 4.5):
            cover_hi = False                  # the caller asked for a smaller display range
    if (cover_lo and e[0] > lo) or (cover_hi and e[-1] < hi):
        return 'range-not-covered', 'edges span [%r, %r], channel range is [%r, %r]' % (e[0], e[-1], lo, hi)
    if scale == 'logicle':
        T = float(kwargs['T']) if kwargs.get('T') is not None else float(hi)
        M = float(kwargs['M']) if kwargs.get('M') is not None else max(4.5, 4.5 / math.log10(262144) * math.log10(T))
        if kwargs.get('W') is not None:
            W = float(kwargs['W'])
        else:
            neg = [v for v in events if v < 0]
            W = max(0.0, (M - math.log10(T / abs(min(neg)))) / 2) if neg else 0.0
        p = _logicle_p(W)
        idx = np.unique(np.round(np.linspace(0, n, min(n + 1, 257))).astype(int))
        s = _logicle_inv(e[idx], T, M, W, p)
        if np.any(np.isnan(s)):
            return 'logicle-grid-not-uniform', 'edge %r is not the image of a display coordinate in [-M-W-3, 2M+W+3] (T=%r M=%r W=%r)' % (
                e[idx][int(np.argmax(np.isnan(s)))], T, M, W)
        grid = s[0] + (s[-1] - s[0]) * idx / float(n)
        dev = float(np.max(np.abs(s - grid)))
        if dev > 1e-6 * max(1.0, M):
            return 'logicle-grid-not-uniform', 'display coordinates of the edges deviate from a uniform grid by %.3g (T=%r M=%r W=%r)' % (dev, T, M, W)
    if centred is not None:
        if n != R:
            return 'default-bin-count', 'default bin count %d, channel has %d representable values' % (n, R)
        if centred[0] == 'linear':
            c = (e[:-1] + e[1:]) / 2
            want = np.arange(R, dtype=float)
        else:
            c = (np.log10(e[:-1]) + np.log10(e[1:])) / 2
            a0, a1 = centred[1], centred[2]
            want = math.log10(a1) + a0 * np.arange(R, dtype=float) / R
        dev = np.abs(c - want)
        if float(np.max(dev)) > 1e-7 * max(1.0, float(np.max(np.abs(want)))):
            k = int(np.argmax(dev))
            return 'default-bins-not-centred', 'value #%d (%r) is not at the centre %r of bin %d (%s scale)' % (k, want[k], c[k], k, centred[0])
    return None


@replayer('C19.bins')
def r_c19(tmp, inp):
    d, names = c19_sample(tmp, inp)
    D = len(names)
    ch, nb, sc = inp['channels'], inp['nbins'], inp['scale']
    kwargs = {k: fnum(v) for k, v in (inp.get('kwargs') or {}).items() if v is not None}

    def resolve(c):
        if isinstance(c, str):
            return names.index(c) if c in names else None
        return c + D if -D <= c < 0 else (c if 0 <= c < D else None)
    aslist = ch is None or isinstance(ch, list)
    chl = list(range(D)) if ch is None else (list(ch) if isinstance(ch, list) else [ch])
    cols = [resolve(c) for c in chl]
    if any(c is None for c in cols) or not cols:
        return False, 'invalid channel: outside the quantifier'
    nbl = list(nb) if isinstance(nb, list) else [nb] * len(cols)
    scl = list(sc) if isinstance(sc, list) else [sc] * len(cols)
    if len(nbl) != len(cols) or len(scl) != len(cols):
        return False, 'per-channel list of another length: outside the quantifier'
    if any(n is not None and n < 1 for n in nbl):
        return False, 'bin count < 1: outside the quantifier'
    where = 'hist_bins(%r, %r, %r%s) R=%r amp=%r convert=%r' % (ch, nb, sc, ''.join(', %s=%r' % kv for kv in sorted(kwargs.items())),
                                                               inp['R'], inp['amp'], inp.get('convert'))
    X0 = np.asarray(d).copy()
    rng0 = [list(r) for r in d.range()]
    res0 = list(d.resolution())
    work = d.copy()
    res = call(work.hist_bins, ch, nb, sc, **kwargs)
    if any(s not in ('linear', 'log', 'logicle') for s in scl):
        if res[0] != 'raise':
            return True, '[unknown-scale-accepted] %s returned instead of refusing the scale' % where
        return False, 'unknown scale refused'
    if res[0] == 'raise':
        return True, '[hist-bins-raises] %s raises %s(%s)' % (where, type(res[1]).__name__, str(res[1])[:80])
    out = res[1]
    if aslist:
        if not isinstance(out, list) or len(out) != len(cols):
            return True, '[result-form] %s returned %s of %s entries, expected a list with one array per channel (%d)' % (
                where, type(out).__name__, len(out) if hasattr(out, '__len__') else '?', len(cols))
        outs = out
    else:
        if isinstance(out, list):
            return True, '[result-form] %s returned a list for a single channel' % where
        outs = [out]
    for k, c in enumerate(cols):
        lo, hi = rng0[c]
        R = res0[c]
        n = R if nbl[k] is None else int(nbl[k])
        a = inp['amp'][c]
        a0, a1 = ([float(x) for x in a.split(',')] if a else (0.0, 0.0))
        if a0 != 0 and a1 == 0:
            a1 = 1.0
        centred = None
        if nbl[k] is None:
            if scl[k] == 'linear' and not inp.get('convert') and inp.get('datatype', 'I') == 'I':
                centred = ('linear',)
            elif scl[k] == 'log' and inp.get('convert') == 'rfi' and a0 > 0:
                centred = ('log', a0, a1)
        bad = c19_edges(outs[k], n, scl[k], lo, hi, R, kwargs, X0[:, c].tolist(), centred)
        if bad:
            return True, '[%s] %s, channel %r: %s' % (bad[0], where, chl[k], bad[1])
        if aslist:
            single = call(d.copy().hist_bins, chl[k], nbl[k], scl[k], **kwargs)
            if single[0] == 'raise' or isinstance(single[1], list) or not np.array_equal(np.asarray(single[1]), np.asarray(outs[k])):
                return True, '[list-differs-from-per-channel] %s: entry %d differs from hist_bins(%r, %r, %r)' % (where, k, chl[k], nbl[k], scl[k])
    # the sample itself must be as before
    rng1 = [list(r) for r in work.range()]
    if rng1 != rng0:
        k = [i for i in range(D) if rng1[i] != rng0[i]][0]
        tag = 'log-bins-mutate-range' if 'log' in scl else 'hist-bins-mutate-range'
        return True, '[%s] %s changed the sample: range of channel %r was %r, is %r afterwards' % (tag, where, names[k], rng0[k], rng1[k])
    if list(work.resolution()) != res0 or not np.array_equal(np.asarray(work), X0):
        return True, '[hist-bins-mutate-sample] %s changed the sample (resolution or events)' % where
    return False, 'edges satisfy every clause'
