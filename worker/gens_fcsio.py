"""Generators for the bounded stand-ins of the FCS reader properties C01 (C01.load), C16 (C16.corrupt), C14 (C14.text).
Oracles: replay_fcsio.py.  Every random choice goes through the `rnd` handed in by bounded.py."""
import itertools
import re

WIDTHS = (8, 16, 24, 32, 40, 48, 56, 64)
BYTEORDS = ('4,3,2,1', '2,1', '1,2,3,4', '1,2')
# version x where the DATA offsets are written
PLACEMENTS = (('FCS2.0', 'header'), ('FCS3.0', 'header'), ('FCS3.0', 'text'), ('FCS3.1', 'header'), ('FCS3.1', 'text'))
FLAVOURS = ('full', 'half', 'small', 'nonpow2', 'pow2+1', 'pow2-1', 'random')


# ------------------------------------------------------------------------------------------------ values
def patterns(w):
    """boundary and high-bit patterns of a w-bit unsigned field (every byte distinct in two of them)"""
    nb = w // 8
    full = (1 << w) - 1
    ps = [0, full, 1 << (w - 1), (1 << (w - 1)) - 1, (1 << (w - 1)) | 1,
          int.from_bytes(bytes(range(1, nb + 1)), 'big'), int.from_bytes(bytes(0xF0 + i for i in range(nb)), 'big'),
          int('AA' * nb, 16), int('55' * nb, 16), 1, 0xFF, full - 1, 0x80]
    return [p & full for p in ps]


def int_events(rnd, widths, N):
    rows = []
    for i in range(N):
        row = []
        for j, w in enumerate(widths):
            ps = patterns(w)
            row.append(ps[(i + 3 * j) % len(ps)] if i < len(ps) else rnd.getrandbits(w))
        rows.append(row)
    return rows


F32 = [0.0, '-0.0', 1.0, -1.5, 'inf', '-inf', 'nan', 3.4028234663852886e+38, 1.401298464324817e-45, 262143.0, 0.1,
       1.1754943508222875e-38, 16777217.0, -123456.789]
F64 = [0.0, '-0.0', 1.0, -1.5, 'inf', '-inf', 'nan', 1.7976931348623157e+308, 5e-324, 262143.0, 0.1,
       2.2250738585072014e-308, 9007199254740993.0, -123456.789]


def float_events(rnd, datatype, D, N):
    pool = F32 if datatype == 'F' else F64
    rows = []
    for i in range(N):
        rows.append([pool[(i + 5 * j) % len(pool)] if i < len(pool) else round(rnd.uniform(-1e6, 1e6), 3) for j in range(D)])
    return rows


def a_range(rnd, w, flavour):
    """a $PnR for a w-bit parameter; every value is below 2^49+1, or a multiple of a large power of two, so that neither its
    conversion to double nor a double-precision log2 can round across a power of two (g_c01_inexact covers the others)"""
    if flavour == 'full':
        return 1 << w
    if flavour == 'half':
        return 1 << (w - 1)
    if flavour == 'small':
        return 1 << rnd.choice([1, 2, w // 2, max(1, w - 5)])
    if flavour == 'nonpow2':
        return rnd.choice([200 if w == 8 else 1000, 3 << (w - 2), 10 ** (len(str(1 << w)) - 1), 7 << (w - 3)])
    if flavour == 'pow2+1':
        top = min(w - 1, 48)
        return (1 << rnd.choice([top, top, max(1, w // 2), rnd.randint(1, top)])) + 1
    if flavour == 'pow2-1':
        top = min(w, 48)
        return (1 << rnd.choice([top, top, top - 1, rnd.randint(2, top)])) - 1
    if flavour == 'random':
        return rnd.randint(2, 1 << min(w, 48))
    if flavour == 'above':
        return rnd.choice([(1 << w) + 1, 1 << (w + 1), 1 << (w + 2), 5 << w])
    raise ValueError(flavour)


def layout(version='FCS3.0', offsets_in='header', datatype='I', byteord='4,3,2,1', widths=(16, 16), ranges=None, end='last',
           data=(), **more):
    L = {'version': version, 'offsets_in': offsets_in, 'datatype': datatype, 'byteord': byteord, 'widths': list(widths),
         'ranges': list(ranges) if ranges is not None else [(1 << w) if datatype == 'I' else 262144 for w in widths],
         'end': end, 'pad_text': 0, 'pad_data': 0, 'text_after_data': False, 'data': [list(r) for r in data]}
    L.update(more)
    return L


def random_layout(rnd, max_n=6, max_d=4, datatypes='IIFD', allow_zero=True):
    version, offsets_in = rnd.choice(PLACEMENTS)
    dt = rnd.choice(datatypes)
    D = rnd.randint(1, max_d)
    if dt == 'I':
        if rnd.random() < 0.3:
            widths = [rnd.choice(WIDTHS)] * D
        else:
            widths = [rnd.choice(WIDTHS) for _ in range(D)]
        ranges = [a_range(rnd, w, rnd.choice(FLAVOURS)) for w in widths]
    else:
        widths = [32 if dt == 'F' else 64] * D
        ranges = [rnd.choice([262144, 1024, 1000]) for _ in range(D)]
    N = rnd.choice([0, 1, 2, 3, max_n] if allow_zero else [1, 2, 3, max_n])
    pad_text, tad, trailer = rnd.choice([0, 0, 1, 7, 64]), rnd.random() < 0.3, rnd.choice(['', '', '00000000', ' '])
    if N == 0 and not tad:
        pad_text = 0        # an empty DATA segment cannot be placed beyond the end of the file
    data = int_events(rnd, widths, N) if dt == 'I' else float_events(rnd, dt, D, N)
    if dt == 'I' and N:
        rnd.shuffle(data)
    return layout(version, offsets_in, dt, rnd.choice(BYTEORDS), widths, ranges, rnd.choice(['last', 'onepast']), data,
                  pad_text=pad_text, pad_data=rnd.choice([0, 0, 1, 5]), text_after_data=tad, trailer=trailer)


# ------------------------------------------------------------------------------------------------ C01
def g_c01_uniform(tier, rnd):
    """every uniform width x range flavour x byte-order spelling x end convention; D=2, 13 events (every pattern)"""
    n = 0
    for w in WIDTHS:
        for fl in FLAVOURS:
            for bo in BYTEORDS:
                for end in ('last', 'onepast'):
                    version, oin = PLACEMENTS[n % len(PLACEMENTS)]
                    n += 1
                    widths = [w, w]
                    yield 'C01.load', layout(version, oin, 'I', bo, widths, [a_range(rnd, w, fl), a_range(rnd, w, fl)], end,
                                             int_events(rnd, widths, 13), pad_text=(n % 3) * 5, trailer='00000000' if n % 2 else '')


def g_c01_mixed(tier, rnd):
    """all ordered pairs (quick) / pairs and triples (thorough) of widths, both endiannesses"""
    n = 0
    for r in ((2,) if tier == 'quick' else (2, 3)):
        for widths in itertools.product(WIDTHS, repeat=r):
            for big in (True, False):
                for rep in range(2 if r == 2 else 1):
                    version, oin = PLACEMENTS[n % len(PLACEMENTS)]
                    bo = (('4,3,2,1', '2,1') if big else ('1,2,3,4', '1,2'))[n % 2]
                    n += 1
                    ranges = [a_range(rnd, w, 'full' if rep == 0 else rnd.choice(FLAVOURS)) for w in widths]
                    yield 'C01.load', layout(version, oin, 'I', bo, widths, ranges, ('last', 'onepast')[(n // 2) % 2],
                                             int_events(rnd, widths, 13 if r == 2 else 6), pad_text=rnd.choice([0, 3]))
    if tier != 'quick':
        for _ in range(600):
            D = rnd.randint(4, 7)
            widths = [rnd.choice(WIDTHS) for _ in range(D)]
            version, oin = rnd.choice(PLACEMENTS)
            yield 'C01.load', layout(version, oin, 'I', rnd.choice(BYTEORDS), widths,
                                     [a_range(rnd, w, rnd.choice(FLAVOURS)) for w in widths], rnd.choice(['last', 'onepast']),
                                     int_events(rnd, widths, 5))


def g_c01_float(tier, rnd):
    for dt in 'FD':
        for (version, oin) in PLACEMENTS:
            for bo in BYTEORDS:
                for end in ('last', 'onepast'):
                    for D, N in ((1, 14), (3, 5)) if tier == 'quick' else ((1, 14), (2, 14), (3, 5), (5, 20), (2, 0)):
                        yield 'C01.load', layout(version, oin, dt, bo, [32 if dt == 'F' else 64] * D, None, end,
                                                 float_events(rnd, dt, D, N), pad_text=rnd.choice([0, 0, 9]),
                                                 text_after_data=rnd.random() < 0.25)


def g_c01_layouts(tier, rnd):
    """seeded draws over the whole configuration space (incl. N=0, padding, TEXT after DATA, trailer)"""
    for _ in range(2500 if tier == 'quick' else 20000):
        yield 'C01.load', random_layout(rnd)


def g_c01_zero(tier, rnd):
    """zero recorded events in every placement / convention / datatype"""
    for (version, oin) in PLACEMENTS:
        for end in ('last', 'onepast'):
            for dt, widths in (('I', [16, 16]), ('I', [8, 24, 64]), ('I', [40]), ('F', [32, 32]), ('D', [64])):
                for trailer in ('', '00000000'):
                    yield 'C01.load', layout(version, oin, dt, rnd.choice(BYTEORDS), widths, None, end, [], trailer=trailer,
                                             text_after_data=False)


def g_c01_above(tier, rnd):
    """declared range larger than 2^width (no bits to remove): outside the listed range choices, kept as its own part"""
    for w in WIDTHS[:-1]:
        for bo in ('4,3,2,1', '1,2,3,4'):
            for widths in ([w, w], [w, 8 if w != 8 else 16]):
                yield 'C01.load', layout('FCS3.0', 'header', 'I', bo, widths, [a_range(rnd, w, 'above'), 1 << widths[1]], 'last',
                                         int_events(rnd, widths, 6), range_above_width=True)


def g_c01_inexact(tier, rnd):
    """declared ranges just above / below a power of two 2^k with k >= 49, where double precision (the conversion of the
    integer itself for k >= 53, or log2 of it for k >= 49) cannot tell them from 2^k, and seeded 56/64-bit integers"""
    for w in (56, 64):
        ks = [k for k in range(49, w) if tier != 'quick' or k in (49, 52, 53, w - 1)]
        rs = [(1 << k) + 1 for k in ks] + [(1 << k) - 1 for k in ks + [w]] + [(1 << k) + (1 << (k - 53)) + 1 for k in ks if k >= 54]
        rs += [rnd.randint(1 << 49, 1 << w) | 1 for _ in range(3 if tier == 'quick' else 60)]
        for i, r in enumerate(rs):
            widths = [w, 16]
            yield 'C01.load', layout('FCS3.0', 'header', 'I', ('4,3,2,1', '1,2,3,4')[i % 2], widths, [r, 1024], 'last',
                                     int_events(rnd, widths, 13))


MIXED_ORDERS = [','.join(p) for p in itertools.permutations('1234') if ','.join(p) not in ('1,2,3,4', '4,3,2,1')]


def g_c01_unsupported(tier, rnd):
    base = []
    for (version, oin) in PLACEMENTS:
        for dt, widths in (('I', [16, 16]), ('I', [8, 24]), ('I', [32, 32]), ('F', [32, 32]), ('D', [64, 64])):
            base.append((version, oin, dt, widths))
    n = 0

    def mk(b, u, widths=None):
        version, oin, dt, w0 = b
        widths = widths or w0
        data = int_events(rnd, widths, 4) if dt == 'I' else float_events(rnd, dt, len(widths), 4)
        return 'C01.load', layout(version, oin, dt, rnd.choice(BYTEORDS), widths, None, rnd.choice(['last', 'onepast']), data,
                                  unsupported=u)
    for b in base:
        for m in ('H', 'C', 'U'):
            yield mk(b, {'kind': 'mode', 'value': m})
        yield mk(b, {'kind': 'datatype', 'value': 'A'})
        for bo in (MIXED_ORDERS if tier != 'quick' or n % 5 == 0 else rnd.sample(MIXED_ORDERS, 4)):
            yield mk(b, {'kind': 'byteord', 'value': bo})
        n += 1
    ibase = [b for b in base if b[2] == 'I']
    for b in ibase:
        D = len(b[3])
        for bad in (1, 4, 7, 10, 12, 15, 17, 20, 31, 33, 63):
            for pos in ([0], [D - 1], list(range(D))):
                yield mk(b, {'kind': 'width', 'value': [[p, bad] for p in pos]})
    # non-aligned widths whose sum is a whole number of bytes (same DATA size as the aligned layout actually written)
    for (version, oin) in PLACEMENTS:
        yield mk((version, oin, 'I', [16, 8, 8]), {'kind': 'width', 'value': [[0, 12], [1, 12]]})
        yield mk((version, oin, 'I', [8, 8]), {'kind': 'width', 'value': [[0, 4], [1, 12]]})
        yield mk((version, oin, 'I', [16, 16]), {'kind': 'width', 'value': [[0, 10], [1, 22]]})


# ------------------------------------------------------------------------------------------------ C16
_FILES = {}


def c16_files(tier, rnd):
    """the same list of files for the four C16 parts of one run (drawn once from the run's rnd)"""
    key = (tier, id(rnd))
    if key not in _FILES:
        _FILES.clear()
        _FILES[key] = _c16_files(tier, rnd)
    return _FILES[key]


def _c16_files(tier, rnd):
    fs = []
    # F1: classic file, TEXT before DATA, optional keywords at the end of TEXT, CRC trailer
    fs.append(layout('FCS3.0', 'header', 'I', '4,3,2,1', [16, 16], [1024, 65536], 'last', [[1, 2], [1023, 65535], [515, 256]],
                     extra=[['SAMPLE ID', 'demo'], ['$CYT', 'verif']], trailer='00000000'))
    # F2: TEXT after DATA (TEXT is the last segment), TEXT-only offsets, mixed widths, optional keywords last
    fs.append(layout('FCS3.1', 'text', 'I', '1,2,3,4', [8, 24], [256, 1 << 24], 'onepast', [[7, 70000], [255, 1], [0, 16777215]],
                     text_after_data=True, labels=['first', 'second'], extra=[['$CYT', 'verif'], ['NOTE', 'a/b']], pad_text=3))
    # F3: floats with an ANALYSIS segment after DATA
    fs.append(layout('FCS2.0', 'header', 'F', '1,2', [32, 32], None, 'last', [[1.5, -2.0], [1000.25, 0.0]],
                     analysis=[['GATE', 'all'], ['N', '2']], pad_data=2))
    # F4: supplemental TEXT
    fs.append(layout('FCS3.1', 'header', 'I', '1,2', [32, 32, 32], [1 << 32, 1000, 1 << 18], 'last',
                     [[1, 2, 3], [4000000000, 999, 262143]], stext=[['EXTRA1', 'x'], ['EXTRA/2', 'y/']], pad_data=1))
    # F5: no events, optional keyword last
    fs.append(layout('FCS3.0', 'header', 'I', '1,2,3,4', [16], [65536], 'onepast', [], text_after_data=False,
                     extra=[['SAMPLE ID', 'empty']]))
    # F6: one-byte events equal to the delimiter and to '/', ANALYSIS offsets in HEADER and TEXT
    fs.append(layout('FCS3.0', 'header', 'I', '4,3,2,1', [8], [256], 'last', [[47], [47], [47], [92]], delim='\\',
                     extra=[['SAMPLE ID', 'one byte events']], analysis=[['G', '1']], analysis_in='both'))
    # F7/F8: mixed integer widths (generic decoder) with TEXT before DATA and DATA as the last segment: a cut inside DATA leaves
    # HEADER and TEXT intact, so only the data segment reader can notice it (seeded change C16-4: a short read of the byte
    # matrix reshaped to fewer rows and broadcast over $TOT events)
    fs.append(layout('FCS3.0', 'header', 'I', '1,2,3,4', [16, 32, 16], [65536, 1 << 32, 1024], 'last',
                     [[1, 70000, 3], [65535, 4000000000, 1023], [258, 1, 515]], extra=[['$CYT', 'verif']]))
    fs.append(layout('FCS3.1', 'text', 'I', '4,3,2,1', [8, 24], [256, 1 << 24], 'onepast',
                     [[7, 70000], [255, 1], [0, 16777215], [9, 65536]], labels=['first', 'second'], pad_text=2))
    if tier == 'quick':
        return fs
    fs.append(layout('FCS3.0', 'header', 'D', '2,1', [64], None, 'onepast', [[1.5], [-2.0], [3.25]], trailer=' '))
    fs.append(layout('FCS3.0', 'text', 'I', '4,3,2,1', [40, 8], [1 << 40, 256], 'last', [[1099511627775, 255], [258, 1]],
                     text_after_data=True, analysis=[['A', '1']], analysis_in='text', extra=[['LAST', 'kw']]))
    fs.append(layout('FCS3.1', 'header', 'F', '4,3,2,1', [32, 32, 32], None, 'last', [[1.0, 2.0, 3.0]] * 4, text_after_data=True,
                     labels=['a', 'b', 'c'], pad_data=4, trailer='00000000'))
    fs.append(layout('FCS3.1', 'text', 'D', '1,2,3,4', [64, 64], None, 'last', [[0.5, 0.25], [1e10, -1e-10]], pad_text=11,
                     stext=[['S', 'v']], stext_leading_delim=False, extra=[['$CYT', 'verif']]))
    for _ in range(50):
        L = random_layout(rnd, max_n=3, max_d=3)
        if rnd.random() < 0.5:
            L['extra'] = [['SAMPLE ID', 'r%d' % rnd.randrange(100)], ['$CYT', 'verif']]
        if rnd.random() < 0.3:
            L['analysis'] = [['GATE', 'g%d' % rnd.randrange(10)]]
            L['analysis_in'] = rnd.choice(['header', 'text', 'both']) if L['version'] != 'FCS2.0' else 'header'
        if rnd.random() < 0.3 and L['version'] != 'FCS2.0':
            L['stext'] = [['SUPP', 'v%d' % rnd.randrange(10)]]
        fs.append(L)
    return fs


REGIONS = ('HEADER', 'TEXT', 'DATA', 'ANALYSIS', 'STEXT', 'OTHER')


def textlike_tail(L, reg):
    """regions where a cut leaves a TEXT-like segment (TEXT, supplemental TEXT, ANALYSIS) short at the end of the file"""
    if reg in ('ANALYSIS', 'STEXT', 'OTHER'):
        return True
    return reg == 'TEXT' and (L.get('text_after_data') or not L['data'])


def truncations(L):
    for reg in REGIONS:
        if reg == 'DATA' and not L['data']:
            continue
        if reg == 'ANALYSIS' and not L.get('analysis'):
            continue
        if reg == 'STEXT' and not L.get('stext'):
            continue
        if reg == 'OTHER' and not (L.get('pad_text') or L.get('pad_data') or L.get('trailer')):
            continue
        yield reg


def g_c16_truncate_data(tier, rnd):
    for L in c16_files(tier, rnd):
        for reg in truncations(L):
            if not textlike_tail(L, reg):
                yield 'C16.corrupt', {'layout': L, 'fault': {'kind': 'truncate', 'region': reg}}
        yield 'C16.corrupt', {'layout': L, 'fault': {'kind': 'empty'}}


def g_c16_truncate_textlike(tier, rnd):
    for L in c16_files(tier, rnd):
        for reg in truncations(L):
            if textlike_tail(L, reg):
                yield 'C16.corrupt', {'layout': L, 'fault': {'kind': 'truncate', 'region': reg}}


DELTAS = (-1, 1, -7, 7, -40, 40, 100000)


def field_faults(L):
    N, D = len(L['data']), len(L['widths'])
    for to in sorted({N - 1, N + 1, 0, N // 2, 2 * N + 3, N + 1000}):
        if to >= 0 and to != N:
            yield {'kind': 'field', 'field': '$TOT', 'to': to}
    for to in sorted({D - 1, D + 1, 0, D + 3}):
        if to >= 0 and to != D:
            yield {'kind': 'field', 'field': '$PAR', 'to': to}
    for j, w in enumerate(L['widths']):
        for to in sorted({w - 1, w + 1, w - 8, w + 8, 8, 16, 32, 64, 72}):
            if to > 0 and to != w:
                yield {'kind': 'field', 'field': '$P%dB' % (j + 1), 'to': to}
    hf = ['text_begin', 'text_end']
    tf = ['$BEGINDATA', '$ENDDATA']
    if L['offsets_in'] == 'header':
        hf += ['data_begin', 'data_end']
    if L.get('analysis'):
        if L.get('analysis_in', 'header') in ('header', 'both'):
            hf += ['analysis_begin', 'analysis_end']
        if L.get('analysis_in', 'header') in ('text', 'both'):
            tf += ['$BEGINANALYSIS', '$ENDANALYSIS']
    if L.get('stext'):
        tf += ['$BEGINSTEXT', '$ENDSTEXT']
    for f in hf:
        for d in DELTAS:
            yield {'kind': 'field', 'field': 'H.' + f, 'delta': d}
    for f in tf:
        for d in DELTAS:
            yield {'kind': 'field', 'field': 'T.' + f, 'delta': d}


def textlike_field(f):
    return f['field'] in ('H.text_end', 'H.analysis_begin', 'H.analysis_end', 'T.$BEGINANALYSIS', 'T.$ENDANALYSIS',
                          'T.$BEGINSTEXT', 'T.$ENDSTEXT')


def g_c16_fields_data(tier, rnd):
    """$TOT, $PAR, $PnB, DATA offsets (HEADER and TEXT), TEXT begin"""
    for L in c16_files(tier, rnd):
        for fault in field_faults(L):
            if not textlike_field(fault):
                yield 'C16.corrupt', {'layout': L, 'fault': fault}


def g_c16_fields_textlike(tier, rnd):
    """end of TEXT, begin/end of ANALYSIS and supplemental TEXT"""
    for L in c16_files(tier, rnd):
        for fault in field_faults(L):
            if textlike_field(fault):
                yield 'C16.corrupt', {'layout': L, 'fault': fault}


# ------------------------------------------------------------------------------------------------ C14
def g_c14_enum(tier, rnd):
    """all strings over {delimiter, a, b}: one case per (segment kind, length) for the strings that end with the delimiter;
    two families are batched per kind at the end: strings ending with 4, 6, .. delimiters, and strings ending with another
    character (text after the last delimiter)"""
    top = 9 if tier == 'quick' else 12
    for kind in ('primary', 'supplemental'):
        for n in range(0, top + 1):
            yield 'C14.text', {'mode': 'enum', 'kind': kind, 'alphabet': '/ab', 'lengths': [n, n], 'end': 'delim'}
    others = (('|xy', 6), ('\x0c.,', 6), ('a/b', 5)) if tier == 'quick' else (('|xy', 9), ('\x0c.,', 8), ('a/b', 8), ('\\$ ', 8))
    for alphabet, t2 in others:
        for kind in ('primary', 'supplemental'):
            yield 'C14.text', {'mode': 'enum', 'kind': kind, 'alphabet': alphabet, 'lengths': [0, t2], 'end': 'delim'}
    for end in ('even-run', 'other'):
        for kind in ('primary', 'supplemental'):
            yield 'C14.text', {'mode': 'enum', 'kind': kind, 'alphabet': '/ab', 'lengths': [1, top],
                               'end': end}
        for alphabet, t2 in others:
            for kind in ('primary', 'supplemental'):
                if end == 'even-run':
                    yield 'C14.text', {'mode': 'enum', 'kind': kind, 'alphabet': alphabet, 'lengths': [1, t2], 'end': end}


CONTROL_DELIMS = ['\x0c', '\x1e', '\x01', '\t', '\n']
DELIMS = [chr(c) for c in range(32, 127)] + CONTROL_DELIMS
POOL = 'aB$0 ,/|\\.é:-_'


def token(rnd, d, maxlen=6):
    pool = [c for c in POOL if c != d]
    n = rnd.randint(1, maxlen)
    out = [rnd.choice(pool)]
    for _ in range(n - 1):
        out.append(d if rnd.random() < 0.35 else rnd.choice(pool))
    return ''.join(out)


def shapes(d):
    x, y, z = [c for c in 'xyzw' if c != d][:3]
    return [x, x + d, x + d + d, x + d + y, x + d + d + y, x + d + y + d, x + d + y + d + d + z]


def rand_dict(rnd, d, K):
    ks = []
    while len(ks) < K:
        k = token(rnd, d)
        if k not in ks:
            ks.append(k)
    return [[k, token(rnd, d)] for k in ks]


def g_c14_roundtrip(tier, rnd):
    """dictionaries -> gen_fcs.encode_text -> reader; every delimiter"""
    for d in DELIMS:
        T = shapes(d)
        # (a) every (keyword shape, value shape) as a one-pair dictionary, and followed by a second plain pair
        yield 'C14.text', {'mode': 'roundtrip', 'delim': d, 'dicts': [[[k, v]] for k in T for v in T]}
        yield 'C14.text', {'mode': 'roundtrip', 'delim': d, 'dicts': [[[k, v], ['q', 'r']] for k in T for v in T]}
        yield 'C14.text', {'mode': 'roundtrip', 'delim': d, 'dicts': [[['q', 'r'], [k, v]] for k in T for v in T]}
        # (b) seeded dictionaries of 0..K pairs over the richer alphabet
        reps = 12 if tier == 'quick' else 120
        K = 4 if tier == 'quick' else 8
        yield 'C14.text', {'mode': 'roundtrip', 'delim': d, 'dicts': [rand_dict(rnd, d, rnd.randint(0, K)) for _ in range(reps)]}
    if tier != 'quick':
        # every two-pair dictionary over the 7 shapes, delimiter '/'
        T = shapes('/')
        for k1 in T:
            for v1 in T:
                yield 'C14.text', {'mode': 'roundtrip', 'delim': '/',
                                   'dicts': [[[k1, v1], ['k' + k2, v2]] for k2 in T for v2 in T]}


def file_delims():
    # a delimiter may not be the first character of any keyword or value the writer always emits
    bad = set('$0123456789LIFDC')
    return [d for d in DELIMS if d not in bad]


def g_c14_files(tier, rnd):
    """whole files: primary TEXT (required keywords + generated ones), supplemental TEXT, ANALYSIS"""
    ds = file_delims()
    reps = 1 if tier == 'quick' else 6
    n = 0
    for d in ds:
        for _ in range(reps):
            version, oin = PLACEMENTS[1 + n % 4]
            n += 1

            def fresh(K, taken):
                out = []
                while len(out) < K:
                    k, v = token(rnd, d), token(rnd, d)
                    if k not in taken and not k.startswith('$'):
                        taken.add(k)
                        out.append([k, v])
                return out
            taken = set()
            extra = fresh(rnd.randint(0, 3), taken)
            stext = fresh(rnd.randint(0, 3), taken)
            analysis = fresh(rnd.randint(0, 3), set())
            L = layout(version, oin, 'I', rnd.choice(BYTEORDS), [16, 8], None, rnd.choice(['last', 'onepast']), [[513, 7], [2, 255]],
                       delim=d, extra=extra, stext=stext, analysis=analysis, analysis_in=rnd.choice(['header', 'text', 'both']),
                       stext_leading_delim=rnd.random() < 0.5, text_after_data=rnd.random() < 0.3, pad_data=rnd.choice([0, 2]),
                       analysis_leading_delim=rnd.random() < 0.6)
            yield 'C14.text', {'mode': 'file', 'layout': L}


GENS = {
    'C01': [('unsupported', g_c01_unsupported), ('zero', g_c01_zero), ('float', g_c01_float), ('uniform', g_c01_uniform),
            ('mixed', g_c01_mixed), ('layouts', g_c01_layouts),
            # the two parts below fail on the unchanged tree (see the report): kept last so that they cannot crowd out others
            ('range_above_width', g_c01_above), ('range_precision', g_c01_inexact)],
    'C16': [('truncate_data', g_c16_truncate_data), ('fields_data', g_c16_fields_data),
            ('truncate_textlike', g_c16_truncate_textlike), ('fields_textlike', g_c16_fields_textlike)],
    'C14': [('roundtrip', g_c14_roundtrip), ('files', g_c14_files), ('enum', g_c14_enum)],
}

BOUNDS = {
    'C01': ('files written by the independent writer gen_fcs and loaded with FCSFile and FCSData, compared in shape, channel order '
            'and every value (integers: value mod 2^ceil(log2 range) in exact integer arithmetic; floats: bit pattern). '
            'uniform: EVERY width in {8..64} x 7 range flavours (2^w, 2^(w-1), small 2^k, non-power-of-two, 2^k+1, 2^k-1, random) x '
            '4 byte-order spellings x 2 end conventions, D=2, 13 events holding 0, 2^w-1, high-bit, 0xAA/0x55 and byte-distinct '
            'patterns (448 files; version/offset placement cycled over the 5 combinations). mixed: EVERY ordered pair of widths '
            '(thorough: and every ordered triple, plus 600 seeded D=4..7) x big/little x full/seeded ranges. float: F and D x 5 '
            'placements x 4 spellings x 2 end conventions x 2 (thorough 5) shapes with +-0, inf, nan, denormal, max values. zero: '
            'N=0 in every placement/convention/datatype (end = begin-1 resp. begin). layouts: 2500 (thorough 20000) seeded draws over '
            'version x datatype x spelling x widths^D (D<=4) x ranges x placement x end x padding {0,1,7,64} x TEXT-after-DATA x '
            'trailer, N in {0,1,2,3,6}. unsupported: $MODE H/C/U, $DATATYPE A, 22 mixed byte orders (quick: 4 seeded per base '
            'file, all 22 on every fifth), 11 non-byte-aligned widths x 3 positions, aligned-sum cases, on 25 base files: must '
            'raise. All ranges of these parts are <= 2^48+1 or have few significant bits. range_precision (own part): w in {56,64}, '
            '$PnR = 2^k+1, 2^k-1, 2^k+2^(k-53)+1 for k in {49,52,53,w-1} (thorough: every k=49..w-1) and 3 (thorough 60) seeded odd '
            'integers above 2^49. '
            'range_above_width (own part, outside the listed range choices): $PnR > 2^$PnB for w<=56.'),
    'C16': ('quick: 6 files (16-bit integers TEXT-before-DATA with optional keywords + CRC trailer; mixed 8/24-bit little-endian with '
            'TEXT after DATA, TEXT-only offsets, one-past end; float32 FCS2.0 with ANALYSIS; 32-bit with supplemental TEXT; N=0; 8-bit '
            'events equal to the delimiter with ANALYSIS offsets in HEADER and TEXT), thorough: 10 fixed + 50 seeded files '
            '(double, supplemental TEXT, N=0, other delimiter, padding): truncation at EVERY byte offset 0..len-1 (one case per '
            'file x region HEADER/TEXT/DATA/ANALYSIS/STEXT/OTHER, plus the empty file); single-field faults: $TOT in {N-1,N+1,0,N/2,'
            '2N+3,N+1000}, $PAR in {D-1,D+1,0,D+3}, each $PnB in {w-1,w+1,w-8,w+8,8,16,32,64,72}, every non-zero HEADER offset and '
            '$BEGINDATA/$ENDDATA/$BEGINANALYSIS/$ENDANALYSIS/$BEGINSTEXT/$ENDSTEXT by {-1,+1,-7,+7,-40,+40,+100000}. Oracle: both '
            'loaders raise or return the intact events, keywords (except the damaged keyword itself) and ANALYSIS, computed from the '
            'inputs; a damaged file whose declarations are consistent in their own right (declared size = extent or extent-1; '
            'declared TEXT-like segment well-formed under the reference tokenizer) is not decisive.'),
    'C14': ('enum: ALL strings over {/,a,b} of length 0..9 (thorough 0..12) as primary (delimiter taken from the first byte) and as '
            'supplemental segment (delimiter /), embedded between other bytes of a BytesIO, compared with a left-to-right '
            'reference tokenizer; also alphabets {|,x,y}, {FF,.,,}, {a,/,b} (thorough {\\,$,space}) up to length 6/6/5 (thorough '
            '9/8/8/8); one case per kind and length; two families are batched separately at the end of the part: strings ending with '
            '4, 6, .. delimiters and strings ending with a non-delimiter (all lengths each). roundtrip: for '
            'EACH of the 95 printable delimiters and 5 control characters: all 49 (keyword shape x value shape) pairs over 7 shapes '
            '(x, xd, xdd, xdy, xddy, xdyd, xdyddz) alone, before and after a plain pair, plus 12 (thorough 120) seeded '
            'dictionaries of 0..4 (0..8) pairs over a 14-character alphabet incl. the delimiter inside and at the end; thorough: '
            'all 2401 two-pair dictionaries over the shapes for /. Each written by gen_fcs.encode_text and read as primary, '
            'supplemental with and without leading delimiter. files: for each usable delimiter 1 (thorough 6) whole file with '
            'generated keywords in TEXT, supplemental TEXT and ANALYSIS (offsets in HEADER / TEXT / both).'),
}


# ------------------------------------------------------------------------------------------------ failure classes
def _tag(detail):
    m = re.match(r'\s*\[([^\]]+)\]', str(detail))
    return m.group(1) if m else 'other'


def failure_class(target, inp, detail):
    if target == 'C01.load':
        above = inp.get('datatype') == 'I' and any(int(r) > (1 << int(w)) for r, w in zip(inp.get('ranges', []), inp.get('widths', [])))
        part = 'unsupported' if inp.get('unsupported') else ('range>2^w' if above else inp.get('datatype', '?'))
        if part == 'I' and any(int(r) > (1 << 49) and (int(r) & (int(r) - 1)) for r in inp.get('ranges', [])):
            part = 'I(range>2^49)'
        return '%s:%s' % (part, _tag(detail))
    if target == 'C16.corrupt':
        f = inp.get('fault', {})
        if 'fault' not in inp:
            return None
        if f.get('kind') == 'field':
            where = re.sub(r'^\$P\d+B$', '$PnB', str(f.get('field')))
        elif f.get('kind') == 'truncate':
            where = str(f.get('region', 'at'))
        else:
            where = ''
        return '%s:%s:%s' % (f.get('kind'), where, _tag(detail))
    if target == 'C14.text':
        return '%s:%s:%s' % (inp.get('mode'), inp.get('kind', '') + ('/' + inp['end'] if inp.get('end') in ('even-run', 'other') else ''), _tag(detail))
    return None
