"""Input generators for the bounded stand-ins (same JSON shape as the counterexample witnesses)."""
import itertools
import math

RULE = ('cases are enumerated (small shapes exhaustively) or drawn with the run seed; a case counts as non-trivial when it has at '
        'least one event and one channel and is distinct (sha1 of target+inputs) from every other case of the run')

NAMES = ['FSC-H', 'SSC-H', 'FL1-H', 'FL2-H']


def nontrivial(target, inp):
    d = inp.get('data') if isinstance(inp, dict) else None
    if d is None:
        return True
    return len(d) > 0 and (not isinstance(d[0], list) or len(d[0]) > 0)


def failure_class(target, inp, detail):
    if target == 'C07.commute':
        return '%s:%s' % (inp.get('kind'), 'limit-differs-from-converted-saturated-events' if 'limit' in str(detail) else
                          'gate-does-not-commute' if 'gating' in str(detail) else str(detail)[:40])
    return str(detail)[:60]


def matrix(rnd, N, D, lo=0, hi=15):
    vals = [lo, hi, lo + 1, hi - 1, (lo + hi) // 2]
    return [[float(rnd.choice(vals + [rnd.randint(lo, hi)])) for _ in range(D)] for _ in range(N)]


def meta_for(rnd, D, none_range=False, lo=0.0, hi=15.0):
    return {
        'channels': NAMES[:D],
        'range': [None if (none_range and rnd.random() < 0.25) else [lo, hi] for _ in range(D)],
        'amplification_type': [rnd.choice([[0.0, 0.0], [4.0, 1.0], [4.5, 0.5], None]) for _ in range(D)],
        'amplifier_gain': [rnd.choice([None, 1.0, 2.0, 8.0]) for _ in range(D)],
        'detector_voltage': [rnd.choice([None, 450.0]) for _ in range(D)],
        # a different resolution per channel, so that a value taken from the wrong channel is visible
        'resolution': (lambda r0: [[16, 32, 64, 128, 256][(r0 + j) % 5] for j in range(D)])(rnd.randrange(5)),
    }


def data_cases(rnd, shapes, containers=('ndarray', 'FCSData'), none_range=False):
    for cont in containers:
        for (N, D) in shapes:
            w = {'container': cont, 'ndim': 2, 'data': matrix(rnd, N, D), 'shape': [N, D]}
            if cont == 'FCSData':
                if D == 0:
                    continue
                w['meta'] = meta_for(rnd, D, none_range)
            yield w


# ------------------------------------------------------------------------------------------------ C08
def g_start_end(tier, rnd):
    for w in data_cases(rnd, [(n, 2) for n in range(0, 6)]):
        N = w['shape'][0]
        for ns in range(-2, N + 3):
            for ne in range(-2, N + 3):
                for full in (False, True):
                    x = dict(w)
                    x.update({'num_start': ns, 'num_end': ne, 'full': full})
                    yield 'FlowCal.gate.start_end', x


def channel_forms(D, names, rnd, with_names):
    forms = [None, 0, D - 1, -1, [0], list(range(D)), list(reversed(range(D))), [-1, 0] if D > 1 else [-1], D, [0, D]]
    if with_names:
        forms += [names[0], names[-1], list(names), list(reversed(names)), [names[0], D - 1], 'nope', [names[0], 'nope']]
    return forms


def g_high_low(tier, rnd):
    reps = 2 if tier == 'quick' else 8
    for _ in range(reps):
        for w in data_cases(rnd, [(0, 2), (1, 1), (4, 2), (6, 3)], none_range=True):
            D = w['shape'][1]
            names = w.get('meta', {}).get('channels', [])
            for ch in channel_forms(D, names, rnd, w['container'] == 'FCSData'):
                for high, low in ((None, None), (15.0, None), (None, 0.0), (14.0, 1.0), (7.0, 7.0)):
                    x = dict(w)
                    x.update({'channels': ch, 'high': high, 'low': low, 'full': rnd.random() < 0.5})
                    yield 'FlowCal.gate.high_low', x


def g_ellipse(tier, rnd):
    reps = 6 if tier == 'quick' else 40
    for _ in range(reps):
        for w in data_cases(rnd, [(5, 2), (8, 3)]):
            D = w['shape'][1]
            names = w.get('meta', {}).get('channels', [])
            chs = [[0, 1], [1, 0], [-1, 0]] + ([[names[0], names[1]], [names[1], 0]] if names else [])
            for ch in chs:
                th = rnd.choice([0.0, 0.3, -1.1, math.pi / 4, 2.5])
                logf = rnd.random() < 0.3
                if logf:
                    w2 = dict(w)
                    w2['data'] = [[v + 1.0 for v in r] for r in w['data']]
                else:
                    w2 = w
                x = dict(w2)
                x.update({'channels': ch, 'center': [rnd.choice([0.9, 3.3, 7.1]), rnd.choice([0.7, 4.2])], 'a': rnd.choice([0.77, 3.1, 6.3]),
                          'b': rnd.choice([0.51, 2.2, 9.7]), 'theta': th, 'cos': math.cos(th), 'sin': math.sin(th), 'log': logf,
                          'full': True})
                yield 'FlowCal.gate.ellipse', x
    x = dict(next(data_cases(rnd, [(3, 2)], ('ndarray',))))
    x.update({'channels': None})
    yield 'FlowCal.gate.ellipse', x


# ------------------------------------------------------------------------------------------------ C04
def row_keys(N):
    ks = [0, N - 1, -1, N, {'slice': [None, None]}, {'slice': [1, None]}, {'slice': [None, -1]}, {'slice': [0, 0]},
          [0], list(range(N)), [N - 1, 0], [], {'mask': [i % 2 == 0 for i in range(N)]}, {'mask': [False] * N}, 'Ellipsis']
    return ks


def col_keys(D, names):
    ks = [0, D - 1, -1, -D, D, names[0], names[-1], 'nope', {'slice': [None, None]}, {'slice': [1, None]}, {'slice': [None, -1]},
          [0], list(range(D)), list(reversed(range(D))), [names[-1], 0], {'tuple': [0, names[-1]]}, {'list': [D - 1, names[0]]},
          [names[0], 'nope'], [0, D], 'Ellipsis', {'npint': 0}, {'bools': [i % 2 == 0 for i in range(D)]}, []]
    return ks


def g_getitem(tier, rnd):
    shapes = [(1, 1), (2, 2), (3, 3)] if tier == 'quick' else [(1, 1), (1, 2), (2, 1), (2, 2), (2, 3), (3, 2), (3, 3), (4, 4)]
    for (N, D) in shapes:
        w = {'container': 'FCSData', 'ndim': 2, 'data': [[float(i * 10 + j) for j in range(D)] for i in range(N)], 'shape': [N, D],
             'meta': meta_for(rnd, D, True)}
        names = w['meta']['channels']
        for rk in row_keys(N):
            for ck in col_keys(D, names):
                x = dict(w)
                x.update({'key': {'rows': rk, 'cols': ck}, 'single': False})
                yield 'FlowCal.io.FCSData.__getitem__', x
            x = dict(w)
            x.update({'key': {'rows': rk}, 'single': True})
            yield 'FlowCal.io.FCSData.__getitem__', x


def g_setitem(tier, rnd):
    shapes = [(2, 2), (3, 3)] if tier == 'quick' else [(1, 1), (2, 2), (2, 3), (3, 2), (3, 3), (4, 3)]
    for (N, D) in shapes:
        w = {'container': 'FCSData', 'ndim': 2, 'data': [[float(i * 10 + j) for j in range(D)] for i in range(N)], 'shape': [N, D],
             'meta': meta_for(rnd, D, True)}
        names = w['meta']['channels']
        for rk in row_keys(N):
            for ck in col_keys(D, names):
                if isinstance(ck, dict) and ('npint' in ck or 'bools' in ck):
                    continue
                x = dict(w)
                x.update({'key': {'rows': rk, 'cols': ck}, 'single': False, 'item': -7.5})
                yield 'FlowCal.io.FCSData.__setitem__', x


def g_finalize(tier, rnd):
    yield 'FlowCal.io.FCSData.__array_finalize__', {'kind': 'independence-of-derived-samples'}


def g_file_eq(tier, rnd):
    base = [[1.0, 2.0], [3.0, 4.0]]
    variants = [base, [[1.0, 2.0], [3.0, 4.0000001]], [[1.0, 2.0], [3.0, 5.0]], [[150000.0, 2.0], [3.0, 4.0]],
                [[150001.0, 2.0], [3.0, 4.0]], [[1.0, 2.0]], [[float('nan'), 2.0], [3.0, 4.0]]]
    for a in variants:
        for b in variants:
            for ne in (False, True):
                if any(v != v for r in a + b for v in r):
                    continue
                yield 'FlowCal.io.FCSFile.__eq__', {'a': a, 'b': b, 'same_name': True, 'ne': ne}


# ------------------------------------------------------------------------------------------------ C06
def g_to_mef(tier, rnd):
    shapes = [(3, 2), (3, 3)] if tier == 'quick' else [(2, 1), (3, 2), (3, 3), (2, 4)]
    for cont in ('ndarray', 'FCSData'):
        for (N, D) in shapes:
            w = {'container': cont, 'ndim': 2, 'data': matrix(rnd, N, D), 'shape': [N, D]}
            names = NAMES[:D]
            if cont == 'FCSData':
                w['meta'] = meta_for(rnd, D, True)
            spell = [lambda c: c] + ([lambda c: names[c]] if cont == 'FCSData' else [])
            sc_sets = [None] + [list(p) for r in range(1, D + 1) for p in itertools.permutations(range(D), r)]
            for sc in sc_sets:
                sc_cols = list(range(D)) if sc is None else sc
                reqs = [None] + [list(p) for r in range(1, min(D, 2) + 1) for p in itertools.permutations(range(D), r)] + [0, D - 1]
                for rq in reqs:
                    for sp in spell:
                        for dn in (0, 1, -1) if (rq is None or rq == 0) else (0,):
                            x = dict(w)
                            x.update({'channels': None if rq is None else ([sp(c) for c in rq] if isinstance(rq, list) else sp(rq)),
                                      'sc_channels': None if sc is None else [sp(c) for c in sc],
                                      'n_curves': max(0, len(sc_cols) + dn)})
                            yield 'FlowCal.transform.to_mef', x


def g_to_rfi(tier, rnd):
    shapes = [(3, 2), (3, 3)] if tier == 'quick' else [(2, 1), (3, 2), (3, 3), (2, 4)]
    ats = [None, [0.0, 0.0], [4.0, 1.0], [4.5, 0.5], [2.0, 10.0]]
    for cont in ('ndarray', 'FCSData'):
        for (N, D) in shapes:
            names = NAMES[:D]
            spell = [lambda c: c, lambda c: c - D] + ([lambda c: names[c]] if cont == 'FCSData' else [])
            reqs = [None, 0, D - 1] + [list(p) for r in range(1, D + 1) for p in itertools.permutations(range(D), r)]
            for rq in reqs:
                for sp in spell:
                    for form in ('none', 'given', 'given', 'badlen', 'noniter'):
                        w = {'container': cont, 'ndim': 2, 'data': matrix(rnd, N, D), 'shape': [N, D]}
                        if cont == 'FCSData':
                            w['meta'] = meta_for(rnd, D, True)
                            w['meta']['amplification_type'] = [rnd.choice(ats[1:]) for _ in range(D)]
                        elif form == 'none':
                            continue
                        n = 1 if not isinstance(rq, list) and rq is not None else (D if rq is None else len(rq))
                        if form in ('badlen', 'noniter') and not (isinstance(rq, list) or rq is None):
                            continue
                        ents = [{'at': rnd.choice(ats if cont == 'FCSData' else ats[1:]), 'ag': rnd.choice([None, 2.0, 0.5]),
                                 'r': rnd.choice([None, 1024, 1000] if cont == 'FCSData' else [1024, 256])} for _ in range(n)]
                        w.update({'channels': None if rq is None else ([sp(c) for c in rq] if isinstance(rq, list) else sp(rq)),
                                  'ov_form': form, 'entries': ents if form != 'none' else None, 'which': rnd.randrange(3)})
                        yield 'FlowCal.transform.to_rfi', w


def g_c07(tier, rnd):
    sels = [['FL1-H'], ['FSC-H', 'FL2-H'], ['FSC-H', 'FL1-H', 'FL2-H'], ['FL2-H', 'FL1-H']]
    a0s = [1.0, 2.0, 3.0, 4.0, 4.5, 5.0, 6.0, 7.0, 8.0]
    a1s = [1.0, 0.5, 10.0, 0.01]
    rs = [256, 1000, 1024, 3000, 4096, 10000, 65536, 262144]
    n = 0
    for a0 in a0s:
        for a1 in a1s:
            for r in rs:
                if tier == 'quick' and (n % 3):
                    n += 1
                    continue
                n += 1
                yield 'C07.commute', {'kind': 'rfi', 'a0': a0, 'a1': a1, 'resolution': r, 'gain': None, 'channels': sels[n % len(sels)]}
    for g in (None, 1.0, 2.0, 3.0, 0.7):
        for r in (256, 1024, 1000):
            yield 'C07.commute', {'kind': 'rfi', 'a0': 0.0, 'a1': 0.0, 'resolution': r, 'gain': g, 'channels': sels[n % len(sels)]}
            n += 1
    reps = 150 if tier == 'quick' else 1500
    for _ in range(reps):
        yield 'C07.commute', {'kind': 'mef', 'm': round(rnd.uniform(0.85, 1.25), 4), 'b': round(rnd.uniform(0.0, 7.0), 4),
                              'resolution': rnd.choice(rs[:5]), 'channels': rnd.choice(sels)}
    if tier != 'quick':
        for _ in range(1500):
            yield 'C07.commute', {'kind': 'rfi', 'a0': round(rnd.uniform(0.5, 8), 3), 'a1': rnd.choice(a1s), 'resolution': rnd.choice(rs),
                                  'gain': None, 'channels': rnd.choice(sels)}


def g_c02_orch(tier, rnd):
    """orchestration of get_transform_fxn with stub clustering / selection / fitting: small integer-valued samples (ties between
    population means in single channels are frequent), every labelling order, several clustering-channel lists"""
    n_cases = 250 if tier == 'quick' else 3000
    for _ in range(n_cases):
        K = rnd.choice([2, 3, 3, 4])
        per = rnd.choice([1, 2, 3])
        D = 3
        centres = [[rnd.choice([0, 1, 2, 3, 5, 8]) for _c in range(D)] for _k in range(K)]
        rows, labels = [], []
        names = list(range(K))
        rnd.shuffle(names)
        for kx in range(K):
            for _e in range(per):
                rows.append([float(v + (rnd.choice([0, 0, 1]) if per > 1 else 0)) for v in centres[kx]])
                labels.append(names[kx])
        order = list(range(len(rows)))
        rnd.shuffle(order)
        rows = [rows[i] for i in order]
        labels = [labels[i] for i in order]
        chs = rnd.choice([[2], [1], [1, 2], [2, 0]])
        cch = rnd.choice([[0], [1], [0, 1], [1, 0], [0, 1, 2], list(chs)])
        mef = [[(None if rnd.random() < 0.2 else float(10 ** (j + 1) + c_)) for j in range(K)] for c_ in range(len(chs))]
        selected = [[rnd.random() < 0.8 for _j in range(K)] for _c in range(len(chs))]
        yield 'FlowCal.mef.get_transform_fxn', {'data': rows, 'chs': chs, 'cch': cch, 'labels': labels, 'mef': mef, 'selected': selected}


GENS = {
    'C08': [('start_end', g_start_end), ('high_low', g_high_low), ('ellipse', g_ellipse)],
    'C04': [('getitem', g_getitem), ('setitem', g_setitem)],
    'C20': [('finalize', g_finalize), ('file_eq', g_file_eq)],
    'C06': [('to_mef', g_to_mef)],
    'C03': [('to_rfi', g_to_rfi)],
    'C07': [('commute', g_c07)],
    # the transformation that get_transform_fxn returns is to_mef bound to the fitted curves: C02 re-uses C06's enumeration
    'C02': [('returned-transformation(to_mef)', g_to_mef), ('orchestration(stub clustering/selection/fit)', g_c02_orch)],
}

BOUNDS = {
    'C08': 'start_end: all N<=5, counts in -2..N+2; high_low: N<=6, D<=3, every channel form incl. invalid ones, 5 threshold '
           'settings; ellipse: N<=8, D<=3, 5 angles (seeded draws of centre/axes)',
    'C04': 'all keys of the grammar rows x cols (15 row forms x 23 column forms, incl. invalid and other forms) for shapes N,D<=3 '
           '(quick) / <=4 (thorough), reads and writes',
    'C20': 'copy/deepcopy/view/row slice/column slice/astype/ufunc of a 3x3 sample; equality of all pairs out of 6 event matrices',
    'C06': 'D<=3 (quick) / 4 (thorough): every ordered subset of columns as sc_channels, every ordered request of <=2 columns, by '
           'position and by name, curve count = len(sc_channels) and +-1',
}


BOUNDS['C02'] = ('returned transformation: the C06 enumeration of to_mef (ordered subsets of curves / requests); orchestration: 250 '
                 '(quick) / 3000 (thorough) seeded small samples (2-4 populations of 1-3 integer-valued events in 3 channels, shuffled '
                 'event order and label numbering, 6 clustering-channel lists, unknown values and rejected populations at random) run '
                 'through get_transform_fxn with stub clustering / selection / fitting functions')


BOUNDS['C03'] = ('D<=3 (quick) / 4 (thorough): every ordered subset of columns by position, negative position and name; overrides '
                 'absent / per-entry optional (amplification type, gain, resolution drawn from small sets) / wrong length / non-iterable')


BOUNDS['C07'] = ('integer samples with events at and next to both limits, 3 channels; amplifier lattice a0 in {1..8,4.5} x a1 in '
                 '{1,0.5,10,0.01} x resolution in {256,1000,1024,3000,4096,10000,65536,262144} (every third point in quick), linear '
                 'gains, seeded standard-curve parameters m in [0.85,1.25], b in [0,7]; comparison is exact (bitwise)')


# parts whose inputs lie outside a property's quantifier (kept by their authors for information, not part of the check)
EXCLUDED_PARTS = {('C01', 'range_above_width'): '$PnR > 2^$PnB is outside C01\'s quantifier (ranges are 2^w, smaller powers of two, or non-powers below 2^w)'}


def generators(pid):
    return [(n, g) for (n, g) in GENS.get(pid, []) if (pid, n) not in EXCLUDED_PARTS]


def budget(pid, part, tier):
    return 40 if tier == 'quick' else 400


def domain_text(pid, tier):
    return BOUNDS.get(pid, '')


def bound_text(pid, tier):
    return BOUNDS.get(pid, '')


# ---------------------------------------------------------------------------------------------
# plug-ins: worker/gens_<tag>.py may define GENS, BOUNDS and failure_class(target, inp, detail) -> str | None
import glob as _glob
import importlib as _importlib
import os as _os
_PLUG = []
for _p in sorted(_glob.glob(_os.path.join(_os.path.dirname(_os.path.abspath(__file__)), 'gens_*.py'))):
    try:
        _m = _importlib.import_module(_os.path.basename(_p)[:-3])
    except Exception as _e:      # a broken plug-in must not take the other properties down
        import sys as _sys
        print('gens plug-in %s failed to import: %r' % (_p, _e), file=_sys.stderr)
        PLUGIN_ERRORS = globals().setdefault('PLUGIN_ERRORS', [])
        PLUGIN_ERRORS.append((_os.path.basename(_p), repr(_e)))
        continue
    _PLUG.append(_m)
    for _k, _v in getattr(_m, 'GENS', {}).items():
        GENS.setdefault(_k, [])
        GENS[_k] = GENS[_k] + list(_v)
    for _k, _v in getattr(_m, 'BOUNDS', {}).items():
        BOUNDS[_k] = (BOUNDS[_k] + ' | ' + _v) if _k in BOUNDS else _v
_base_failure_class = failure_class


def failure_class(target, inp, detail):
    for _m in _PLUG:
        f = getattr(_m, 'failure_class', None)
        if f is not None:
            r = f(target, inp, detail)
            if r:
                return r
    return _base_failure_class(target, inp, detail)
